"""Independent dense reference of one Basis-Update-and-Galerkin (BUG) step on a tree, written from the
scheme's definition (Ceruti-Lubich-Sulz), using only labelled dense tensors.  Never calls PyTreeNet.

Input: the tree (parent map, children lists), tensors with legs (bond to parent, bonds to children in
`children` order, physical) of a state that is canonical at the root, the dense Hamiltonian over `order`,
dt, and `fixed_rank`.  Output: the full state vector after one step (before any truncation).
"""
from __future__ import annotations

from typing import Dict, List, Tuple

import numpy as np

from .dense import contract_labeled


def _labels(n, parent, children):
    lab = []
    if parent[n] is not None:
        lab.append(("b", n))
    for c in children[n]:
        lab.append(("b", c))
    lab.append(("p", n))
    return lab


def _subtree(n, children):
    out, stack = [], [n]
    while stack:
        x = stack.pop()
        out.append(x)
        stack.extend(children[x])
    return out


def _contract_leg(arr, labels, leg, mat):
    """Contract `mat[new, old]` into leg `leg` of arr (old index), keeping the leg position."""
    k = labels.index(leg)
    out = np.tensordot(arr, mat, axes=([k], [1]))
    return np.moveaxis(out, -1, k)


def _embedding(T, target, tlabels, order):
    """E: tensor at `target` (flattened in tlabels order) -> full vector over `order` (phys legs)."""
    items = [(a, l) for n, (a, l) in T.items() if n != target]
    tshape = T[target][0].shape
    bonds = [l for l in tlabels if l[0] == "b"]
    bdims = [tshape[tlabels.index(l)] for l in bonds]
    pd = tshape[tlabels.index(("p", target))]
    if items:
        env, el = contract_labeled(items)
    else:
        env, el = np.array(1.0 + 0j), []
    others = [l for l in el if l[0] == "p"]
    perm = [el.index(l) for l in others] + [el.index(l) for l in bonds]
    assert len(perm) == len(el)
    env = np.transpose(env, perm) if perm else env
    odims = [env.shape[i] for i in range(len(others))]
    O = int(np.prod(odims)) if odims else 1
    B = int(np.prod(bdims)) if bdims else 1
    # columns ordered as tlabels: bonds..., phys (phys is last in tlabels by construction)
    E = np.einsum("ob,pq->opbq", env.reshape(O, B), np.eye(pd)).reshape(O * pd, B * pd)
    sites = [l[1] for l in others] + [target]
    rdims = odims + [pd]
    Et = E.reshape(rdims + [B * pd])
    permr = [sites.index(s) for s in order]
    return np.transpose(Et, permr + [len(rdims)]).reshape(-1, B * pd)


def _evolve(K, vec, dt):
    K = (K + K.conj().T) / 2
    w, U = np.linalg.eigh(K)
    return (U * np.exp(-1j * w * dt)) @ (U.conj().T @ vec)


def bug_step(parent: Dict[str, str | None], children: Dict[str, List[str]], tensors: Dict[str, np.ndarray],
             Hm: np.ndarray, order: List[str], dt: float, fixed_rank: bool) -> np.ndarray:
    root = [n for n in parent if parent[n] is None][0]
    T0 = {n: (np.asarray(tensors[n], dtype=complex), _labels(n, parent, children)) for n in parent}

    def subflow(tau, T):
        """T: centre at parent(tau).  Returns (new tensors of subtree(tau), M_tau[new, old])."""
        p = parent[tau]
        T1 = dict(T)
        # move the centre p -> tau by a QR of p's tensor toward tau
        P, lp = T[p]
        k = lp.index(("b", tau))
        Pm = np.moveaxis(P, k, -1)
        shp = Pm.shape
        Q, R = np.linalg.qr(Pm.reshape(-1, shp[-1]))
        T1[p] = (np.moveaxis(Q.reshape(shp[:-1] + (Q.shape[1],)), -1, k), lp)
        A, la = T[tau]
        T1[tau] = (_contract_leg(A, la, ("b", tau), R), la)
        new_sub, C0 = {}, T1[tau][0]
        for c in children[tau]:
            sub_c, M_c = subflow(c, T1)
            new_sub.update(sub_c)
            C0 = _contract_leg(C0, la, ("b", c), M_c)
        # effective Hamiltonian: old tensors outside subtree(tau), new bases inside the child subtrees
        inside = set(_subtree(tau, children))
        Tenv = {n: T1[n] for n in T1 if n not in inside}
        Tenv.update({n: new_sub[n] for n in new_sub})
        Tenv[tau] = (C0, la)
        E = _embedding(Tenv, tau, la, order)
        K = E.conj().T @ Hm @ E
        C1 = _evolve(K, C0.reshape(-1), dt).reshape(C0.shape)
        # new basis: rows = (children bonds, phys), columns = bond to the parent
        k = la.index(("b", tau))
        A0 = np.moveaxis(C0, k, -1)
        A1 = np.moveaxis(C1, k, -1)
        rows_shape = A0.shape[:-1]
        A0m, A1m = A0.reshape(-1, A0.shape[-1]), A1.reshape(-1, A1.shape[-1])
        if fixed_rank:
            Qn, _ = np.linalg.qr(A1m)
        else:
            Qn, _ = np.linalg.qr(np.concatenate([A1m, A0m], axis=1))
        Unew = np.moveaxis(Qn.reshape(rows_shape + (Qn.shape[1],)), -1, k)
        # M_tau = Unew^dagger (U0 with the children's basis changes)
        U0 = T[tau][0]
        for c in children[tau]:
            U0 = _contract_leg(U0, la, ("b", c), basis_change[c])
        U0m = np.moveaxis(U0, k, -1).reshape(-1, U0.shape[k])
        M = Qn.conj().T @ U0m
        basis_change[tau] = M
        new_sub[tau] = (Unew, la)
        return new_sub, M

    basis_change: Dict[str, np.ndarray] = {}
    new_all = {}
    C0, lr = T0[root]
    for c in children[root]:
        sub_c, M_c = subflow(c, T0)
        new_all.update(sub_c)
        C0 = _contract_leg(C0, lr, ("b", c), M_c)
    Tenv = dict(new_all)
    Tenv[root] = (C0, lr)
    E = _embedding(Tenv, root, lr, order)
    K = E.conj().T @ Hm @ E
    C1 = _evolve(K, C0.reshape(-1), dt).reshape(C0.shape)
    return E @ C1.reshape(-1)


def read_state(ttns):
    """Parent map, children lists and tensors (legs: parent, children, phys) of a library state."""
    parent = {n: nd.parent for n, nd in ttns.nodes.items()}
    children = {n: list(nd.children) for n, nd in ttns.nodes.items()}
    tensors = {n: np.array(ttns.tensors[n]) for n in ttns.nodes}
    return parent, children, tensors
