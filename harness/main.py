"""Entry point: ./check Cxx --tier quick|thorough [--replay file]

exit 0  property held on everything explored (KNOWN-FINDING lines allowed)
exit 1  VIOLATION property=<id> replay=<path> [no-failing-input-found]
exit 2  harness problem / timeout (never prints a VIOLATION line)
"""
from __future__ import annotations

import argparse
import importlib
import json
import os
import signal
import sys
import time
import traceback

sys.path.insert(0, os.path.dirname(os.path.dirname(os.path.abspath(__file__))))
sys.dont_write_bytecode = True
import warnings  # noqa: E402
warnings.filterwarnings("ignore")

if os.environ.get("VERIF_REPO"):          # run against a scratch worktree instead of /repo
    sys.path.insert(0, os.environ["VERIF_REPO"])

from harness import common  # noqa: E402
from harness.common import Ctx, HarnessError  # noqa: E402


def load_module(pid: str):
    return importlib.import_module(f"harness.props.{pid.lower()}")


def fresh_ctx(ctx: Ctx) -> Ctx:
    c = Ctx(ctx.pid, ctx.tier, ctx.seed)
    c.lean = ctx.lean
    return c


def still_fails(mod, ctx: Ctx, case, kind: str, finding) -> bool:
    c = fresh_ctx(ctx)
    try:
        mod.run_case(c, case)
    except HarnessError:
        return False
    except Exception:
        return False
    return any(f["kind"] == kind and f["finding"] == finding for f in c.failures)


def shrink_case(mod, ctx: Ctx, failure, budget_s: float = 40.0):
    if not hasattr(mod, "shrink"):
        return failure
    t_end = time.time() + budget_s
    case = failure["case"]
    improved = True
    while improved and time.time() < t_end:
        improved = False
        try:
            cands = list(mod.shrink(case))
        except Exception:
            break
        for cand in cands:
            if time.time() > t_end:
                break
            if still_fails(mod, ctx, cand, failure["kind"], failure["finding"]):
                case = cand
                improved = True
                break
    if case is not failure["case"]:
        c = fresh_ctx(ctx)
        mod.run_case(c, case)
        for f in c.failures:
            if f["kind"] == failure["kind"] and f["finding"] == failure["finding"]:
                return f
    return failure


def main() -> int:
    ap = argparse.ArgumentParser()
    ap.add_argument("pid")
    ap.add_argument("--tier", default=os.environ.get("VERIF_TIER", "quick"), choices=["quick", "thorough"])
    ap.add_argument("--replay", default=None)
    ap.add_argument("--skip-proof", action="store_true", help="development only")
    args = ap.parse_args()
    pid = args.pid.upper()
    seed = int(os.environ.get("VERIF_SEED", "0") or 0)
    os.environ.setdefault("PYTREENET_VERIF", "1")
    os.environ.setdefault("OMP_NUM_THREADS", "1")
    os.environ.setdefault("OPENBLAS_NUM_THREADS", "1")
    os.environ.setdefault("MKL_NUM_THREADS", "1")

    mod = load_module(pid)
    ctx = Ctx(pid, args.tier, seed)
    ctx.rule = getattr(mod, "RULE", "")
    ctx.partial = list(getattr(mod, "PARTIAL", []))
    ctx.assumptions = list(getattr(mod, "ASSUMPTIONS", []))
    known = common.load_known_findings(pid)
    if os.environ.get("VERIF_FORCE_SCALE"):       # development: exercise the enlarged-search budget directly
        ctx.scale = int(os.environ["VERIF_FORCE_SCALE"])

    # ---------------------------------------------------------------- replay mode
    if args.replay:
        payload = common.unjson(json.load(open(args.replay)))
        if payload.get("kind") == "proof":
            proof = common.proof_stage(pid, "quick")
            if proof.ok:
                print(f"replay: proof stage of {pid} checks again")
                return 0
            print("\n".join(proof.problems))
            print(f"VIOLATION property={pid} replay={args.replay} no-failing-input-found")
            return 1
        mod.run_case(ctx, payload["case"])
        bad = [f for f in ctx.failures]
        for f in bad:
            print(f"replay: {f['kind']} failure: {f['detail']}")
        if any(f["kind"] == "oracle" and not (f["finding"] in known and known[f["finding"]]["status"] == "open")
               for f in bad):
            print(f"VIOLATION property={pid} replay={args.replay}")
            return 1
        if any(f["kind"] == "corr" for f in bad):
            print(f"VIOLATION property={pid} replay={args.replay} no-failing-input-found")
            return 1
        for f in bad:
            print(f"KNOWN-FINDING: property={pid} {f['finding']} {known[f['finding']]['what']}")
        print("replay: no failure reproduced")
        return 0

    # ---------------------------------------------------------------- stage A
    if args.skip_proof:
        proof = common.ProofResult()
        proof.obligations = common.read_obligations(pid)
        proof.discharged = list(proof.obligations)
        proof.checker_cmd = "(skipped: development run)"
    else:
        proof = common.proof_stage(pid, args.tier)
    for pr in proof.problems:
        print(f"[proof] {pr}")
    print(f"[proof] {pid}: obligations={len(proof.obligations)} discharged={len(proof.discharged)}")

    # anchored sources changed since the models were written: search harder (not a violation by itself)
    drift = common.anchor_drift(pid)
    ctx.notes["anchor_drift"] = drift
    if drift and not os.environ.get("VERIF_FORCE_SCALE") and not os.environ.get("VERIF_NO_DRIFT_SCALE"):
        ctx.scale = {"C01": 2, "C12": 2}.get(pid, 3)
        print(f"[anchor] anchored source differs from the baseline the model was validated on: {', '.join(drift)}; "
              f"generator budget x{ctx.scale}")

    # ---------------------------------------------------------------- stages B + C
    limit = int(os.environ.get("VERIF_TIME_LIMIT", "0") or 0)
    if limit:
        ctx.deadline = time.time() + limit
    mod.run(ctx)

    def unlisted_oracle(fs):
        return [f for f in fs if f["kind"] == "oracle"
                and not (f["finding"] in known and known[f["finding"]]["status"] == "open")]

    broke = (not proof.ok) or any(f["kind"] == "corr" for f in ctx.failures)
    if broke and not unlisted_oracle(ctx.failures):
        # enlarged failing-input search on model and implementation
        print(f"[search] proof or correspondence broke: enlarged failing-input search (x10)")
        ctx.scale = 10
        ctx.rng = ctx.subrng("enlarged")
        try:
            mod.run(ctx)
        except HarnessError as e:
            print(f"[search] enlarged search aborted: {e}")

    # ---------------------------------------------------------------- verdict
    oracle_bad = unlisted_oracle(ctx.failures)
    corr_bad = [f for f in ctx.failures if f["kind"] == "corr"]
    known_hits = sorted({f["finding"] for f in ctx.failures
                         if f["kind"] == "oracle" and f["finding"] in known
                         and known[f["finding"]]["status"] == "open"})
    lines = []
    idx = 0
    if oracle_bad:
        seen = set()
        for f in oracle_bad:
            sig = (f["finding"], f["detail"].split(":")[0][:60])
            if sig in seen or len(seen) >= 3:
                continue
            seen.add(sig)
            f = shrink_case(mod, ctx, f)
            path = common.write_replay(pid, seed, idx, {"property": pid, "kind": "oracle", "case": f["case"],
                                                        "detail": f["detail"], "finding": f["finding"]})
            idx += 1
            print(f"[oracle] {f['detail']}")
            lines.append(f"VIOLATION property={pid} replay={path}")
    else:
        if not proof.ok:
            path = common.write_replay(pid, seed, idx, {"property": pid, "kind": "proof",
                                                        "no_longer_checks": proof.problems,
                                                        "obligations": proof.obligations,
                                                        "discharged": proof.discharged})
            idx += 1
            lines.append(f"VIOLATION property={pid} replay={path} no-failing-input-found")
        if corr_bad:
            f = shrink_case(mod, ctx, corr_bad[0])
            path = common.write_replay(pid, seed, idx, {"property": pid, "kind": "correspondence",
                                                        "no_longer_checks": "model/implementation correspondence",
                                                        "case": f["case"], "detail": f["detail"],
                                                        "n_disagreements": len(corr_bad)})
            idx += 1
            print(f"[corr] {f['detail']}")
            lines.append(f"VIOLATION property={pid} replay={path} no-failing-input-found")

    for fid in known_hits:
        print(f"KNOWN-FINDING: property={pid} {fid} {known[fid]['what']}")
    ctx.notes["disagreements_checked"] = len(corr_bad)
    common.write_evidence(ctx, proof, len(lines), known_hits)
    print(f"[done] {pid} tier={args.tier} seed={seed} evaluations={ctx.evaluations} "
          f"nontrivial={len(ctx.nontrivial_keys)} corr={ctx.corr_cases} "
          f"wall={time.time() - ctx.t0:.1f}s")
    for ln in lines:
        print(ln)
    return 1 if lines else 0


if __name__ == "__main__":
    try:
        rc = main()
    except HarnessError as e:
        print(f"harness error: {e}", file=sys.stderr)
        rc = 2
    except Exception:
        traceback.print_exc()
        rc = 2
    sys.stdout.flush()
    sys.exit(rc)
