"""Independent dense references. Reads only the public surface of a network
(`ttn.nodes[id].parent/.children/.identifier`, `ttn.tensors[id]`, `ttn.root_id`) and never
calls a library contraction routine.  Leg convention after `ttn.tensors[id]` access:
(parent, children in node.children order, open legs).
"""
from __future__ import annotations

from typing import Dict, List, Sequence, Tuple, Any

import numpy as np


def contract_labeled(tensors: List[Tuple[np.ndarray, List[Any]]]) -> Tuple[np.ndarray, List[Any]]:
    """Contract a list of (array, labels); every label occurs once (free) or twice (bound)."""
    items = [(np.asarray(t), list(l)) for t, l in tensors]
    if not items:
        return np.array(1.0), []
    # self-traces are not expected in a tree; handle pairwise
    while len(items) > 1:
        # find a pair sharing a label, else take the first two (outer product)
        pair = None
        for i in range(len(items)):
            si = set(items[i][1])
            for j in range(i + 1, len(items)):
                if si & set(items[j][1]):
                    pair = (i, j)
                    break
            if pair:
                break
        if pair is None:
            pair = (0, 1)
        i, j = pair
        (a, la), (b, lb) = items[i], items[j]
        shared = [x for x in la if x in lb]
        ax_a = [la.index(x) for x in shared]
        ax_b = [lb.index(x) for x in shared]
        c = np.tensordot(a, b, axes=(ax_a, ax_b))
        lc = [x for x in la if x not in shared] + [x for x in lb if x not in shared]
        items = [it for k, it in enumerate(items) if k not in (i, j)] + [(c, lc)]
    return items[0]


def node_labels(ttn, nid: str, tag: str = "") -> List[Any]:
    node = ttn.nodes[nid]
    labels: List[Any] = []
    if node.parent is not None:
        labels.append(("e", tag, node.parent, nid))
    for c in node.children:
        labels.append(("e", tag, nid, c))
    nopen = node.nopen_legs()
    for k in range(nopen):
        labels.append(("o", tag, nid, k))
    return labels


def ttn_dense(ttn, order: Sequence[str] | None = None, conj: bool = False) -> Tuple[np.ndarray, List[Any]]:
    """Full contraction; open legs ordered by `order` (default: sorted ids), per node in node order."""
    ids = list(ttn.nodes.keys())
    order = list(order) if order is not None else sorted(ids)
    items = []
    for nid in ids:
        t = ttn.tensors[nid]
        if conj:
            t = t.conj()
        items.append((t, node_labels(ttn, nid)))
    arr, labels = contract_labeled(items)
    want = [l for nid in order for l in labels if l[0] == "o" and l[2] == nid]
    want.sort(key=lambda l: (order.index(l[2]), l[3]))
    perm = [labels.index(l) for l in want]
    assert len(perm) == len(labels), "unbound edge label left: network is not a well-formed tree"
    return (np.transpose(arr, perm) if perm else arr), want


def ttns_vector(ttns, order: Sequence[str] | None = None) -> np.ndarray:
    arr, _ = ttn_dense(ttns, order)
    return np.asarray(arr).reshape(-1)


def ttno_matrix(ttno, order: Sequence[str] | None = None) -> np.ndarray:
    """Rows: first open leg (output) of every node in `order`; columns: second open leg (input)."""
    arr, labels = ttn_dense(ttno, order)
    outs = [i for i, l in enumerate(labels) if l[3] == 0]
    ins = [i for i, l in enumerate(labels) if l[3] == 1]
    assert len(outs) == len(ins) and len(outs) + len(ins) == len(labels)
    arr = np.transpose(arr, outs + ins)
    d = int(np.prod(arr.shape[:len(outs)])) if outs else 1
    return arr.reshape(d, d)


def phys_dims(ttn, order: Sequence[str]) -> List[int]:
    dims = []
    for nid in order:
        node = ttn.nodes[nid]
        sh = node.shape
        dims.append(int(sh[-1]) if node.nopen_legs() > 0 else 1)
    return dims


def kron_all(mats: Sequence[np.ndarray]) -> np.ndarray:
    out = np.array([[1.0 + 0j]])
    for m in mats:
        out = np.kron(out, m)
    return out


def embed_ops(ops: Dict[str, np.ndarray], order: Sequence[str], dims: Sequence[int]) -> np.ndarray:
    """Tensor product over `order` with identities on sites not in `ops`."""
    return kron_all([np.asarray(ops[n]) if n in ops else np.eye(d) for n, d in zip(order, dims)])


def structure(ttn) -> Dict[str, Any]:
    """Observable structure: root, parent map, child *sets*."""
    return {
        "root": ttn.root_id,
        "parent": {nid: n.parent for nid, n in ttn.nodes.items()},
        "children": {nid: sorted(n.children) for nid, n in ttn.nodes.items()},
    }


def well_formed(ttn) -> List[str]:
    """Well-formedness predicate of property C02. Returns a list of problems (empty = ok)."""
    probs = []
    nodes = ttn.nodes
    roots = [i for i, n in nodes.items() if n.parent is None]
    if len(roots) != 1:
        probs.append(f"roots={roots}")
    elif ttn.root_id != roots[0]:
        probs.append(f"root_id={ttn.root_id} but parentless node is {roots[0]}")
    if set(nodes.keys()) != set(ttn.tensors.keys()):
        probs.append(f"node keys {sorted(nodes)} != tensor keys {sorted(ttn.tensors.keys())}")
        return probs
    for nid, n in nodes.items():
        if n.identifier != nid:
            probs.append(f"node stored under {nid} has identifier {n.identifier}")
        if n.parent is not None:
            if n.parent not in nodes:
                probs.append(f"{nid}: parent {n.parent} missing")
            elif nid not in nodes[n.parent].children:
                probs.append(f"{nid}: not among children of its parent {n.parent}")
        if len(set(n.children)) != len(n.children):
            probs.append(f"{nid}: duplicate children {n.children}")
        for c in n.children:
            if c not in nodes:
                probs.append(f"{nid}: child {c} missing")
            elif nodes[c].parent != nid:
                probs.append(f"{nid}: child {c} has parent {nodes[c].parent}")
    if probs:
        return probs
    # connectivity: every node reaches the root
    for nid in nodes:
        seen, cur = set(), nid
        while cur is not None and cur not in seen:
            seen.add(cur)
            cur = nodes[cur].parent
        if cur is not None:
            probs.append(f"cycle through {nid}")
    for nid, n in nodes.items():
        t = ttn.tensors[nid]
        if tuple(n.shape) != tuple(t.shape):
            probs.append(f"{nid}: node.shape {n.shape} != tensor.shape {t.shape}")
        nvirt = (0 if n.parent is None else 1) + len(n.children)
        if t.ndim < nvirt:
            probs.append(f"{nid}: tensor has {t.ndim} legs < {nvirt} neighbours")
    if probs:
        return probs
    for nid, n in nodes.items():
        if n.parent is not None:
            p = nodes[n.parent]
            dim_c = ttn.tensors[nid].shape[0]
            pos = (0 if p.parent is None else 1) + p.children.index(nid)
            dim_p = ttn.tensors[n.parent].shape[pos]
            if dim_c != dim_p:
                probs.append(f"bond {n.parent}-{nid}: dims {dim_p} vs {dim_c}")
    return probs


def is_isometry(mat: np.ndarray, tol: float = 1e-9) -> bool:
    g = mat.conj().T @ mat
    return np.allclose(g, np.eye(g.shape[0]), rtol=0.0, atol=tol)


def is_partial_isometry(mat: np.ndarray, tol: float = 1e-9) -> bool:
    """M^H M is an orthogonal projector."""
    g = mat.conj().T @ mat
    return np.allclose(g @ g, g, rtol=0.0, atol=tol) and np.allclose(g, g.conj().T, rtol=0.0, atol=tol)


def matricize_toward(ttn, nid: str, toward: str) -> np.ndarray:
    """Matrix of node `nid` with the leg to neighbour `toward` as columns, all others as rows."""
    node = ttn.nodes[nid]
    t = ttn.tensors[nid]
    if node.parent == toward:
        k = 0
    else:
        k = (0 if node.parent is None else 1) + node.children.index(toward)
    t = np.moveaxis(t, k, -1)
    return t.reshape(-1, t.shape[-1])


def path_between(ttn, a: str, b: str) -> List[str]:
    """BFS path on the adjacency read from parent/children."""
    nodes = ttn.nodes
    adj = {i: ([n.parent] if n.parent is not None else []) + list(n.children) for i, n in nodes.items()}
    prev = {a: None}
    queue = [a]
    while queue:
        x = queue.pop(0)
        if x == b:
            break
        for y in adj[x]:
            if y not in prev:
                prev[y] = x
                queue.append(y)
    path = [b]
    while prev[path[-1]] is not None:
        path.append(prev[path[-1]])
    return path[::-1]
