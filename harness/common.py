"""Shared machinery of the PyTreeNet verification harness.

Stages of a check (DESIGN.md section 4):
  A  proof          lake build of the property's theorem module, source scan, axiom audit
  B  correspondence Lean model (line protocol) vs the implementation in /repo
  C  oracle         independent property predicate on the implementation's outputs

This module holds: paths, the proof stage, the Lean driver client, the run context
(counters, failure collection), known-findings handling, evidence and replay writers.
"""
from __future__ import annotations

import json
import os
import random
import re
import shutil
import subprocess
import sys
import tempfile
import time
from collections import Counter
from typing import Any, Callable, Dict, Iterable, List, Optional

VERIF = os.path.dirname(os.path.dirname(os.path.abspath(__file__)))
LEAN_DIR = os.path.join(VERIF, "lean")
REPO = os.environ.get("VERIF_REPO", "/repo")
EVIDENCE_DIR = os.environ.get("VERIF_EVIDENCE_DIR") or os.path.join(VERIF, "evidence")
REPLAY_DIR = os.path.join(VERIF, "replays")
OBLIG_DIR = os.path.join(VERIF, "obligations")
CORPUS_DIR = os.path.join(VERIF, "corpus")
KNOWN_FINDINGS = os.path.join(VERIF, "known_findings.json")
ALLOWED_AXIOMS = {"propext", "Classical.choice", "Quot.sound"}
FORBIDDEN = re.compile(
    r"\bsorry\b|\badmit\b|^\s*axiom\s|\bnative_decide\b|\bbv_decide\b|"
    r"\bimplemented_by\b|\bunsafe\s|maxHeartbeats\s+0\b", re.M)

TRUSTED_BASE = [
    "Lean 4.33.0 kernel (leanchecker re-check in the thorough tier)",
    "axioms allowed: propext, Classical.choice, Quot.sound (audited by #print axioms on every run)",
    "hand-written Lean models under lean/Ptn/Cxx/Model.lean, tied to /repo only by the correspondence stage",
    "correspondence harness and dense oracles under harness/ (NumPy einsum/tensordot/kron on small dense arrays)",
    "contracts of numpy.linalg.qr/svd, scipy expm/expm_multiply/solve_ivp, copy.deepcopy as explicit hypotheses",
    "floating point is not modelled; value-level comparisons are exact on integer/dyadic inputs, tolerance-based otherwise",
    "value-level network semantics lean/Ptn/Common/EinsumModel.lean (sumPairs / netValue / Expr.eval): that numpy.tensordot / "
    "transpose realise it is validated on every run (C04 streams ein / einrec, integer value cases of C02/C03/C04/C08), not proved",
]


# --------------------------------------------------------------------------- anchored sources

def _anchor_table() -> Dict[str, List[str]]:
    tab = {}
    for line in open(os.path.join(VERIF, "properties.jsonl")):
        if line.strip():
            p = json.loads(line)
            tab[p["id"]] = list(p.get("anchors", {}).get("files", []))
    return tab


def all_anchor_files() -> List[str]:
    return sorted({f for fs in _anchor_table().values() for f in fs})


def _norm_hash(path: str) -> str:
    """sha256 of the AST dump without docstrings: comments, blank lines and formatting do not count"""
    import ast
    import hashlib
    try:
        tree = ast.parse(open(path).read())
    except (OSError, SyntaxError) as e:
        return f"unreadable:{type(e).__name__}"
    for node in ast.walk(tree):
        body = getattr(node, "body", None)
        if isinstance(body, list) and body and isinstance(body[0], ast.Expr) and \
                isinstance(getattr(body[0], "value", None), ast.Constant) and isinstance(body[0].value.value, str):
            node.body = body[1:] or [ast.Pass()]
    return hashlib.sha256(ast.dump(tree).encode()).hexdigest()


def anchor_hashes(files: List[str]) -> Dict[str, str]:
    return {f: _norm_hash(os.path.join(REPO, f)) for f in files}


def anchor_drift(pid: str) -> List[str]:
    """Anchored source files of the property whose normalised AST differs from the baseline the models were written
    against (anchors_baseline.json, tools/gen_anchors.py).  Not a violation by itself: it enlarges the search."""
    path = os.path.join(VERIF, "anchors_baseline.json")
    if not os.path.exists(path):
        return []
    base = json.load(open(path))
    files = _anchor_table().get(pid, [])
    cur = anchor_hashes(files)
    return sorted(f for f in files if base.get(f) != cur[f])


# --------------------------------------------------------------------------- utils

def strip_lean_comments(src: str) -> str:
    """Remove `--` line comments and (nested) `/- -/` block comments."""
    out = []
    i, n, depth = 0, len(src), 0
    while i < n:
        if src.startswith("/-", i):
            depth += 1
            i += 2
        elif depth and src.startswith("-/", i):
            depth -= 1
            i += 2
        elif depth:
            if src[i] == "\n":
                out.append("\n")
            i += 1
        elif src.startswith("--", i):
            while i < n and src[i] != "\n":
                i += 1
        else:
            out.append(src[i])
            i += 1
    return "".join(out)


def lean_sources_for(pid: str) -> List[str]:
    """All project Lean sources a property's theorems depend on: the transitive `import Ptn.…`
    closure of Ptn/<pid>/Props.lean plus the property's own directory."""
    seen: Dict[str, bool] = {}
    stack = [f"Ptn.{pid}.Props"]
    d = os.path.join(LEAN_DIR, "Ptn", pid)
    if os.path.isdir(d):
        for f in sorted(os.listdir(d)):
            if f.endswith(".lean"):
                stack.append(f"Ptn.{pid}.{f[:-5]}")
    while stack:
        mod = stack.pop()
        if mod in seen:
            continue
        path = os.path.join(LEAN_DIR, *mod.split(".")) + ".lean"
        if not os.path.exists(path):
            continue
        seen[mod] = True
        for line in open(path):
            m = re.match(r"\s*(?:public\s+)?import\s+(Ptn\.[A-Za-z0-9_.]+)", line)
            if m:
                stack.append(m.group(1))
    return [os.path.join(LEAN_DIR, *m.split(".")) + ".lean" for m in sorted(seen)]


def read_obligations(pid: str) -> List[str]:
    path = os.path.join(OBLIG_DIR, f"{pid}.txt")
    if not os.path.exists(path):
        return []
    names = []
    for line in open(path):
        line = line.split("#")[0].strip()
        if line:
            names.append(line)
    return names


def run_cmd(cmd: List[str], cwd: Optional[str] = None, timeout: int = 3600,
            input_text: Optional[str] = None) -> subprocess.CompletedProcess:
    return subprocess.run(cmd, cwd=cwd, input=input_text, capture_output=True,
                          text=True, timeout=timeout)


# --------------------------------------------------------------------------- stage A

class ProofResult:
    def __init__(self):
        self.obligations: List[str] = []
        self.discharged: List[str] = []
        self.problems: List[str] = []     # human-readable; names the theorem that no longer checks
        self.axioms: Dict[str, List[str]] = {}
        self.checker_cmd = ""
        self.leanchecker: Optional[str] = None

    @property
    def ok(self) -> bool:
        return not self.problems and len(self.discharged) == len(self.obligations)


def proof_stage(pid: str, tier: str) -> ProofResult:
    res = ProofResult()
    res.obligations = read_obligations(pid)
    mod = f"Ptn.{pid}.Props"
    res.checker_cmd = (f"cd lean && lake build {mod} ptnmodel && "
                       f"lake env lean <generated `import {mod}` + `#print axioms` per obligation>"
                       + (f" && lake env leanchecker {mod}" if tier == "thorough" else ""))
    # 1. build
    p = run_cmd(["lake", "build", mod, "ptnmodel"], cwd=LEAN_DIR)
    if p.returncode != 0:
        tail = (p.stdout + p.stderr)[-3000:]
        res.problems.append(f"lake build {mod} failed:\n{tail}")
        return res
    # 2. source scan
    for path in lean_sources_for(pid):
        src = strip_lean_comments(open(path).read())
        m = FORBIDDEN.search(src)
        if m:
            res.problems.append(f"forbidden token {m.group(0).strip()!r} in {os.path.relpath(path, VERIF)}")
    # 3. axiom audit
    if res.obligations:
        tmpd = tempfile.mkdtemp(prefix="ptn_audit_")
        try:
            audit = os.path.join(tmpd, "Audit.lean")
            with open(audit, "w") as f:
                f.write(f"import {mod}\n")
                for name in res.obligations:
                    f.write(f"#print axioms {name}\n")
            p = run_cmd(["lake", "env", "lean", audit], cwd=LEAN_DIR)
            out = p.stdout + p.stderr
            found: Dict[str, List[str]] = {}
            for m in re.finditer(r"'([^']+)' depends on axioms: \[([^\]]*)\]", out, re.S):
                found[m.group(1)] = [a.strip() for a in m.group(2).replace("\n", " ").split(",") if a.strip()]
            for m in re.finditer(r"'([^']+)' does not depend on any axioms", out):
                found[m.group(1)] = []
            for name in res.obligations:
                short_hits = [k for k in found if k == name or k.endswith("." + name) or name.endswith("." + k)]
                if not short_hits:
                    res.problems.append(f"obligation {name}: theorem not found / did not elaborate "
                                        f"({_first_error(out, name)})")
                    continue
                ax = found[short_hits[0]]
                res.axioms[name] = ax
                bad = [a for a in ax if a not in ALLOWED_AXIOMS]
                if bad:
                    res.problems.append(f"obligation {name}: disallowed axioms {bad}")
                else:
                    res.discharged.append(name)
        finally:
            shutil.rmtree(tmpd, ignore_errors=True)
    # 4. independent re-check (thorough only)
    if tier == "thorough" and not res.problems:
        try:
            p = run_cmd(["lake", "env", "leanchecker", mod], cwd=LEAN_DIR, timeout=1800)
            res.leanchecker = "ok" if p.returncode == 0 else "failed"
            if p.returncode != 0:
                res.problems.append("leanchecker rejected " + mod + ": " + (p.stdout + p.stderr)[-1500:])
        except subprocess.TimeoutExpired:
            res.leanchecker = "timeout (not counted)"
    return res


def _first_error(out: str, name: str) -> str:
    for line in out.splitlines():
        if "error" in line and (name in line or "unknown" in line.lower()):
            return line.strip()[:300]
    return "no #print axioms output"


# --------------------------------------------------------------------------- Lean driver

class LeanDriver:
    """Batch client of the line-protocol model driver."""

    def __init__(self):
        exe = os.path.join(LEAN_DIR, ".lake", "build", "bin", "ptnmodel")
        if os.path.exists(exe):
            self.cmd = [exe]
        else:
            self.cmd = ["lake", "env", "lean", "--run", "Main.lean"]
        self.lines_sent = 0

    def batch(self, lines: List[str], timeout: int = 3600) -> List[str]:
        if not lines:
            return []
        for ln in lines:
            if "\n" in ln:
                raise ValueError("newline inside protocol line")
        p = subprocess.run(self.cmd, cwd=LEAN_DIR, input="\n".join(lines) + "\n",
                           capture_output=True, text=True, timeout=timeout)
        out = p.stdout.split("\n")
        if out and out[-1] == "":
            out.pop()
        if p.returncode != 0 or len(out) != len(lines):
            raise RuntimeError(f"model driver failed rc={p.returncode} got {len(out)} lines for "
                               f"{len(lines)} requests; stderr: {p.stderr[-2000:]}")
        self.lines_sent += len(lines)
        return out


# --------------------------------------------------------------------------- context

class HarnessError(Exception):
    """Internal problem of the harness (exit 2, never a VIOLATION)."""


class Ctx:
    def __init__(self, pid: str, tier: str, seed: int):
        self.pid = pid
        self.tier = tier
        self.seed = seed
        self.rng = random.Random((hash_str(pid) * 1000003 + seed) & 0xFFFFFFFF)
        self.scale = 1            # enlarged to 10 when stage A or B broke
        self.lean = LeanDriver()
        self.evaluations = 0
        self.corr_cases = 0       # traces validated against the implementation
        self.nontrivial_keys = set()
        self.hist: Dict[str, Counter] = {}
        self.samples: List[Any] = []
        self.failures: List[Dict[str, Any]] = []
        self.hyp_validated = 0
        self.boundary_skipped = 0
        self.partial: List[str] = []
        self.assumptions: List[str] = []
        self.notes: Dict[str, Any] = {}
        self.exhaustive = False
        self.rule = ""
        self.t0 = time.time()
        self.deadline: Optional[float] = None

    # budget helpers
    def n(self, quick: int, thorough: int) -> int:
        base = quick if self.tier == "quick" else thorough
        return base * self.scale

    def subrng(self, tag: str) -> random.Random:
        return random.Random((hash_str(self.pid + tag) * 1000003 + self.seed) & 0xFFFFFFFF)

    def np_rng(self, tag: str = ""):
        import numpy as np
        return np.random.default_rng((hash_str(self.pid + tag) * 1000003 + self.seed) & 0xFFFFFFFF)

    def time_left(self) -> float:
        return float("inf") if self.deadline is None else self.deadline - time.time()

    # bookkeeping
    def count(self, key: Any = None, nontrivial: bool = True, corr: bool = False):
        self.evaluations += 1
        if corr:
            self.corr_cases += 1
        if nontrivial and key is not None:
            self.nontrivial_keys.add(key if isinstance(key, (str, int, tuple)) else json.dumps(key, sort_keys=True, default=str))

    def tally(self, histogram: str, key: Any):
        self.hist.setdefault(histogram, Counter())[str(key)] += 1

    def sample(self, case: Any, limit: int = 4):
        if len(self.samples) < limit:
            self.samples.append(case)

    def fail(self, kind: str, case: Any, detail: str, finding: Optional[str] = None):
        """kind: 'oracle' (property fails on the implementation) or 'corr' (model != implementation)."""
        assert kind in ("oracle", "corr")
        self.failures.append({"kind": kind, "case": case, "detail": detail, "finding": finding})

    def oracle_fail(self, case, detail, finding=None):
        self.fail("oracle", case, detail, finding)

    def corr_fail(self, case, detail):
        self.fail("corr", case, detail, None)


def hash_str(s: str) -> int:
    h = 2166136261
    for ch in s.encode():
        h = ((h ^ ch) * 16777619) & 0xFFFFFFFF
    return h


# --------------------------------------------------------------------------- known findings

def load_known_findings(pid: str) -> Dict[str, Dict[str, Any]]:
    if not os.path.exists(KNOWN_FINDINGS):
        return {}
    data = json.load(open(KNOWN_FINDINGS))
    return {e["id"]: e for e in data.get("findings", []) if e.get("property") == pid}


# --------------------------------------------------------------------------- output

def jsonable(x: Any) -> Any:
    import numpy as np
    from fractions import Fraction
    if isinstance(x, dict):
        return {str(k): jsonable(v) for k, v in x.items()}
    if isinstance(x, (list, tuple, set, frozenset)):
        return [jsonable(v) for v in x]
    if isinstance(x, np.ndarray):
        if np.iscomplexobj(x):
            return {"__ndarray__": True, "shape": list(x.shape),
                    "re": x.real.ravel().tolist(), "im": x.imag.ravel().tolist()}
        return {"__ndarray__": True, "shape": list(x.shape), "re": x.ravel().tolist()}
    if isinstance(x, (np.integer,)):
        return int(x)
    if isinstance(x, (np.floating,)):
        return float(x)
    if isinstance(x, complex):
        return {"__complex__": [x.real, x.imag]}
    if isinstance(x, Fraction):
        return {"__fraction__": [x.numerator, x.denominator]}
    if isinstance(x, (str, int, float, bool)) or x is None:
        return x
    return repr(x)


def unjson(x: Any) -> Any:
    import numpy as np
    from fractions import Fraction
    if isinstance(x, dict):
        if x.get("__ndarray__"):
            a = np.array(x["re"], dtype=float)
            if "im" in x:
                a = a + 1j * np.array(x["im"], dtype=float)
            return a.reshape(x["shape"])
        if "__complex__" in x:
            return complex(*x["__complex__"])
        if "__fraction__" in x:
            return Fraction(*x["__fraction__"])
        return {k: unjson(v) for k, v in x.items()}
    if isinstance(x, list):
        return [unjson(v) for v in x]
    return x


def write_replay(pid: str, seed: int, idx: int, payload: Dict[str, Any]) -> str:
    os.makedirs(REPLAY_DIR, exist_ok=True)
    path = os.path.join(REPLAY_DIR, f"{pid}-{seed}-{idx}.json")
    with open(path, "w") as f:
        json.dump(jsonable(payload), f, indent=1)
    return os.path.relpath(path, VERIF)


def write_evidence(ctx: Ctx, proof: ProofResult, violations: int, known_hits: List[str]):
    os.makedirs(EVIDENCE_DIR, exist_ok=True)
    cov: Dict[str, Any] = {
        "obligations": len(proof.obligations),
        "discharged": len(proof.discharged),
        "checker_cmd": proof.checker_cmd,
        "trusted_base": TRUSTED_BASE,
        "theorems": proof.obligations,
        "axioms_per_theorem": proof.axioms,
        "proof_stage_problems": proof.problems,
        "leanchecker": proof.leanchecker,
        "evaluations": ctx.evaluations,
        "distinct_nontrivial": len(ctx.nontrivial_keys),
        "rule": ctx.rule,
        "samples": jsonable(ctx.samples) or ["(no case generated)"],
        "traces_validated_against_impl": ctx.corr_cases,
        "model_lines_evaluated": ctx.lean.lines_sent,
        "hypotheses_validated": ctx.hyp_validated,
        "boundary_skipped": ctx.boundary_skipped,
        "partial": ctx.partial,
        "histograms": {k: dict(v.most_common(40)) for k, v in ctx.hist.items()},
        "known_findings_reproduced": known_hits,
        "search_scale": ctx.scale,
        "exhaustive": ctx.exhaustive,
    }
    cov.update(jsonable(ctx.notes))
    ev = {
        "property_id": ctx.pid,
        "tier": ctx.tier,
        "seed": ctx.seed,
        "level": "proof",
        "coverage": cov,
        "assumptions": ctx.assumptions,
        "wall_s": round(time.time() - ctx.t0, 2),
        "violations": violations,
    }
    with open(os.path.join(EVIDENCE_DIR, f"{ctx.pid}.json"), "w") as f:
        json.dump(ev, f, indent=1)
