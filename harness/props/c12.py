"""C12 - symbolic-Gaussian-elimination TTNOs have minimal bond dimensions.

Stage C (oracle): for Hamiltonians with pairwise distinct label assignments and generic values (random complex
matrix per label, independent random complex value per symbol, dimension-1 sites carry the identity only, at most
d^2 - 1 non-identity labels per site of dimension d) the bond dimension of the SGE TTNO on every tree edge equals
the numerical operator Schmidt rank of the dense Hamiltonian across that edge; a single-term Hamiltonian gives
bond 1 on every edge.
Stage B (correspondence with Lean model Ptn.C12, which re-uses the state-diagram model of Ptn.C01): number of
vertices per edge of the single-term diagram (always 1 - theorem `single_term_bond_one`) and of the uncompressed
sum (= number of terms) against `bond_dims()` of the library's BASE TTNO.
"""
from __future__ import annotations

import json
import os
import random
from fractions import Fraction
from typing import Any, Dict, List, Optional, Tuple

import numpy as np

from harness import gen, dense, common
from harness.props import c01

RULE = ("cases: random trees (1..6 nodes quick, ..8 thorough; random child order; open dimensions from {none,1,2,3}) "
        "x random Hamiltonians with pairwise distinct label assignments (1..8 terms, supports 1..N, unit / Fraction / "
        "symbolic coefficients, distinct symbols independent), generic numeric values; plus an adversarial "
        "stream: coefficient matrices L*R of prescribed low rank across a chosen edge, optionally scaled "
        "per row / per column by symbols, and a planted stream (2..4 nodes, per-entry symbols, tied rows/columns, rank "
        "exposed only by one specific rational row or column operation); method SGE (bond vs numerical "
        "Schmidt rank on every edge) and BASE (vertex counts vs Lean model).  non-trivial = >= 2 terms, >= 2 nodes "
        "and some edge whose Schmidt rank is smaller than the number of terms; plus stream numgauss: random rational "
        "matrices <= 6x6 (products of prescribed rank, sparse, dense, dependent row, zeroed lines, permuted) given to "
        "gaussian_elimination directly: triple = Lean model of C13, exact, bond = rank over Q (own fraction "
        "elimination), diagonal pattern when there is no zero line; non-trivial = >= 2x2 with 0 < rank < min(m, n)")
PARTIAL = [
    "bond(SGE) <= operator Schmidt rank for every distinct-term Hamiltonian is the research claim of the method "
    "(combine_subtrees, Gamma matrix, symbolic elimination, vertex cover); it is not proved and false of the code in two "
    "recorded ways (F-C12c: single-cut limitation with symbolic ratios; F-C12a: sequence effect); it is decided per "
    "input by the numerical Schmidt rank of the dense Hamiltonian with generic values",
    "proved around it: bond_eq_cover (the bond created at a cut = |Cu|+|Cv| of the chosen cover, bilinear routing), "
    "cover_ge_rank (a cover of the support of a matrix is at least its rank), bond_ge_schmidt_rank (no exact "
    "factorisation through r indices represents an operator of Schmidt rank > r), single_term_bond_one / "
    "single_term_ttno_bond_one (a single-term Hamiltonian gives bond 1 on every edge, as vertex count and as tensor "
    "shape of the from_state_diagram model) and ttno_bonds_eq_vertex_counts; the identification of a TTNO's edge "
    "cut with such a factorisation and the optimality of the elimination + minimum cover (rank reached) are not proved",
    "genericity is sampled (random complex values), not symbolic",
    "numeric (symbol-free) Gamma: PROVED for all sizes (builders B22, B31) - rank M' = rank Gamma for every rational "
    "rectangular Gamma (sge_numeric_rank_eq_reduced: the rank is an invariant of every primitive of the run); if Gamma "
    "has no zero row/column then M' has none (sge_numeric_no_zero_lines), is square and diagonal of size rank Gamma "
    "(sge_numeric_fully_reduced), and the C14 model of minimum_vertex_cover on supp M' returns exactly rank Gamma "
    "vertices (sge_numeric_bond_eq_rank), also after the keep-the-better comparison with the cover of supp Gamma "
    "(sge_numeric_bond_keep_better).  Not covered by a theorem: Gamma WITH a zero row/column ('M' is fully "
    "reduced' is false of the code there: sge_numeric_not_fully_reduced; 'minimum cover of supp M' = rank' holds in "
    "every sampled case, numgauss stream) and symbolic Gamma (F-C12a/c)",
]
ASSUMPTIONS = ["numerical rank threshold 1e-9 relative to the largest singular value; dense dimension <= 72 (quick) / 216",
               "the classification of F-C12c asks the Lean model of gaussian_elimination of property C13 through the "
               "driver (`C13 gauss`); if that answer cannot be parsed the failure is reported with finding None"]

RANK_TOL = 1e-9


# ------------------------------------------------------------------ generation

def gen_case(rng: random.Random, max_nodes: int, max_dim: int, single: bool = False) -> Dict[str, Any]:
    """A 'clean' C01 case (distinct padded assignments) made generic: no non-identity label on dimension-1 sites."""
    for _ in range(50):
        case = c01.gen_hamiltonian_case(rng, "clean", max_nodes, max_dim)
        pd = c01.site_dims(case)
        terms = []
        seen = set()
        for t in case["terms"]:
            ops = {k: v for k, v in t[3].items() if pd[int(k[1:])] > 1}
            if not ops:
                # the term acted on dimension-1 sites only: becomes the global identity term
                ops = {"n0": f"I{pd[0]}"}
            cand = [t[0], t[1], t[2], ops]
            a = c01.padded_assignment(case, cand)
            if a in seen:
                continue
            seen.add(a)
            terms.append(cand)
        if single:
            terms = terms[:1]
        if terms:
            case["terms"] = terms
            case["kind"] = "rank"
            return case
    raise common.HarnessError("could not generate a C12 case")


def gen_lowrank_case(rng: random.Random, max_nodes: int, max_dim: int) -> Dict[str, Any]:
    """Adversarial: choose an edge, m operator strings on one side, n on the other, a coefficient matrix
    Gamma = L*R of rank r < min(m, n) with small integers, optionally scaled by a common symbol or by one symbol per
    row / per column (the rank over the field of rational functions is unchanged).  Distinct assignments."""
    for _ in range(200):
        n = rng.randint(2, max_nodes)
        par = gen.random_parent_array(rng, n)
        order = gen.insertion_order(rng, par)
        dims = [rng.choice([2, 2, 3]) for _ in range(n)]
        while int(np.prod(dims)) > max_dim:
            i = rng.randrange(n)
            dims[i] = {3: 2, 2: 1, 1: 1}[dims[i]]
        case = {"kind": "rank", "stream": "lowrank", "par": par, "order": order, "dims": dims}
        pd = c01.site_dims(case)
        c = rng.randrange(1, n)
        A = subtree_nodes(par, c)
        B = [i for i in range(n) if i not in A]

        def assigns(S, k):
            out: List[Dict[str, str]] = []
            for _try in range(60):
                if len(out) == k:
                    break
                ops = {}
                for s_ in S:
                    if pd[s_] > 1 and rng.random() < 0.7:
                        ops[f"n{s_}"] = f"X{pd[s_]}_{rng.randrange(c01.LABELS_PER_DIM)}"
                if ops not in out:
                    out.append(ops)
            return out
        us, vs = assigns(A, rng.randint(2, 5)), assigns(B, rng.randint(2, 5))
        m, nn = len(us), len(vs)
        if m < 2 or nn < 2:
            continue
        r = rng.randint(1, min(m, nn))
        L = [[rng.choice([0, 1, 1, 2, -1, 3]) for _ in range(r)] for _ in range(m)]
        R = [[rng.choice([0, 1, 1, 2, -1, 3]) for _ in range(nn)] for _ in range(r)]
        G = [[sum(L[i][k] * R[k][j] for k in range(r)) for j in range(nn)] for i in range(m)]
        style = rng.choice(["rat", "common", "rows", "cols", "rows", "cols"])
        terms = []
        for i in range(m):
            for j in range(nn):
                if G[i][j] == 0:
                    continue
                ops = dict(us[i])
                ops.update(vs[j])
                if not ops:
                    ops = {"n0": f"I{pd[0]}"}
                sym = {"rat": "1", "common": "g0", "rows": f"g{i}", "cols": f"h{j}"}[style]
                terms.append([G[i][j], 1, sym, ops])
        if not terms:
            continue
        rng.shuffle(terms)
        case["terms"] = terms
        case["vseed"] = rng.randrange(10 ** 9)
        if c01.classify(case)["dup_assign"]:
            continue
        return case
    raise common.HarnessError("could not generate a low-rank C12 case")


def gen_planted_case(rng: random.Random, max_nodes: int = 4, max_dim: int = 72) -> Dict[str, Any]:
    """Structured symbolic low-rank Gamma across one edge of a 2..4-node tree, per-entry symbols.

    Start from a sparse reduced matrix whose rows are either *tied* (all entries of row i carry the symbol s_i) or
    *free* (arbitrary symbol per entry); then apply a few rational column operations col_j += q*col_j' that are
    only allowed when col_j' vanishes on the free rows (so every entry stays a single monomial).  The rank is then
    exposed only by undoing those column operations (zeros of the source column meet symbolic targets).  With
    probability 1/2 the transposed construction (row operations, tied columns) is used.  Example produced by this
    scheme: [[a, d, 0], [b, 0, b], [c, 0, c]] (rank 2, needs col_0 -= col_2)."""
    for _ in range(400):
        n = rng.choice([2, 2, 2, 3, 3, 4][: max(1, 2 * (max_nodes - 1))])
        par = gen.random_parent_array(rng, n)
        order = gen.insertion_order(rng, par)
        dims = [rng.choice([2, 3, 3]) for _ in range(n)]
        while int(np.prod(dims)) > max_dim:
            i = rng.randrange(n)
            dims[i] = {3: 2, 2: 1, 1: 1}[dims[i]]
        case = {"kind": "rank", "stream": "planted", "par": par, "order": order, "dims": dims}
        pd = c01.site_dims(case)
        c = rng.randrange(1, n)
        A = subtree_nodes(par, c)
        B = [i for i in range(n) if i not in A]

        def strings(S, k):
            out: List[Dict[str, str]] = []
            for _try in range(80):
                if len(out) == k:
                    break
                ops = {}
                for s_ in S:
                    if pd[s_] > 1 and rng.random() < 0.8:
                        ops[f"n{s_}"] = f"X{pd[s_]}_{rng.randrange(c01.LABELS_PER_DIM)}"
                if ops not in out:
                    out.append(ops)
            return out
        m, nn = rng.randint(2, 4), rng.randint(2, 4)
        us, vs = strings(A, m), strings(B, nn)
        m, nn = len(us), len(vs)
        if m < 2 or nn < 2:
            continue
        transposed = rng.random() < 0.5
        R_, C_ = (nn, m) if transposed else (m, nn)          # work on an R_ x C_ matrix, transpose at the end
        pool = ["a", "b", "c", "d", "e", "f", "1"]
        rowsym = {i: rng.choice(pool[:5]) for i in range(R_)}
        M: List[List[Any]] = [[None] * C_ for _ in range(R_)]
        if rng.random() < 0.7 and min(R_, C_) >= 2:
            # planted cover: a few covering rows (free symbols) and covering columns (tied rows), everything else 0
            total = rng.randint(1, min(R_, C_) - 1)
            n_cv = rng.randint(1, total)
            n_ru = min(total - n_cv, R_ - 1)
            free = set(rng.sample(range(R_), n_ru))
            cov_cols = rng.sample(range(C_), min(n_cv, C_))
            for i in free:
                for j in range(C_):
                    if j not in cov_cols and rng.random() < 0.8:
                        M[i][j] = (Fraction(rng.choice([1, 1, 2, -1, 3])), rng.choice(pool))
            for j in cov_cols:
                for i in range(R_):
                    if i not in free and rng.random() < 0.85:
                        M[i][j] = (Fraction(rng.choice([1, 1, 2, -1, 3])), rowsym[i])
            sources = cov_cols
        else:
            nfree = rng.choice([0, 1, 1, 2]) if R_ > 2 else rng.choice([0, 1])
            free = set(rng.sample(range(R_), min(nfree, R_ - 1)))
            for i in range(R_):
                for j in range(C_):
                    if rng.random() < 0.45:
                        q = Fraction(rng.choice([1, 1, 1, 2, -1, 3]))
                        M[i][j] = (q, rng.choice(pool) if i in free else rowsym[i])
            sources = list(range(C_))
        for _op in range(rng.choice([1, 1, 2, 3])):
            j2 = rng.choice(sources)
            j = rng.choice([x for x in range(C_) if x != j2])
            if any(M[i][j2] is not None for i in free):
                continue
            q = Fraction(rng.choice([1, 1, -1, 2]))
            for i in range(R_):
                if M[i][j2] is None:
                    continue
                if M[i][j] is not None and M[i][j][1] != rowsym[i]:
                    break                       # would need a sum of two symbols in one entry
                cur = M[i][j][0] if M[i][j] is not None else Fraction(0)
                new = cur + q * M[i][j2][0]
                M[i][j] = (new, rowsym[i]) if new != 0 else None
        if transposed:
            M = [list(r) for r in zip(*M)]
        terms = []
        for i in range(m):
            for j in range(nn):
                if M[i][j] is None:
                    continue
                ops = dict(us[i])
                ops.update(vs[j])
                if not ops:
                    ops = {"n0": f"I{pd[0]}"}
                q, sym = M[i][j]
                terms.append([q.numerator, q.denominator, sym, ops])
        if len(terms) < 2:
            continue
        rng.shuffle(terms)
        case["terms"] = terms
        case["vseed"] = rng.randrange(10 ** 9)
        if c01.classify(case)["dup_assign"]:
            continue
        return case
    raise common.HarnessError("could not generate a planted C12 case")


# ------------------------------------------------------------------ structure of the recorded defect F-C12a

def exact_matrix(case, c: int) -> List[List[Optional[Tuple[Fraction, str]]]]:
    """Exact coefficient matrix of the Hamiltonian across the edge above node c: rows = distinct label tuples on the
    subtree of c, columns = distinct label tuples on the other nodes, entry = (Fraction, symbol) of the unique term
    with that pair (assignments are pairwise distinct), None if there is none."""
    n = len(case["par"])
    A = subtree_nodes(case["par"], c)
    B = [i for i in range(n) if i not in A]
    rows: List[Any] = []
    cols: List[Any] = []
    ent: Dict[Any, Any] = {}
    for t in case["terms"]:
        a = c01.padded_assignment(case, t)
        ra, cb = tuple(a[i] for i in A), tuple(a[i] for i in B)
        if ra not in rows:
            rows.append(ra)
        if cb not in cols:
            cols.append(cb)
        ent[(rows.index(ra), cols.index(cb))] = (Fraction(t[0], t[1]), t[2])
    return [[ent.get((i, j)) for j in range(len(cols))] for i in range(len(rows))]


def symbol_proportional_pairs(M) -> List[Tuple[int, int]]:
    """Pairs of rows that are proportional over the rational functions with a NON-constant ratio: same support, one
    rational ratio q and one pair of different symbols (s, s') such that row_i = q*(s/s')*row_k entry by entry."""
    pairs = []
    for i in range(len(M)):
        for k in range(i + 1, len(M)):
            si = [j for j, x in enumerate(M[i]) if x is not None]
            sk = [j for j, x in enumerate(M[k]) if x is not None]
            if si != sk or not si:
                continue
            syms = {(M[i][j][1], M[k][j][1]) for j in si}
            ratios = {M[i][j][0] / M[k][j][0] for j in si}
            if len(syms) == 1 and len(ratios) == 1:
                s1, s2 = next(iter(syms))
                if s1 != s2:
                    pairs.append((i, k))
    return pairs


def earlier_cut(case, p: int, c: int) -> bool:
    """Another cut has already rewritten the hyperedges of the parent p when the edge (p, c) is cut (BFS order of
    from_hamiltonian_modified): p is not the root, or c is not the first child of p in reference order."""
    if case["par"][p] >= 0:
        return True
    kids = [x for x in case["order"] if case["par"][x] == p]
    return bool(kids) and kids[0] != c


def max_matching(support: List[Tuple[int, int]], nrows: int) -> int:
    """Size of a maximum matching of a bipartite graph (= size of a minimum vertex cover, Koenig)."""
    adj: Dict[int, List[int]] = {i: [] for i in range(nrows)}
    for i, j in support:
        adj[i].append(j)
    match: Dict[int, int] = {}

    def aug(i, seen):
        for j in adj[i]:
            if j in seen:
                continue
            seen.add(j)
            if j not in match or aug(match[j], seen):
                match[j] = i
                return True
        return False
    return sum(1 for i in range(nrows) if aug(i, set()))


def model_direct_bond(lean, M) -> Optional[int]:
    """Bond the RECORDED algorithm creates when it cuts a matrix M directly: the Lean model of
    `gaussian_elimination` (driver of property C13) reduces M to M'; the bond is the smaller of the minimum vertex
    covers of supp M' and supp M (keep-the-better rule).  None if the model cannot be asked."""
    syms = sorted({x[1] for r in M for x in r if x is not None and x[1] != "1"})
    sid = {sname: k + 1 for k, sname in enumerate(syms)}

    def tok(x):
        if x is None:
            return "n:0/1"
        q, sname = x
        if sname == "1":
            return f"n:{q.numerator}/{q.denominator}"
        return f"s:{q.numerator}/{q.denominator}:{sid[sname]}"
    rows, cols = len(M), len(M[0])
    try:
        out = lean.batch([f"C13 gauss {rows} {cols} " + " ".join(tok(x) for r in M for x in r)])[0]
        parts = out.split("|")
        head = parts[0].split()
        if head[0] != "ok":
            return None
        p_, q_ = int(head[2]), int(head[3])
        ent = parts[2].split()
        if len(ent) != p_ * q_:
            return None
        supp_red = []
        for k, e in enumerate(ent):
            f = e.split(":")
            num = int(f[1].split("/")[0])
            if num != 0:
                supp_red.append((k // q_, k % q_))
    except Exception:       # noqa: BLE001
        return None
    supp_raw = [(i, j) for i in range(rows) for j in range(cols) if M[i][j] is not None]
    return min(max_matching(supp_red, p_), max_matching(supp_raw, rows))


def classify_edge(lean, case, item) -> Optional[str]:
    """Recorded defect an edge with bond > Schmidt rank belongs to, or None.  Preconditions checked by the caller:
    method SGE, TTNO exact and well-formed, pairwise distinct assignments, non-zero prefactors.

    F-C12c  the edge is the FIRST cut of the construction (root - first child in reference order, so the Gamma matrix
            of that cut is exactly the coefficient matrix of the Hamiltonian across the edge) and the bond equals
            the bond the RECORDED algorithm yields on that matrix (Lean model of gaussian_elimination, property C13,
            + minimum vertex cover of supp M' and supp M): the elimination uses rational multipliers and one monomial
            per entry only, so a dependency with symbolic coefficients stays invisible.  A bond different from the
            model's (e.g. a regression inside the elimination) is NOT this defect.
    F-C12a  >= 3 nodes, the edge is cut after another cut has rewritten the hyperedges of its parent (parent is not
            the root, or the child is not the root's first child) and the exact coefficient matrix across the edge
            itself carries at least two different symbols (counting "1").  (A pair of rows/columns proportional with a
            symbol ratio is present in 50 of 57 recorded hits but not in all: the dependency can be a symbol multiple
            of a rational combination of several rows, e.g. [[-1,0,1,1],[2g,g,-2g,-2g],[0,1,0,0]].)"""
    (pid, cid), bond, rank = item
    p, c = int(pid[1:]), int(cid[1:])
    if len({t[2] for t in case["terms"]}) < 2:
        return None
    M = exact_matrix(case, c)
    if not earlier_cut(case, p, c):
        bm = model_direct_bond(lean, M)
        return "F-C12c" if (bm is not None and bm == bond) else None
    if len(case["par"]) < 3:
        return None
    local_syms = {x[1] for row in M for x in row if x is not None}
    return "F-C12a" if len(local_syms) >= 2 else None


def subtree_nodes(par: List[int], c: int) -> List[int]:
    n = len(par)
    inside = {c}
    changed = True
    while changed:
        changed = False
        for i in range(n):
            if i not in inside and par[i] in inside:
                inside.add(i)
                changed = True
    return sorted(inside)


def schmidt_ranks(case, M: np.ndarray, order: List[str], dims: List[int]) -> Dict[Tuple[str, str], Tuple[int, float]]:
    """edge (parent, child) -> (numerical operator Schmidt rank, 1.0 if the decision is unsafe else 0.0)."""
    n = len(order)
    par = case["par"]
    T = M.reshape(list(dims) + list(dims))
    out = {}
    for c in range(n):
        p = par[c]
        if p < 0:
            continue
        A = [order.index(f"n{i}") for i in subtree_nodes(par, c)]
        B = [k for k in range(n) if k not in A]
        perm = A + [n + k for k in A] + B + [n + k for k in B]
        dA = int(np.prod([dims[k] for k in A])) ** 2
        mat = T.transpose(perm).reshape(dA, -1)
        s = np.linalg.svd(mat, compute_uv=False)
        if s.size == 0 or s[0] == 0:
            out[(f"n{p}", f"n{c}")] = (0, 0.0)
            continue
        rel = s / s[0]
        r = int(np.sum(rel > RANK_TOL))
        # a singular value in the no-man's-land between round-off and the threshold makes the decision unsafe
        ambiguous = bool(np.any((rel > 1e-13) & (rel < 1e-6)))
        out[(f"n{p}", f"n{c}")] = (r, 1.0 if ambiguous else 0.0)
    return out


# ------------------------------------------------------------------ run

# ------------------------------------------------------------------ numeric coefficient matrices (no symbols)
# For a purely rational Gamma symbolic Gaussian elimination is ordinary Gaussian elimination.  Theorems behind this
# stream (lean/Ptn/C12/Props.lean): `cover_of_fully_reduced`, `rank_of_fully_reduced`,
# `sge_numeric_rank_le_reduced`, `sge_numeric_fully_reduced_partial`, `sge_numeric_not_fully_reduced` (the pattern claim is FALSE when Gamma has a zero
# row or column - which the construction never produces: every U / V node of a cut carries an edge).

def frac_rank(M) -> int:
    """Rank over Q by the harness' own fraction Gauss-Jordan elimination (independent of the library)."""
    A = [[Fraction(x) for x in row] for row in M]
    m = len(A)
    n = len(A[0]) if A else 0
    r = 0
    for c in range(n):
        piv = next((i for i in range(r, m) if A[i][c] != 0), None)
        if piv is None:
            continue
        A[r], A[piv] = A[piv], A[r]
        for i in range(m):
            if i != r and A[i][c] != 0:
                f = A[i][c] / A[r][c]
                A[i] = [a - f * b for a, b in zip(A[i], A[r])]
        r += 1
    return r


def has_zero_line(M) -> bool:
    return any(all(x == 0 for x in row) for row in M) or any(all(row[j] == 0 for row in M) for j in range(len(M[0])))


def gen_numeric_case(rng: random.Random) -> Dict[str, Any]:
    m, n = rng.randint(1, 6), rng.randint(1, 6)
    mode = rng.choice(["lowrank", "lowrank", "lowrank", "sparse", "dense", "zero-lines", "dependent-row"])

    def small():
        return Fraction(rng.choice([-3, -2, -1, 1, 2, 3]), rng.choice([1, 1, 1, 2, 3]))
    if mode in ("lowrank", "zero-lines"):
        r = rng.randint(0 if mode == "zero-lines" else 1, min(m, n))
        dens = rng.choice([0.5, 0.8, 1.0])
        Lm = [[small() if rng.random() < dens else Fraction(0) for _ in range(r)] for _ in range(m)]
        Rm = [[small() if rng.random() < dens else Fraction(0) for _ in range(n)] for _ in range(r)]
        M = [[sum((Lm[i][k] * Rm[k][j] for k in range(r)), Fraction(0)) for j in range(n)] for i in range(m)]
    else:
        dens = {"sparse": rng.choice([0.25, 0.4]), "dense": 1.0, "dependent-row": rng.choice([0.5, 0.9])}[mode]
        M = [[small() if rng.random() < dens else Fraction(0) for _ in range(n)] for _ in range(m)]
        if mode == "dependent-row" and m >= 3:
            i, j, k = rng.sample(range(m), 3)
            a, b = small(), small()
            M[i] = [a * x + b * y for x, y in zip(M[j], M[k])]
    if mode == "zero-lines":
        if rng.random() < 0.6:
            j = rng.randrange(n)
            for row in M:
                row[j] = Fraction(0)
        if rng.random() < 0.4:
            M[rng.randrange(m)] = [Fraction(0)] * n
    if rng.random() < 0.3:      # hide the structure from the diagonal pivot search
        rng.shuffle(M)
        perm = list(range(n))
        rng.shuffle(perm)
        M = [[row[j] for j in perm] for row in M]
    return {"kind": "numgauss", "mode": mode, "M": [[[x.numerator, x.denominator] for x in row] for row in M]}


def numeric_matrix(case):
    return [[Fraction(a, b) for a, b in row] for row in case["M"]]


def numeric_line(case) -> str:
    from harness.props import c13
    return c13.gauss_line(numeric_matrix(case), {})


def run_numeric_case(ctx, case, model_out: Optional[List[str]] = None):
    """Goal: for a rational Gamma the reduced matrix of `gaussian_elimination` (a) is the one of the Lean model of C13,
    (b) factorises Gamma exactly, (c) yields a bond (smaller minimum vertex cover of supp M' and supp Gamma) equal to the
    rank of Gamma over Q, (d) when Gamma has no zero row / column: has exactly one non-zero entry in every row and
    every column, their number being the rank."""
    from copy import deepcopy
    from pytreenet.ttno.symbolic_gaussian_elimination_fraction import gaussian_elimination
    from harness.props import c13
    M0 = numeric_matrix(case)
    m, n = len(M0), len(M0[0])
    rk = frac_rank(M0)
    zl = has_zero_line(M0)
    ctx.count("numgauss:" + json.dumps(case["M"]), nontrivial=(m >= 2 and n >= 2 and 0 < rk < min(m, n)), corr=True)
    ctx.tally("numeric shape", f"{m}x{n}")
    ctx.tally("numeric rank deficiency", min(m, n) - rk)
    ctx.tally("numeric zero line", zl)
    ctx.sample(case, 2)
    try:
        L, A, R = gaussian_elimination(deepcopy(M0))
    except Exception as e:      # noqa: BLE001
        ctx.oracle_fail(case, f"gaussian_elimination raised {type(e).__name__} on a rational matrix: {str(e)[:120]}")
        return
    if any(isinstance(x, tuple) for row in A for x in row):
        ctx.oracle_fail(case, "reduced matrix of a rational Gamma contains a symbolic entry")
        return
    # (a) correspondence with the Lean model of the elimination
    if model_out is None:
        try:
            model_out = ctx.lean.batch([numeric_line(case)])
        except Exception as e:      # noqa: BLE001
            raise common.HarnessError(f"model driver: {e}")
    impl = c13.canon_result(m, n, L, A, R, {})
    if model_out[0] != impl:
        ctx.corr_fail(case, f"numeric gaussian_elimination: model {model_out[0][:200]} library {impl[:200]}")
    # (b) exactness with Fractions
    p, q = len(A), len(R)
    shape_ok = (len(L) == m and all(len(r_) == p for r_ in L) and all(len(r_) == q for r_ in A)
                and all(len(r_) == n for r_ in R) and p >= 1)
    if not shape_ok:
        ctx.oracle_fail(case, f"shapes of (Op_l, M', Op_r) do not chain: {len(L)}x?, {p}x?, {q}x? for a {m}x{n} input")
        return
    for i in range(m):
        for j in range(n):
            v = sum((Fraction(L[i][k]) * Fraction(A[k][l]) * Fraction(R[l][j]) for k in range(p) for l in range(q)),
                    Fraction(0))
            if v != M0[i][j]:
                ctx.oracle_fail(case, f"Op_l * M' * Op_r differs from Gamma at ({i},{j}): {v} != {M0[i][j]}")
                return
    # (b') theorem `sge_numeric_rank_eq_reduced` (every rational Gamma): rank M' = rank Gamma
    rk_red = frac_rank([[Fraction(x) for x in row] for row in A])
    if rk_red != rk:
        ctx.oracle_fail(case, f"rank of the reduced matrix {rk_red} differs from rank(Gamma) = {rk}")
    # (c) the bond the cut creates = rank over Q
    supp = [(i, j) for i in range(p) for j in range(q) if A[i][j] != 0]
    supp_raw = [(i, j) for i in range(m) for j in range(n) if M0[i][j] != 0]
    mm, mm_raw = max_matching(supp, p), max_matching(supp_raw, m)
    bond = mm if mm < mm_raw else mm_raw        # keep-the-better rule of `_apply_bipartite_to_gamma_u`
    ctx.tally("numeric cover(M') - rank", mm - rk)
    if bond != rk:
        ctx.oracle_fail(case, f"rational Gamma of rank {rk}: minimum covers {mm} (reduced) / {mm_raw} (raw), bond {bond}")
    # (d) partial-permutation pattern (theorem `cover_of_fully_reduced` then gives cover = number of non-zeros)
    rows, cols = [i for i, _ in supp], [j for _, j in supp]
    pp = len(set(rows)) == len(rows) and len(set(cols)) == len(cols)
    ctx.tally("numeric pattern", ("partial permutation" if pp else "NOT a partial permutation")
              + (" (zero line in Gamma)" if zl else ""))
    # theorem `sge_numeric_fully_reduced_partial`: hypothesis "M' has no zero row / column" validated on the live call;
    # its conclusion (square, non-zero entries exactly on the diagonal) must then hold for the library's M';
    # theorems `sge_numeric_no_zero_lines` / `sge_numeric_fully_reduced` / `sge_numeric_bond_eq_rank`: for a Gamma
    # without zero line the reduced matrix has none and is r x r diagonal, r = rank Gamma (branch `not zl` below)
    out_zl = has_zero_line(A)
    ctx.tally("numeric reduced matrix has a zero line", out_zl)
    if not out_zl:
        ctx.hyp_validated += 1
        if not (p == q and sorted(supp) == [(i, i) for i in range(p)]):
            ctx.oracle_fail(case, f"reduced matrix {p}x{q} without zero row/column is not diagonal: support {supp[:8]}")
    if not zl:
        if out_zl:
            ctx.oracle_fail(case, "Gamma without zero row/column, but the reduced matrix has a zero row or column")
        if not pp:
            ctx.oracle_fail(case, f"Gamma without zero row/column: reduced matrix has two non-zeros in a row or column: "
                                  f"support {supp[:8]}")
        elif not (p == q == len(supp) == rk):
            ctx.oracle_fail(case, f"Gamma without zero row/column of rank {rk}: reduced matrix is {p}x{q} with "
                                  f"{len(supp)} non-zero entries")
    elif pp and len(supp) != rk:
        ctx.oracle_fail(case, f"fully reduced matrix with {len(supp)} non-zero entries but rank(Gamma) = {rk}")


def shrink_numeric(case):
    M = case["M"]
    m, n = len(M), len(M[0])
    if m > 1:
        for i in range(m):
            yield dict(case, M=M[:i] + M[i + 1:])
    if n > 1:
        for j in range(n):
            yield dict(case, M=[row[:j] + row[j + 1:] for row in M])
    for i in range(m):
        for j in range(n):
            if M[i][j][0] != 0:
                yield dict(case, M=[[([0, 1] if (a, b) == (i, j) else M[a][b]) for b in range(n)] for a in range(m)])
            if M[i][j] not in ([0, 1], [1, 1]):
                yield dict(case, M=[[([1, 1] if (a, b) == (i, j) else M[a][b]) for b in range(n)] for a in range(m)])


def numeric_fixed_cases():
    def C(rows):
        return {"kind": "numgauss", "mode": "fixed", "M": [[[x, 1] for x in row] for row in rows]}
    return [
        # witnesses of `sge_numeric_not_fully_reduced`: zero columns, reduced matrix keeps two entries in one column
        C([[0, 0, 0, -1], [0, 0, 1, 0], [0, 0, -1, -1]]),
        C([[0, 2, 0, 1], [0, 3, 0, 2], [0, 7, 0, 3]]),
        # a row vanishing ABOVE the pivot (deleted row index < pivot index) and a pivot-free column
        C([[1, 1, 0], [1, 1, 1], [0, 0, 1]]),
        C([[0, 0, 1], [0, 1, 0], [0, 1, 1]]),
        C([[1, 2], [2, 4]]), C([[0, 0], [0, 0]]), C([[1, 1, 0], [0, 0, 1]]),
    ]


def run(ctx):
    rng = ctx.rng
    cases: List[Dict[str, Any]] = []
    numeric_corpus: List[Dict[str, Any]] = []
    cdir = os.path.join(common.CORPUS_DIR, "C12")
    if os.path.isdir(cdir):
        for f in sorted(os.listdir(cdir)):
            if f.endswith(".json"):
                payload = common.unjson(json.load(open(os.path.join(cdir, f))))
                cc = payload.get("case", payload)
                (numeric_corpus if cc.get("kind") == "numgauss" else cases).append(cc)
    max_nodes = 6 if ctx.tier == "quick" else 8
    max_dim = 72 if ctx.tier == "quick" else 216
    n_cases = ctx.n(4000, 30000)
    for k in range(n_cases):
        cases.append(gen_case(rng, max_nodes, max_dim, single=(k % 8 == 0)))
    # adversarial low-rank stream (hits the recorded defect F-C12a about once in 4000 cases)
    for k in range(ctx.n(4000, 40000)):
        cases.append(gen_lowrank_case(rng, min(max_nodes, 5), max_dim))
    # planted symbolic low-rank stream on 2..4-node trees (needs a specific row / column operation)
    for k in range(ctx.n(1500, 15000)):
        cases.append(gen_planted_case(rng, 4, max_dim))
    cases.extend(fixed_cases())
    lines = []
    for c in cases:
        lines.extend(lean_lines(c))
    try:
        outs = ctx.lean.batch(lines) if lines else []
    except Exception as e:      # noqa: BLE001
        raise common.HarnessError(f"model driver: {e}")
    for i, c in enumerate(cases):
        if ctx.time_left() < 0:
            break
        run_case(ctx, c, outs[2 * i: 2 * i + 2])
    # numeric (symbol-free) coefficient matrices handed to gaussian_elimination directly
    nrng = ctx.subrng("numgauss")
    ncases = numeric_corpus + numeric_fixed_cases() + [gen_numeric_case(nrng) for _ in range(ctx.n(2500, 40000))]
    try:
        nouts = ctx.lean.batch([numeric_line(c) for c in ncases])
    except Exception as e:      # noqa: BLE001
        raise common.HarnessError(f"model driver: {e}")
    for c, o in zip(ncases, nouts):
        if ctx.time_left() < 0:
            break
        run_numeric_case(ctx, c, [o])


def fixed_cases():
    def T(num, den, sym, **kw):
        return [num, den, sym, {f"n{k[1:]}": v for k, v in kw.items()}]
    out = []
    # test_four_sites-like: A1 B2 + A1 B3 + A1 B4 ... on a star: ranks below the number of terms
    out.append({"kind": "rank", "stream": "clean", "par": [-1, 0, 0, 0], "order": [0, 1, 2, 3], "dims": [2, 2, 2, 2],
                "terms": [T(1, 1, "1", s0="X2_0", s1="X2_1"), T(1, 1, "1", s0="X2_0", s2="X2_1"),
                          T(1, 1, "1", s0="X2_0", s3="X2_1"), T(1, 1, "1", s1="X2_0", s2="X2_1")], "vseed": 3})
    # (A+B)(x)(C+D): rank 1 across the edge, needs the elimination (4 terms, Gamma = all ones)
    out.append({"kind": "rank", "stream": "clean", "par": [-1, 0], "order": [0, 1], "dims": [2, 2],
                "terms": [T(1, 1, "1", s0="X2_0", s1="X2_1"), T(1, 1, "1", s0="X2_0", s1="X2_2"),
                          T(1, 1, "1", s0="X2_1", s1="X2_1"), T(1, 1, "1", s0="X2_1", s1="X2_2")], "vseed": 4})
    # rational dependency: Gamma = [[1,2],[2,4]] rank 1 ; with a symbol instead rank 2
    out.append({"kind": "rank", "stream": "clean", "par": [-1, 0], "order": [0, 1], "dims": [2, 2],
                "terms": [T(1, 1, "1", s0="X2_0", s1="X2_1"), T(2, 1, "1", s0="X2_0", s1="X2_2"),
                          T(2, 1, "1", s0="X2_1", s1="X2_1"), T(4, 1, "1", s0="X2_1", s1="X2_2")], "vseed": 5})
    out.append({"kind": "rank", "stream": "clean", "par": [-1, 0], "order": [0, 1], "dims": [2, 2],
                "terms": [T(1, 1, "1", s0="X2_0", s1="X2_1"), T(2, 1, "1", s0="X2_0", s1="X2_2"),
                          T(2, 1, "1", s0="X2_1", s1="X2_1"), T(4, 1, "g0", s0="X2_1", s1="X2_2")], "vseed": 6})
    # single term on a branched tree with dimension-1 / non-physical nodes
    out.append({"kind": "rank", "stream": "clean", "par": [-1, 0, 0, 1, 1], "order": [0, 2, 1, 4, 3],
                "dims": [0, 2, 1, 3, 2], "terms": [T(3, 2, "g1", s1="X2_0", s3="X3_1")], "vseed": 7})
    return out


def lean_lines(case) -> List[str]:
    body = c01.lean_tree_tokens(case) + " " + c01.lean_term_tokens(case)
    return [f"C12 basebonds {body}", f"C12 singlebonds {body}"]


def run_case(ctx, case, model_out: Optional[List[str]] = None):
    if case.get("kind") == "numgauss":
        return run_numeric_case(ctx, case, model_out)
    from pytreenet.ttno.ttno_class import TreeTensorNetworkOperator
    n = len(case["par"])
    terms = case["terms"]
    cls = c01.classify(case)
    if cls["dup_assign"] or cls["zero"]:
        raise common.HarnessError("C12 case outside the quantifier (repeated assignment / zero prefactor)")
    prep = c01.prepare(case)
    conv, cm, M, order, dims = (prep[k] for k in ("conv", "cm", "M", "order", "dims"))
    ranks = schmidt_ranks(case, M, order, dims)
    if any(g > 0 for _r, g in ranks.values()):
        # a singular value between 1e-13 and 1e-6 (relative): rank decision not trustworthy
        ctx.boundary_skipped += 1
        return
    single = len(terms) == 1
    compress = any(r < len(terms) for r, _ in ranks.values())
    ctx.count(c01.case_key(case), nontrivial=(n >= 2 and len(terms) >= 2 and compress), corr=True)
    ctx.tally("nodes", n)
    ctx.tally("terms", len(terms))
    ctx.tally("coeffs", "unit" if not cls["nonunit"] else ("symbolic" if any(t[2] != "1" for t in terms) else "rational"))
    for r, _ in ranks.values():
        ctx.tally("schmidt_rank", r)
    ctx.sample(case, 3)

    # ---- SGE: the property
    try:
        ref, _ = c01.build_reference(case)
        ham = c01.build_hamiltonian(case, conv, cm)
        ttno = TreeTensorNetworkOperator.from_hamiltonian(ham, ref, c01._methods()["SGE"])
        bonds = ttno.bond_dims()
    except Exception as e:      # noqa: BLE001
        ctx.oracle_fail(case, f"SGE construction raised {type(e).__name__}: {str(e)[:160]}")
        return
    if set(bonds) != set(ranks):
        ctx.oracle_fail(case, f"bond_dims keys {sorted(bonds)} are not the (parent, child) edges {sorted(ranks)}")
        return
    # the judged TTNO must be exact, otherwise a small bond means nothing
    sp = c01.structure_problems(case, ref, ttno)
    if sp:
        ctx.oracle_fail(case, "SGE TTNO malformed (see C01): " + "; ".join(sp[:2]))
        return
    try:
        got = dense.ttno_matrix(ttno, order)
        exact = bool(np.linalg.norm(got - M) <= 1e-9 * prep["scale"])
    except Exception:           # noqa: BLE001
        exact = False
    if not exact:
        # exactness is property C01; the recorded defect F-C01d is listed for C12 as F-C12b (same signature)
        fid = None
        try:
            from pytreenet.ttno.state_diagram import StateDiagram
            hp = c01.build_hamiltonian(case, conv, cm).pad_with_identities(ref)
            sd = StateDiagram.from_hamiltonian(hp, ref, c01._methods()["SGE"])
            if not c01.diagram_problems(sd, ref) and c01.fc01d_input(case) and \
                    c01.fc01d_deviation(c01.diagram_formal_sum(sd, ref), c01.expected_formal(case)):
                fid = "F-C12b"
        except Exception:       # noqa: BLE001
            fid = None
        ctx.oracle_fail(case, "SGE TTNO is not exact (see C01), bond dimensions not judged", finding=fid)
        ctx.tally("outcome", "inexact")
        return
    # independent read of the bond dimensions from the tensors
    for (p, c), bd in bonds.items():
        if ttno.tensors[c].shape[0] != bd:
            ctx.oracle_fail(case, f"bond_dims()[{p},{c}] = {bd} but the child tensor's parent leg has "
                                  f"dimension {ttno.tensors[c].shape[0]}")
            return
    bad = [(e, bonds[e], ranks[e][0]) for e in sorted(ranks) if bonds[e] != ranks[e][0]]
    if bad:
        below = [b for b in bad if b[1] < b[2]]
        if below:
            # impossible for an exact TTNO (theorem bond_ge_rank): the oracle itself would be wrong
            ctx.oracle_fail(case, f"bond smaller than the Schmidt rank on {below[:3]} although the TTNO is exact")
        else:
            # exact TTNO (checked above), distinct assignments (checked on entry), bond ABOVE the rank (this branch):
            # every such edge is classified on its own (see `classify_edge`); one failure per class
            groups: Dict[Optional[str], List[Any]] = {}
            for item in bad:
                # corpus inputs marked `expect_minimal` are minimal on the unchanged tree: a specific input on which
                # the property is known to hold is never part of a recorded finding, whatever its shape
                fid_item = None if case.get("expect_minimal") else classify_edge(ctx.lean, case, item)
                groups.setdefault(fid_item, []).append(item)
            for fid in sorted(groups, key=lambda x: (x is not None, x or "")):
                msg = ", ".join(f"{e[0]}-{e[1]}: bond {b} > Schmidt rank {r}" for e, b, r in groups[fid][:4])
                ctx.oracle_fail(case, f"SGE bond dimension not minimal: {msg}", finding=fid)
        ctx.tally("outcome", "not-minimal")
    else:
        ctx.tally("outcome", "minimal")
    if single and any(b != 1 for b in bonds.values()):
        ctx.oracle_fail(case, f"single-term Hamiltonian: bond dimensions {bonds} (all 1 expected)")

    # ---- BASE vs Lean model: vertices per edge
    if model_out is None:
        try:
            model_out = ctx.lean.batch(lean_lines(case))
        except Exception as e:      # noqa: BLE001
            raise common.HarnessError(f"model driver: {e}")
    try:
        ref2, _ = c01.build_reference(case)
        ttno_b = TreeTensorNetworkOperator.from_hamiltonian(c01.build_hamiltonian(case, conv, cm), ref2,
                                                            c01._methods()["BASE"])
        bb = ttno_b.bond_dims()
    except Exception as e:      # noqa: BLE001
        ctx.oracle_fail(case, f"BASE construction raised {type(e).__name__}: {str(e)[:160]}")
        return
    impl = " ".join(f"{p[1:]}-{c[1:]}:{bb[(p, c)]}" for (p, c) in sorted(bb, key=lambda e: int(e[1][1:]))) or "-"
    if model_out[0] != impl:
        ctx.corr_fail(case, f"base diagram vertices per edge: model {model_out[0]} library {impl}")
    if any(b != len(terms) for b in bb.values()):
        ctx.oracle_fail(case, f"uncompressed TTNO: bond dimensions {bb} but {len(terms)} terms")
    # single-term diagram of the first term: model must say 1 everywhere; library checked when single
    want1 = " ".join(f"{p[1:]}-{c[1:]}:1" for (p, c) in sorted(bb, key=lambda e: int(e[1][1:]))) or "-"
    if model_out[1] != want1:
        ctx.corr_fail(case, f"single-term diagram vertices per edge: model {model_out[1]} expected {want1}")
    if single and impl != want1:
        ctx.oracle_fail(case, f"single-term Hamiltonian, uncompressed method: bonds {impl}")


def _group_removals(case):
    """Remove whole groups of terms: all terms with a given label at a given node, all terms with a given symbol;
    replace a symbol by '1'.  (Single-term removals usually destroy the low-rank structure that matters here.)"""
    terms = case["terms"]
    n = len(case["par"])
    seen = set()
    for i in range(n):
        for lab in sorted({c01.padded_assignment(case, t)[i] for t in terms}):
            keep = [t for t in terms if c01.padded_assignment(case, t)[i] != lab]
            key = json.dumps(keep, sort_keys=True)
            if keep and len(keep) < len(terms) and key not in seen:
                seen.add(key)
                yield dict(case, terms=keep)
    for sym in sorted({t[2] for t in terms} - {"1"}):
        keep = [t for t in terms if t[2] != sym]
        if keep:
            yield dict(case, terms=keep)
        yield dict(case, terms=[[t[0], t[1], "1" if t[2] == sym else t[2], t[3]] for t in terms])
    syms = sorted({t[2] for t in terms} - {"1"})
    for a in syms:
        for b in syms:
            if a < b:
                yield dict(case, terms=[[t[0], t[1], a if t[2] == b else t[2], t[3]] for t in terms])


def shrink(case):
    import itertools
    if case.get("kind") == "numgauss":
        yield from shrink_numeric(case)
        return
    for cand in itertools.chain(_group_removals(case), c01.shrink(case)):
        cl = c01.classify(cand)
        if cl["dup_assign"] or cl["zero"]:
            continue
        pd = c01.site_dims(cand)
        if any(pd[int(k[1:])] == 1 and not v.startswith("I") for t in cand["terms"] for k, v in t[3].items()):
            continue
        yield cand
