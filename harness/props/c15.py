"""C15 — generated Lindbladians are the GKSL generator on the doubled space.

Stage B (correspondence with Lean model Ptn.C15): the harness sends Hamiltonian terms, jump
operators, the key lists of the dictionaries and the *flags* (symmetric / real / Hermitian /
identity, computed here from the exactly representable matrices) to the model, which is a literal
port of `generate_lindbladian`; the generated term list (prefactor, coefficient symbol, site ↦ label)
and the key sets of `conversion_dictionary` / `coeffs_mapping` are compared after canonicalising
dict and list orders.
Stage C (oracle): the generated terms are evaluated densely by the harness's own kron evaluation
on the space (ket sites in sorted order) ⊗ (bra sites in sorted order) and compared with the dense
GKSL formula of the property.  residual = generated − GKSL is compared with the term of the open
finding F-C15, +i·Σ_k γ_k (1 ⊗ (L_k†L_k)ᵀ): equal to 1e-9 → KNOWN-FINDING; anything else → violation.
`exact_lindbladian` is judged the same way and compared with the symbolic construction under
rate = coefficient².  Hamiltonian-only Lindbladians (not masked by the finding): trace and
Hermiticity preservation of the generator and of exp(−it𝓛)ρ.
"""
from __future__ import annotations

import cmath
import math
import random
from fractions import Fraction

import numpy as np

from harness.common import hash_str

RULE = ("base cases: 1-3 sites of dimension 2-3; Hamiltonian = 0-4 tensor-product terms with Fraction "
        "prefactors and symbolic coefficients; 0-3 jump operators on 1-3 sites whose factors are drawn "
        "from identity / real-symmetric / complex-Hermitian / real-non-symmetric / complex-symmetric / "
        "generic matrices with entries in (Z+iZ)/2 (so every labelling shortcut is exercised and the "
        "flags are exact); symbolic rates (positive, negative, complex), all accepted input forms of "
        "the jump list, custom ket/bra suffixes. Input-space families on top (each generated in every run): "
        "dims (1-4 sites, dimension-1 and dimension-4 sites), dtype (float64 / float32 / int64 / complex64 "
        "arrays, Fortran-ordered, strided and read-only arrays), scale (operators times 2^k, |k| <= 27, exact; "
        "coefficient values 1e-8..1e+8; tolerance relative to the data scale), zero (zero rate / zero prefactor / "
        "zero matrix), api (suffix defaults not passed / passed positionally, jump lists mixing tuples and bare "
        "tensor products, Hamiltonians built by add_term / add_multiple_terms / add_hamiltonian / + / bare terms / "
        "default coefficient mapping, unused labels and symbols, a rate symbol that is also a Hamiltonian symbol, "
        "NumPy / int rate values, exact_lindbladian on real-typed arrays). non-trivial = distinct case with at "
        "least one jump operator or a non-symmetric Hamiltonian factor")
PARTIAL = ["the property is false of the code (open finding F-C15, theorem anticomm_bra_sign_witness): "
           "what is checked is generated == GKSL + i*sum_k gamma_k 1 (x) (L_k^dagger L_k)^T exactly",
           "the matrix denotation (theorem lindblad_denote_eq: n-site Kronecker product over an arbitrary finite "
           "family of sites) is proved relative to the hypotheses `Fits`: the final conversion_dictionary gives "
           "the derived labels (_T, _conj, _H, _mult_) their values, the flags are sound, '<sym>*j' maps to "
           "i*rate, ket/bra identifiers are disjoint; that the *values* stored by the code meet these "
           "hypotheses, and that numpy.kron over the sorted site list is the n-site Kronecker product, is "
           "decided by the dense oracle only",
           "exp(-itL) itself is not formalised: trace preservation is proved at generator level "
           "(vec(1)^T L = 0, theorem gksl_trace_preserving); Hermiticity preservation is oracle-only",
           "the numerical classification (issymmetric / isreal / ishermitian / allclose(eye)) is an input of "
           "the model; the harness recomputes it exactly on matrices with entries in (Z+iZ)/2"]
ASSUMPTIONS = ["every label used by a term is a key of the corresponding dictionary (otherwise KeyError); "
               "labels contain no '_' so the derived labels (_T, _conj, _H, _mult_) cannot collide with user labels",
               "a label denotes the same matrix in the Hamiltonian dictionary and in the jump dictionary",
               "every jump operator comes with a rate symbol the caller maps: for jump operators passed as bare "
               "TensorProducts (implicit symbol '1') jump_coeff_mapping contains the key '1' (otherwise the "
               "generated coefficient '1*j' is missing from coeffs_mapping); the harness always passes '1': 1 there"]

KINDS = ["I", "rs", "hc", "rn", "cs", "gc"]
KINDS_D1 = ["I", "rs", "cs"]            # the kinds that exist for a 1x1 matrix ("Z" = zero matrix: any dimension)

# Families that fail on the unchanged /repo and are therefore NOT generated by default (reported to the
# coordinator as possible genuine defects; reproducing scripts in notes/C15.md, section "Input-space audit").
# `VERIF_PENDING=1 ./check C15` generates them.
PENDING_FINDINGS = {
    "threshold": {
        "family": "threshold",
        "inputs": "an operator of conversion_dictionary / jump_operator_dict that is within rtol=1e-5 / atol=1e-10 "
                  "(issymmetric, ishermitian) or rtol=1e-5 / atol=1e-8 (allclose(., eye)) of being symmetric / "
                  "Hermitian / the identity without being it exactly: (a) rs + 2^-24 * strictly-upper-triangular ones "
                  "as a Hamiltonian or jump factor, (b) hc + 2^-24 * i * (symmetric off-diagonal ones) as a jump factor, "
                  "(c) any non-symmetric operator times 2^-40, (d) (1 + 2^-17 i) * identity as a jump factor",
        "message": "(a)-(c): 'generate_lindbladian: ||generated - GKSL|| = ...' with a relative residual up to 1e-5 "
                   "(a, b) or O(1) (c), conversion_dictionary keys lack X_T / X_H (the shortcut was taken); "
                   "(d): 'generate_lindbladian raised KeyError: 'X_H''",
    },
}
FRACS = [Fraction(1), Fraction(1), Fraction(1, 2), Fraction(2), Fraction(3, 4), Fraction(1, 3),
         Fraction(-1), Fraction(-1, 2), Fraction(5, 3), Fraction(-3, 2)]


# ------------------------------------------------------------------ operator pool

def make_op(kind: str, d: int, seed: int) -> np.ndarray:
    """A d×d matrix with entries in (Z+iZ)/2 that has exactly the properties of `kind`."""
    rng = random.Random(seed * 7919 + d * 31 + (KINDS.index(kind) if kind in KINDS else 99))

    def rmat(cplx):
        m = np.array([[rng.randint(-2, 2) / 2 for _ in range(d)] for _ in range(d)], dtype=complex)
        if cplx:
            m = m + 1j * np.array([[rng.randint(-2, 2) / 2 for _ in range(d)] for _ in range(d)])
        return m
    if kind == "I":
        return np.eye(d, dtype=complex)
    if kind == "Z":
        return np.zeros((d, d), dtype=complex)
    for _ in range(1000):
        if kind == "rs":
            a = rmat(False)
            m = a + a.T
        elif kind == "hc":
            a = rmat(True)
            m = a + a.conj().T
        elif kind == "rn":
            m = rmat(False)
        elif kind == "cs":
            a = rmat(True)
            m = a + a.T
        else:
            m = rmat(True)
        fl = flags_of(m)
        want = {"rs": (True, True, True), "hc": (False, False, True), "rn": (False, True, False),
                "cs": (True, False, False), "gc": (False, False, False)}[kind]
        if (fl["sym"], fl["real"], fl["herm"]) == want and not fl["ident"] and np.any(m):
            return m
    raise AssertionError("could not draw operator")


def flags_of(m: np.ndarray) -> dict:
    """exact classification (entries are small dyadic rationals, products are exact in binary64)"""
    return {"sym": bool(np.array_equal(m, m.T)), "real": bool(np.all(m.imag == 0)),
            "herm": bool(np.array_equal(m, m.conj().T)),
            "ident": bool(np.array_equal(m, np.eye(m.shape[0])))}


# ------------------------------------------------------------------ case generation

def _rand_val(rng, allow_complex=True, positive=False):
    v = round(rng.uniform(0.2, 1.5), 3)
    r = rng.random()
    if positive:
        return [v, 0.0]
    if r < 0.15:
        return [-v, 0.0]
    if allow_complex and r < 0.3:
        return [v, round(rng.uniform(-1, 1), 3)]
    return [v, 0.0]


def gen_case(rng, force=None):
    force = force or {}
    nsites = force.get("nsites", rng.choice([1, 1, 2, 2, 2, 3]))
    if "dims" in force:
        dims = list(force["dims"])
        nsites = len(dims)
    else:
        dims = [rng.choice([2, 2, 3]) for _ in range(nsites)]
        if nsites == 3 and dims.count(3) == 3:
            dims[rng.randrange(3)] = 2
    sites = {f"s{i}": dims[i] for i in range(nsites)}
    if rng.random() < 0.15 and nsites <= 3:     # identifiers that are prefixes of each other
        names = ["n", "n1", "n10"][:nsites]
        sites = {names[i]: dims[i] for i in range(nsites)}
    site_ids = list(sites)
    ops = {}
    zero_ops = force.get("zero_ops", False)

    def pick_label(d, kinds=KINDS):
        if d == 1:
            kinds = [k for k in kinds if k in KINDS_D1] or ["rs"]
        kind = rng.choice(kinds)
        if zero_ops and rng.random() < 0.3:
            kind = "Z"
        idx = 0 if kind in ("I", "Z") else rng.randrange(2)
        label = f"{kind}{d}x{idx}" if kind not in ("I", "Z") else f"{kind}{d}"
        ops[label] = {"d": d, "kind": kind, "seed": idx}
        return label

    herm_h = force.get("herm_h", rng.random() < 0.5)
    njumps = force.get("njumps", rng.choice([0, 1, 1, 2, 2, 3]))
    nham = rng.choice([0, 1, 2, 2, 3, 4]) if njumps else rng.choice([1, 2, 3, 4])
    nham = force.get("nham", nham)
    plain_h = force.get("plain_h", False)        # every Hamiltonian term is 1 * "1" * tensor product
    hcoeffs = {"1": [1.0, 0.0]}
    ham = []
    for _ in range(nham):
        k = rng.randint(1, nsites)
        ss = rng.sample(site_ids, k)
        kinds = ["I", "rs", "hc"] if herm_h else KINDS
        tp = {s: pick_label(sites[s], kinds) for s in ss}
        coeff = "1" if plain_h else rng.choice(["1", "J", "g"])
        if coeff not in hcoeffs:
            hcoeffs[coeff] = _rand_val(rng, allow_complex=not herm_h)
        fr = Fraction(1) if plain_h else rng.choice(FRACS)
        ham.append([fr.numerator, fr.denominator, coeff, tp])
    jumps, jcoeffs = [], {}
    form = "tuples"
    bare_idx = []
    if njumps == 0:
        form = rng.choice(["none", "empty"])
    elif force.get("form") == "mixed" and njumps >= 2:
        form = "mixed"
        bare_idx = sorted(rng.sample(range(njumps), rng.randint(1, njumps - 1)))
    elif rng.random() < 0.15:
        form = "bare"
    elif njumps == 1 and rng.random() < 0.3:
        form = rng.choice(["single-tuple", "single-bare"])
    rate_symbols = force.get("rate_symbols", ["gam0", "gam1", "1"])
    for j in range(njumps):
        k = min(nsites, rng.choice([1, 1, 2, 2, 3]))
        ss = rng.sample(site_ids, k)
        tp = {s: pick_label(sites[s]) for s in ss}
        if all(ops[l]["kind"] == "I" for l in tp.values()) and rng.random() < 0.8:
            s = ss[0]
            tp[s] = pick_label(sites[s], KINDS[1:])
        if form in ("bare", "single-bare") or j in bare_idx:
            coeff, fr = "1", Fraction(1)
            jcoeffs["1"] = [1.0, 0.0]
        else:
            coeff = rng.choice(rate_symbols)
            if coeff == "1":
                jcoeffs["1"] = [1.0, 0.0]
            elif coeff not in jcoeffs:
                jcoeffs[coeff] = _rand_val(rng)
            fr = rng.choice(FRACS)
        jumps.append([fr.numerator, fr.denominator, coeff, tp])
    # labels declared in the jump dictionary but not used by any jump operator
    extra = []
    if njumps and rng.random() < 0.3:
        d = rng.choice(list(sites.values()))
        extra.append(pick_label(d))
    suff = rng.choice([["_ket", "_bra"]] * 4 + [["K", "B"], ["_bra", "_ket"], ["_a", "_ab"]])
    if "suffixes" in force:
        suff = list(force["suffixes"])
    case = {"sites": sites, "ops": ops, "ham": ham, "hcoeffs": hcoeffs, "jumps": jumps,
            "jcoeffs": jcoeffs, "form": form, "extra_jump_labels": extra, "ket": suff[0], "bra": suff[1],
            "herm_h": herm_h, "t": rng.choice([0.1, 0.3, 0.7])}
    if bare_idx:
        case["bare_idx"] = bare_idx
    return case


# ---- input-space families (decorations of a base case; every field is optional, default = base behaviour)

SCALE_EXPS = [27, -27, 20, -20, 13, -13]
MIN_JUMP_EXP = -13
COEFF_MAGS = [1e8, 1e-8, 1e4, 1e-4]
LAYOUTS = ["F", "strided", "readonly", "Tview"]


def _dtype_choices(kind, d):
    """array types in which an operator of this kind is exactly representable"""
    real = kind in ("I", "rs", "rn", "Z")
    return (["f64", "f32", "i64", "c64"] if real else ["c64"])


def decorate_dtype(rng, case):
    for o in case["ops"].values():
        r = rng.random()
        if r < 0.6:
            o["dtype"] = rng.choice(_dtype_choices(o["kind"], o["d"]))
            if o["dtype"] == "i64" and o["kind"] not in ("I", "Z"):
                o["mul"] = 2                       # entries of 2*X are integers
        if rng.random() < 0.5:
            o["layout"] = rng.choice(LAYOUTS)
    case["family"] = "dtype"


def decorate_scale(rng, case, i=None):
    k = rng.choice(SCALE_EXPS) if i is None else SCALE_EXPS[i % len(SCALE_EXPS)]
    modes = ["uniform", "uniform", "mixed", "coeff-only"]
    mode = rng.choice(modes) if i is None else modes[(i // len(SCALE_EXPS)) % len(modes)]
    jl = set(jump_labels(case))
    for l, o in case["ops"].items():
        if o["kind"] in ("I", "Z") or mode == "coeff-only":
            continue
        if mode == "uniform" or rng.random() < 0.5:
            # jump factors smaller than 2^-13: L^dagger L falls below the absolute tolerance of the library's
            # symmetry test - family `threshold` (PENDING_FINDINGS), not generated here
            o["exp"] = max(k, MIN_JUMP_EXP) if l in jl else k
    if mode == "coeff-only" or rng.random() < 0.4:
        f = rng.choice(COEFF_MAGS)
        g = rng.choice(COEFF_MAGS + [f, f])
        for key, v in case["hcoeffs"].items():
            if key != "1":
                case["hcoeffs"][key] = [v[0] * f, v[1] * f]
        for key, v in case["jcoeffs"].items():
            if key != "1":
                case["jcoeffs"][key] = [v[0] * g, v[1] * g]
    case["family"] = "scale"


def decorate_zero(rng, case):
    what = []
    if case["jumps"] and rng.random() < 0.6:
        syms = [t[2] for t in case["jumps"] if t[2] != "1"]
        if syms:
            case["jcoeffs"][rng.choice(syms)] = [0.0, 0.0]
            what.append("rate")
    for which in ("ham", "jumps"):
        for i, t in enumerate(case[which]):
            if rng.random() < 0.25 and not (which == "jumps" and (case["form"] in ("bare", "single-bare")
                                                                   or i in case.get("bare_idx", []))):
                t[0], t[1] = 0, 1
                what.append("prefactor")
    case["family"] = "zero"
    case["zero"] = sorted(set(what))


def decorate_api(rng, case, i=None):
    if (case["ket"], case["bra"]) == ("_ket", "_bra"):
        case["call"] = rng.choice(["default", "default", "positional", "keywords"])
    else:
        case["call"] = rng.choice(["positional", "keywords"])
    plain = all(t[0] == 1 and t[1] == 1 and t[2] == "1" for t in case["ham"])
    routes = ["add_term", "add_multiple_terms", "add_hamiltonian", "plus", "single"]
    if plain:
        routes = ["bare", "bare_add", "default_coeffs"]
    case["ham_form"] = rng.choice(routes) if i is None else routes[(i // 2) % len(routes)]
    if case["ham_form"] == "single" and len(case["ham"]) != 1:
        case["ham_form"] = "ctor"
    if rng.random() < 0.4 and case["ham"]:
        d = rng.choice(list(case["sites"].values()))
        kinds = KINDS_D1 if d == 1 else (["I", "rs", "hc"] if case["herm_h"] else KINDS)
        kind = rng.choice(kinds)
        idx = 0 if kind == "I" else rng.randrange(2)
        label = f"{kind}{d}x{idx}" if kind != "I" else f"I{d}"
        case["ops"].setdefault(label, {"d": d, "kind": kind, "seed": idx})
        case["extra_ham_labels"] = [label]
    if rng.random() < 0.4 and case["ham_form"] != "default_coeffs":
        case["hcoeffs"]["hunused"] = _rand_val(rng)
    if rng.random() < 0.4 and case["jumps"]:
        case["jcoeffs"]["junused"] = _rand_val(rng)
    if rng.random() < 0.5:
        case["rate_types"] = rng.choice(["numpy", "int", "complex"])
        if case["rate_types"] == "int":
            for key in case["jcoeffs"]:
                if key != "1":
                    case["jcoeffs"][key] = [float(rng.choice([1, 2, 3, -1])), 0.0]
    case["family"] = "api"


def perturb(m, kind, k):
    """near-threshold operators of the family `threshold` (see PENDING_FINDINGS)"""
    d = m.shape[0]
    eps = 2.0 ** k
    if kind == "asym":
        return m + eps * np.triu(np.ones((d, d)), 1)
    if kind == "aherm":
        return m + 1j * eps * (np.ones((d, d)) - np.eye(d))
    if kind == "phase":
        return (1 + 1j * eps) * np.eye(d, dtype=complex)
    raise ValueError(kind)


def decorate_threshold(rng, case):
    labels = [l for l, o in case["ops"].items() if o["d"] >= 2]
    for l in labels:
        o = case["ops"][l]
        if o["kind"] == "rs":
            o["pert"] = ["asym", -24]
        elif o["kind"] == "hc":
            o["pert"] = ["aherm", -24]
        elif o["kind"] == "I" and l in [x for t in case["jumps"] for x in t[3].values()] \
                and l not in [x for t in case["ham"] for x in t[3].values()]:
            o["pert"] = ["phase", -17]
        elif o["kind"] in ("rn", "gc", "cs"):
            # 2^-27 ~ 7e-9: the operator is classified correctly, its product L^dagger L (~ 5e-17) is not
            o["exp"] = rng.choice([-27, -40])
    case["family"] = "threshold"
    case["herm_h"] = False                          # the perturbed Hamiltonian factors are not Hermitian


FAMILIES = {"dtype": decorate_dtype, "scale": decorate_scale, "zero": decorate_zero, "api": decorate_api,
            "threshold": decorate_threshold}


def gen_family_case(rng, family, i=None):
    """One case of an input-space family; `i` (position in the family) makes the rarely used values cycle, so
    that every run contains each of them."""
    force = {}
    if family == "dims":
        nsites = rng.choice([1, 2, 2, 3, 3, 4, 4])
        while True:
            dims = [rng.choice([1, 1, 2, 2, 3, 4]) for _ in range(nsites)]
            if int(np.prod(dims)) <= 16 and (max(dims) > 1 or rng.random() < 0.2):
                break
        force["dims"] = dims
        case = gen_case(rng, force)
        case["family"] = "dims"
        return case
    if family == "scale":
        r = rng.random()
        k = None if i is None else SCALE_EXPS[i % len(SCALE_EXPS)]
        if k is not None and k < MIN_JUMP_EXP and r < 0.6:
            force["njumps"] = 0                     # the smallest operators: Hamiltonian factors only
        elif r < 0.35:
            force["nham"] = 0
            force["njumps"] = rng.choice([1, 1, 2])
        elif r < 0.5:
            force["njumps"] = 0
    if family == "zero":
        force["zero_ops"] = True
        force["njumps"] = rng.choice([1, 2, 2, 3])
    if family == "api":
        r = rng.random()
        if r < 0.35:
            force["form"] = "mixed"
            force["njumps"] = rng.choice([2, 3])
        if (rng.random() < 0.4) if i is None else (i % 2 == 1):
            force["plain_h"] = True
        elif i is not None and (i // 2) % 5 == 4:
            force["nham"] = 1                       # the route `single` (one term given as a tuple)
        if rng.random() < 0.6:
            force["suffixes"] = ["_ket", "_bra"]
        force["rate_symbols"] = ["gam0", "gam1", "1", "J", "g"]      # "J", "g" are Hamiltonian symbols too
    if family == "threshold":
        force["njumps"] = rng.choice([0, 1, 2])
    case = gen_case(rng, force)
    if family in ("scale", "api"):
        FAMILIES[family](rng, case, i)
    else:
        FAMILIES[family](rng, case)
    return case


def pending_enabled():
    import os
    return os.environ.get("VERIF_PENDING", "") == "1"


def gen_cases(ctx):
    rng = ctx.rng
    cases = []
    n = ctx.n(500, 6000)
    for i in range(n):
        force = {}
        if i % 5 == 0:
            force = {"njumps": 0}                   # Hamiltonian-only: consequences not masked
        cases.append(gen_case(rng, force))
    frng = ctx.subrng("families")
    per = ctx.n(50, 600)
    for family in ("dims", "dtype", "scale", "zero", "api"):
        for i in range(per):
            cases.append(gen_family_case(frng, family, i))
    if pending_enabled():
        for i in range(per):
            cases.append(gen_family_case(frng, "threshold", i))
    return cases


# ------------------------------------------------------------------ building the library objects

def matrices(case):
    """The operators of the case as mathematical objects (complex128, exact)."""
    out = {}
    for l, o in case["ops"].items():
        m = make_op(o["kind"], o["d"], o["seed"])
        if o.get("mul"):
            m = m * o["mul"]
        if o.get("exp"):
            m = m * (2.0 ** o["exp"])
        if o.get("pert"):
            m = perturb(m, *o["pert"])
        out[l] = m
    return out


def typed(o, m):
    """The array handed to the library for the operator `m`: element type and memory layout of the case.
    The value is unchanged (checked) - only the representation differs."""
    from harness.common import HarnessError
    dt = o.get("dtype", "c128")
    if dt == "f64":
        a = m.real.astype(np.float64)
    elif dt == "f32":
        a = m.real.astype(np.float32)
    elif dt == "i64":
        a = np.rint(m.real).astype(np.int64)
    elif dt == "c64":
        a = m.astype(np.complex64)
    else:
        a = m.copy()
    lay = o.get("layout", "C")
    if lay == "F":
        a = np.asfortranarray(a)
    elif lay == "strided":
        big = np.zeros((2 * a.shape[0], 3 * a.shape[1]), dtype=a.dtype)
        big[::2, 1::3] = a
        a = big[::2, 1::3]
    elif lay == "Tview":
        a = np.ascontiguousarray(a.T).T
    elif lay == "readonly":
        a.setflags(write=False)
    if not np.array_equal(a, m):
        raise HarnessError(f"C15: operator not representable as {dt}")
    return a


def cval(v, how=None):
    if how == "numpy":
        return np.complex128(complex(v[0], v[1])) if v[1] else np.float64(v[0])
    if how == "int" and not v[1] and float(v[0]).is_integer():
        return int(v[0])
    if how == "complex":
        return complex(v[0], v[1])
    return complex(v[0], v[1]) if v[1] else float(v[0])


def ham_labels(case):
    out = []
    for t in case["ham"]:
        for l in t[3].values():
            if l not in out:
                out.append(l)
    for l in case.get("extra_ham_labels", []):
        if l not in out:
            out.append(l)
    return out


def jump_labels(case):
    out = []
    for t in case["jumps"]:
        for l in t[3].values():
            if l not in out:
                out.append(l)
    for l in case.get("extra_jump_labels", []):
        if l not in out:
            out.append(l)
    return out


def build_hamiltonian(case, hterms, hdict, hcm):
    """The Hamiltonian object, built by the public route `ham_form` of the case (default: constructor)."""
    from pytreenet.operators.hamiltonian import Hamiltonian
    route = case.get("ham_form", "ctor")
    if route == "ctor":
        return Hamiltonian(hterms, hdict, hcm)
    if route == "single" and len(hterms) == 1:
        return Hamiltonian(hterms[0], hdict, hcm)
    if route == "single":
        return Hamiltonian(hterms, hdict, hcm)
    if route == "add_term":
        ham = Hamiltonian(None, hdict, hcm)
        for t in hterms:
            ham.add_term(t)
        return ham
    if route == "add_multiple_terms":
        ham = Hamiltonian(conversion_dictionary=hdict, coeffs_mapping=hcm)
        ham.add_multiple_terms(hterms)
        return ham
    if route in ("add_hamiltonian", "plus"):
        cut = len(hterms) // 2
        labels = list(hdict)
        h1 = Hamiltonian(hterms[:cut], {l: hdict[l] for l in labels[::2]},
                         {k: v for i, (k, v) in enumerate(hcm.items()) if i % 2 == 0})
        h2 = Hamiltonian(hterms[cut:], {l: hdict[l] for l in labels[1::2]},
                         {k: v for i, (k, v) in enumerate(hcm.items()) if i % 2 == 1})
        if route == "plus":
            return h1 + h2
        h1.add_hamiltonian(h2)
        return h1
    if route == "bare":                 # terms given as bare tensor products (implicit 1 * "1")
        tps = [t[2] for t in hterms]
        return Hamiltonian(tps[0] if len(tps) == 1 else tps, hdict, hcm)
    if route == "bare_add":             # bare tensor products through add_term / add_multiple_terms
        ham = Hamiltonian(None, hdict, hcm)
        if hterms:
            ham.add_term(hterms[0][2])
        if len(hterms) > 1:
            ham.add_multiple_terms([t[2] for t in hterms[1:]])
        return ham
    if route == "default_coeffs":       # coefficient mapping left to its default {"1": 1}
        return Hamiltonian(hterms, hdict)
    raise ValueError(route)


def build_objects(case):
    from pytreenet.operators.tensorproduct import TensorProduct
    mats = matrices(case)
    how = case.get("rate_types")
    hterms = [(Fraction(t[0], t[1]), t[2], TensorProduct(dict(t[3]))) for t in case["ham"]]
    hdict = {l: typed(case["ops"][l], mats[l]) for l in ham_labels(case)}
    hcm = {k: cval(v) for k, v in case["hcoeffs"].items()}
    ham = build_hamiltonian(case, hterms, hdict, hcm)
    jdict = {l: typed(case["ops"][l], mats[l]) for l in jump_labels(case)}
    jcm = {k: cval(v, how) for k, v in case["jcoeffs"].items()}
    form = case["form"]
    jt = [(Fraction(t[0], t[1]), t[2], TensorProduct(dict(t[3]))) for t in case["jumps"]]
    if form == "none":
        jarg = None
    elif form == "empty":
        jarg = []
    elif form == "bare":
        jarg = [t[2] for t in jt]
    elif form == "mixed":
        jarg = [(t[2] if i in case.get("bare_idx", []) else t) for i, t in enumerate(jt)]
    elif form == "single-tuple":
        jarg = jt[0]
    elif form == "single-bare":
        jarg = jt[0][2]
    else:
        jarg = jt
    return ham, jarg, jdict, jcm, mats


# ------------------------------------------------------------------ model request

def derived_sym_labels(case, mats):
    """the derived labels (…_H, …_mult_…) of the jump dictionary that are symmetric"""
    out = []
    for l in jump_labels(case):
        m = mats[l]
        f = flags_of(m)
        if not f["ident"] and not f["herm"]:
            if f["sym"]:
                out.append(l + "_H")
            adj = l + "_H"
        else:
            adj = l
        if not f["ident"]:
            p = m.conj().T @ m
            if np.array_equal(p, p.T):
                out.append(adj + "_mult_" + l)
    return out


def model_line(case, cmd="gen"):
    mats = matrices(case)
    toks = ["C15", cmd, case["ket"], case["bra"]]

    def term_toks(t):
        r = [str(t[0]), str(t[1]), t[2], str(len(t[3]))]
        for s, l in t[3].items():
            r += [s, l]
        return r
    toks += ["H", str(len(case["ham"]))]
    for t in case["ham"]:
        toks += term_toks(t)
    hl = ham_labels(case)
    toks += ["HL", str(len(hl))]
    for l in hl:
        toks += [l, "1" if flags_of(mats[l])["sym"] else "0"]
    toks += ["HC", str(len(case["hcoeffs"]))] + list(case["hcoeffs"])
    toks += ["J", str(len(case["jumps"]))]
    for t in case["jumps"]:
        toks += term_toks(t)
    jl = jump_labels(case)
    toks += ["JL", str(len(jl))]
    for l in jl:
        f = flags_of(mats[l])
        toks += [l, "".join("1" if f[k] else "0" for k in ("real", "herm", "ident", "sym"))]
    toks += ["JC", str(len(case["jcoeffs"]))] + list(case["jcoeffs"])
    ds = derived_sym_labels(case, mats)
    toks += ["DS", str(len(ds))] + ds
    return " ".join(toks)


def canon_terms_from_model(s):
    if s == "":
        return []
    out = []
    for t in s.split(";"):
        fr, coeff, ops = t.split("|")
        out.append(f"{fr}|{coeff}|" + ",".join(sorted(o for o in ops.split(",") if o)))
    return sorted(out)


def canon_terms_from_impl(terms):
    out = []
    for fr, coeff, tp in terms:
        fr = Fraction(fr)
        ops = []
        for s, l in tp.items():
            ops.append(f"{s}:{l if isinstance(l, str) else '<array>'}")
        out.append(f"{fr.numerator}/{fr.denominator}|{coeff}|" + ",".join(sorted(ops)))
    return sorted(out)


def parse_model(out):
    if not out.startswith("terms="):
        return None
    parts = out.split(" ")
    d = {}
    for p in parts:
        k, _, v = p.partition("=")
        d[k] = v
    return (canon_terms_from_model(d.get("terms", "")),
            sorted(x for x in d.get("keys", "").split(",") if x),
            sorted(x for x in d.get("coeffs", "").split(",") if x))


# ------------------------------------------------------------------ dense evaluation (harness's own)

def kron2(a, b):
    """Kronecker product of two matrices (same result as numpy.kron, without its per-call overhead)"""
    a = np.asarray(a)
    b = np.asarray(b)
    return (a[:, None, :, None] * b[None, :, None, :]).reshape(a.shape[0] * b.shape[0], a.shape[1] * b.shape[1])


def kron_all(mats):
    out = np.eye(1, dtype=complex)
    for m in mats:
        out = kron2(out, m)
    return out


def embed(tp, order, dims, conv):
    """(x)_{s in order} (conv[tp[s]] if s in tp else 1)"""
    return kron_all([np.asarray(conv[tp[s]], dtype=complex) if s in tp else np.eye(dims[s]) for s in order])


def dense_of_terms(terms, conv, coeffs, order, dims):
    D = int(np.prod([dims[s] for s in order])) if order else 1
    out = np.zeros((D, D), dtype=complex)
    for fr, coeff, tp in terms:
        for s in tp:
            if s not in dims:
                raise KeyError(f"term acts on unknown identifier {s!r}")
        out += float(Fraction(fr)) * complex(coeffs[coeff]) * embed(tp, order, dims, conv)
    return out


def taylor_expm(A):
    A = np.asarray(A, dtype=complex)
    n = A.shape[0]
    nrm = np.abs(A).sum(axis=0).max() if n else 0.0
    s = 0 if nrm <= 0.25 else int(math.ceil(math.log2(nrm / 0.25)))
    B = A / (2.0 ** s)
    term = np.eye(n, dtype=complex)
    acc = np.eye(n, dtype=complex)
    for j in range(1, 26):
        term = term @ B / j
        acc = acc + term
    for _ in range(s):
        acc = acc @ acc
    return acc


def dictionary_problems(lind, mats, jcm, flags_of):
    """The hypotheses of the denotation theorem on the values the code stored: every derived label
    carries its intended value (X_T = X^T, X_conj = conj X, X_H = X^dagger, A_mult_B = A B), every base
    label the caller's matrix, and '<sym>*j' = i * rate."""
    conv = lind.conversion_dictionary
    out = []

    def want(label):
        if label.endswith("_T"):
            b = want(label[:-2])
            return None if b is None else b.T
        if label.endswith("_conj"):
            b = want(label[:-5])
            return None if b is None else b.conj()
        if "_mult_" in label:
            l, r = label.split("_mult_", 1)
            a, b = want(l), want(r)
            return None if a is None or b is None else a @ b
        if label.endswith("_H"):
            b = want(label[:-2])
            return None if b is None else b.conj().T
        return mats.get(label)
    for k, v in conv.items():
        w = want(k)
        if w is None:
            out.append(f"unexpected key {k!r}")
        elif np.shape(v) != w.shape or not np.array_equal(np.asarray(v), w):
            out.append(f"{k!r} does not hold the value its name promises")
    for k, v in jcm.items():
        if (k + "*j") not in lind.coeffs_mapping or lind.coeffs_mapping[k + "*j"] != 1j * v:
            out.append(f"coeffs_mapping[{k + '*j'!r}] is not i*rate")
    return out


# ------------------------------------------------------------------ run

def corpus_cases():
    import glob
    import json
    import os
    from harness import common
    out = []
    for path in sorted(glob.glob(os.path.join(common.CORPUS_DIR, "C15", "*.json"))):
        payload = common.unjson(json.load(open(path)))
        out.append(payload.get("case", payload))
    return out


def run(ctx):
    cases = corpus_cases() + gen_cases(ctx)
    outs = ctx.lean.batch([model_line(c) for c in cases])
    for c, o in zip(cases, outs):
        if ctx.time_left() < 0:
            break
        run_case(ctx, c, o)


def run_case(ctx, case, model_out=None):
    from pytreenet.operators.lindbladian import generate_lindbladian
    from pytreenet.operators.exact_operators import exact_lindbladian
    if model_out is None:
        model_out = ctx.lean.batch([model_line(case)])[0]
    sites = case["sites"]
    order = sorted(sites)
    ket, bra = case["ket"], case["bra"]
    njumps = len(case["jumps"])
    mats = matrices(case)
    ham, jarg, jdict, jcm, _ = build_objects(case)
    nonsym_h = any(not flags_of(mats[l])["sym"] for l in ham_labels(case))
    key = repr((sorted(sites.items()), case["ham"], case["jumps"], sorted(case["ops"].items(), key=str),
                case["form"], ket, bra, case.get("call"), case.get("ham_form"), case.get("rate_types"),
                sorted(case["hcoeffs"].items()), sorted(case["jcoeffs"].items())))
    ctx.count(key, nontrivial=(njumps > 0 or nonsym_h), corr=True)
    ctx.tally("sites", len(sites))
    ctx.tally("total_dimension", int(np.prod(list(sites.values()))))
    ctx.tally("jump_operators", njumps)
    ctx.tally("hamiltonian_terms", len(case["ham"]))
    ctx.tally("jump_input_form", case["form"])
    ctx.tally("suffixes", f"{ket}/{bra}")
    ctx.tally("family", case.get("family", "base"))
    ctx.tally("call_style", case.get("call", "keywords"))
    ctx.tally("hamiltonian_built_by", case.get("ham_form", "ctor"))
    ctx.tally("rate_value_type", case.get("rate_types", "float/complex"))
    for d in sites.values():
        ctx.tally("site_dimension", d)
    for l in set(ham_labels(case)) | set(jump_labels(case)):
        o = case["ops"][l]
        ctx.tally("operator_dtype", o.get("dtype", "c128"))
        ctx.tally("operator_layout", o.get("layout", "C"))
        ctx.tally("operator_scale_exp2", o.get("exp", 0))
        if o["kind"] == "Z":
            ctx.tally("zero_inputs", "zero matrix")
    for which in ("hcoeffs", "jcoeffs"):
        for k_, v_ in case[which].items():
            mag = math.hypot(v_[0], v_[1])
            ctx.tally("coefficient_magnitude_log10", "zero" if mag == 0 else int(round(math.log10(mag))))
            if mag == 0:
                ctx.tally("zero_inputs", "zero rate")
    for t in case["ham"] + case["jumps"]:
        if t[0] == 0:
            ctx.tally("zero_inputs", "zero prefactor")
    if case.get("extra_ham_labels"):
        ctx.tally("unused_inputs", "Hamiltonian label")
    if case.get("extra_jump_labels"):
        ctx.tally("unused_inputs", "jump label")
    if "hunused" in case["hcoeffs"] or "junused" in case["jcoeffs"]:
        ctx.tally("unused_inputs", "coefficient symbol")
    if any(t[2] in case["hcoeffs"] and t[2] != "1" for t in case["jumps"]):
        ctx.tally("unused_inputs", "rate symbol that is also a Hamiltonian symbol")
    for t in case["jumps"]:
        ctx.tally("jump_sites", len(t[3]))
        for l in t[3].values():
            f = flags_of(mats[l])
            ctx.tally("jump_factor_kind", case["ops"][l]["kind"])
            ctx.tally("shortcut_conj", "real:keep" if f["real"] else "generic:_conj")
            ctx.tally("shortcut_adjoint", "hermitian:keep" if f["herm"] else "generic:_H")
            ctx.tally("shortcut_product", "identity:skip" if f["ident"] else "generic:_mult_")
            if not f["ident"]:
                p = mats[l].conj().T @ mats[l]
                ctx.tally("shortcut_product_transpose", "symmetric:keep" if np.array_equal(p, p.T) else "generic:_T")
    for t in case["ham"]:
        for l in t[3].values():
            ctx.tally("shortcut_ham_transpose", "symmetric:keep" if flags_of(mats[l])["sym"] else "generic:_T")
    ctx.sample(case, 3)

    import copy as _copy
    ham_before = (_copy.deepcopy(dict(ham.coeffs_mapping)), sorted(ham.conversion_dictionary),
                  [repr(t) for t in ham.terms])
    call = case.get("call", "keywords")
    try:
        if call == "default" and (ket, bra) == ("_ket", "_bra"):
            lind = generate_lindbladian(ham, jarg, jdict, jcm)          # the documented defaults
        elif call == "positional":
            lind = generate_lindbladian(ham, jarg, jdict, jcm, ket, bra)
        else:
            lind = generate_lindbladian(ham, jarg, jdict, jcm, ket_suffix=ket, bra_suffix=bra)
    except Exception as e:          # noqa: BLE001
        ctx.oracle_fail(case, f"generate_lindbladian raised {type(e).__name__}: {str(e)[:200]}")
        return

    # ------------- stage B
    pm = parse_model(model_out)
    if pm is None:
        ctx.corr_fail(case, f"model answered {model_out!r} but the implementation completed")
    else:
        it = canon_terms_from_impl(lind.terms)
        if it != pm[0]:
            only_i = [x for x in it if x not in pm[0]]
            only_m = [x for x in pm[0] if x not in it]
            ctx.corr_fail(case, f"terms: only impl {only_i[:3]} only model {only_m[:3]}")
        ik = sorted(lind.conversion_dictionary)
        if ik != pm[1]:
            ctx.corr_fail(case, f"conversion_dictionary keys: only impl {sorted(set(ik) - set(pm[1]))[:4]} "
                                f"only model {sorted(set(pm[1]) - set(ik))[:4]}")
        ic = sorted(lind.coeffs_mapping)
        if ic != pm[2]:
            ctx.corr_fail(case, f"coeffs_mapping keys: impl {ic} model {pm[2]}")

    # ------------- hypotheses `Fits` of theorem lindblad_denote_eq, validated on this live call
    bad = dictionary_problems(lind, mats, jcm, flags_of)
    if bad:
        ctx.oracle_fail(case, "conversion_dictionary / coeffs_mapping values: " + "; ".join(bad[:4]))
    else:
        ctx.hyp_validated += 1

    # ------------- stage C
    dims2 = {}
    for s in order:
        dims2[s + ket] = sites[s]
    for s in order:
        dims2[s + bra] = sites[s]
    order2 = [s + ket for s in order] + [s + bra for s in order]
    if len(set(order2)) != len(order2):
        return                          # never generated: suffixes keep identifiers distinct
    probs = []
    try:
        gen = dense_of_terms(lind.terms, lind.conversion_dictionary, lind.coeffs_mapping, order2, dims2)
    except Exception as e:          # noqa: BLE001
        ctx.oracle_fail(case, f"generated Lindbladian cannot be evaluated: {type(e).__name__}: {str(e)[:160]}")
        return
    # the caller's Hamiltonian is an input: it must not be modified, and a Lindbladian built earlier must not change
    # when another one is built from the same Hamiltonian object with different rates
    ham_after = (dict(ham.coeffs_mapping), sorted(ham.conversion_dictionary), [repr(t) for t in ham.terms])
    if ham_after != ham_before:
        probs.append("generate_lindbladian modified the Hamiltonian it was given "
                     f"(coefficient mapping keys {sorted(ham_before[0])} -> {sorted(ham_after[0])})")
    if jcm:
        try:
            jcm2 = {k: (2 * v + 0.375) for k, v in jcm.items()}
            generate_lindbladian(ham, jarg, jdict, jcm2, ket_suffix=ket, bra_suffix=bra)
            gen_again = dense_of_terms(lind.terms, lind.conversion_dictionary, lind.coeffs_mapping, order2, dims2)
            if np.linalg.norm(gen_again - gen) > 1e-12 * np.linalg.norm(gen):
                probs.append("a Lindbladian built earlier changed its value after another one was built from the same "
                             "Hamiltonian with different rates")
        except Exception as e:      # noqa: BLE001
            probs.append(f"second generate_lindbladian on the same Hamiltonian raised {type(e).__name__}: {str(e)[:120]}")
    hcm = {k: cval(v) for k, v in case["hcoeffs"].items()}
    Hd = dense_of_terms([(Fraction(t[0], t[1]), t[2], t[3]) for t in case["ham"]], mats, hcm, order, sites)
    D = Hd.shape[0]
    one = np.eye(D)
    gksl = np.kron(Hd, one) - np.kron(one, Hd.T)
    known = np.zeros_like(gksl)
    dense_jumps = []
    # data scale: the sum of the norms of the pieces the formula adds up (>= ||GKSL||, no absolute floor, so the
    # comparison is as sharp for operators of size 1e-8 as for operators of size 1e+8)
    scale = 0.0
    for t in case["ham"]:
        piece = abs(float(Fraction(t[0], t[1])) * complex(hcm[t[2]])) * np.linalg.norm(embed(t[3], order, sites, mats))
        scale += 2.0 * piece * math.sqrt(D)
    for t in case["jumps"]:
        rate = float(Fraction(t[0], t[1])) * complex(cval(case["jcoeffs"][t[2]]))
        L = embed(t[3], order, sites, mats)
        LdL = L.conj().T @ L
        gksl += 1j * rate * (np.kron(L, L.conj()) - 0.5 * np.kron(LdL, one) - 0.5 * np.kron(one, LdL.T))
        known += 1j * rate * np.kron(one, LdL.T)
        dense_jumps.append((cmath.sqrt(rate), L))
        scale += abs(rate) * (np.linalg.norm(L) ** 2 + np.linalg.norm(LdL) * math.sqrt(D))
    tol = 1e-9 * scale

    def classify(matrix, name):
        """-> None (equals GKSL) | 'F-C15' (residual is exactly the known term) | text (other)"""
        res = matrix - gksl
        if np.linalg.norm(res) <= tol:
            return None
        if np.linalg.norm(known) > tol and np.linalg.norm(res - known) <= tol:
            return "F-C15"
        return (f"{name}: ||generated - GKSL|| = {np.linalg.norm(res):.3e}, "
                f"||generated - GKSL - i*sum gamma 1(x)(LdL)^T|| = {np.linalg.norm(res - known):.3e} (tol {tol:.1e})")

    verdict = classify(gen, "generate_lindbladian")
    if verdict == "F-C15":
        ctx.oracle_fail(case, f"generate_lindbladian: residual (generated - GKSL) equals +i*sum_k gamma_k 1(x)(L_k^dagger L_k)^T "
                              f"(norm {np.linalg.norm(known):.3e})", finding="F-C15")
    elif verdict is not None:
        probs.append(verdict)

    # the dense reference construction: rate = coefficient ** 2
    try:
        ex = exact_lindbladian(Hd.copy(), [(c, L.copy()) for c, L in dense_jumps])
        v2 = classify(ex, "exact_lindbladian")
        if v2 == "F-C15":
            ctx.oracle_fail(case, "exact_lindbladian: residual (dense - GKSL) equals +i*sum_k gamma_k 1(x)(L_k^dagger L_k)^T",
                            finding="F-C15")
        elif v2 is not None:
            probs.append(v2)
        if np.linalg.norm(ex - gen) > tol:
            probs.append(f"symbolic and dense constructions disagree under rate = coefficient^2: "
                         f"||generate_lindbladian - exact_lindbladian|| = {np.linalg.norm(ex - gen):.3e}")
        if len(dense_jumps) >= 2 and all(abs(complex(c).imag) == 0.0 for c, _ in dense_jumps):
            # (only for real coefficients: a bare c*L carries |c|^2 while the tuple (c, L) carries c^2)
            # mixed lists: a bare operator has rate 1 whatever precedes it; c*L given bare equals (c, L)
            (c0, L0), rest = dense_jumps[0], dense_jumps[1:]
            mixed1 = exact_lindbladian(Hd.copy(), [(c0, L0.copy())] + [c * L for c, L in rest])
            mixed2 = exact_lindbladian(Hd.copy(), [c * L for c, L in rest] + [(c0, L0.copy())])
            for nm, mx in (("tuple first", mixed1), ("bare first", mixed2)):
                if np.linalg.norm(mx - ex) > tol:
                    probs.append(f"exact_lindbladian with a mixed list of (coefficient, L) tuples and bare operators "
                                 f"({nm}) differs from the all-tuple form by {np.linalg.norm(mx - ex):.3e}")
        if not np.any(Hd.imag) and all(not np.any(L.imag) and complex(c).imag == 0 for c, L in dense_jumps) \
                and case.get("family") in ("dtype", "api"):
            # the same problem in real-typed arrays (float64 Hamiltonian, float64 / float32-representable jumps,
            # Python-float / int / NumPy coefficients, Fortran order)
            ctx.tally("exact_lindbladian_input_types", "real-typed")
            exr = exact_lindbladian(np.asfortranarray(Hd.real.copy()),
                                    [(np.float64(complex(c).real), np.asfortranarray(L.real.copy()))
                                     for c, L in dense_jumps])
            if np.linalg.norm(exr - ex) > tol:
                probs.append(f"exact_lindbladian on real-typed arrays differs from the complex-typed call by "
                             f"{np.linalg.norm(exr - ex):.3e}")
        if case["form"] == "bare" or case["form"] == "single-bare":
            ex1 = exact_lindbladian(Hd.copy(), [L.copy() for _, L in dense_jumps])       # bare form: rate 1
            if np.linalg.norm(ex1 - gen) > tol:
                probs.append("bare jump operators: symbolic and dense constructions disagree")
    except Exception as e:          # noqa: BLE001
        probs.append(f"exact_lindbladian raised {type(e).__name__}: {str(e)[:120]}")

    # consequences, where the finding does not mask them
    if njumps == 0:
        Lm = gen
        # trace functional: sum_i L[(i,i),(k,l)] = 0
        trv = np.eye(D).reshape(-1)
        if np.linalg.norm(trv @ Lm) > tol:
            probs.append(f"trace not preserved: ||vec(1)^T L|| = {np.linalg.norm(trv @ Lm):.3e}")
        if case["herm_h"]:
            # Hermiticity: with the swap S (vec(rho^T)), S conj(-iL) S = -iL
            idx = np.arange(D * D).reshape(D, D).T.reshape(-1)
            G = -1j * Lm
            if np.linalg.norm(G.conj()[np.ix_(idx, idx)] - G) > tol:
                probs.append("Hermiticity not preserved by the generator")
        if D <= 9 and float(np.linalg.norm(case["t"] * Lm, 2)) > 40.0:
            ctx.boundary_skipped += 1           # exp(-itL) of a generator of size >> 1: round-off of the reference
        elif D <= 9:
            nprng = np.random.default_rng(hash_str(key))
            A = nprng.normal(size=(D, D)) + 1j * nprng.normal(size=(D, D))
            rho = A @ A.conj().T
            rho /= np.trace(rho).real
            prop = taylor_expm(-1j * case["t"] * Lm)
            out = (prop @ rho.reshape(-1)).reshape(D, D)
            # round-off of the propagator scales with its norm (it grows for non-Hermitian H)
            ptol = 1e-9 * max(1.0, float(np.linalg.norm(prop, 2))) * max(1.0, float(np.linalg.norm(case["t"] * Lm, 2)))
            # round-off of the generator itself: its pieces (size `scale`) may cancel (H = c*1 with |c| = 1e8 gives L = 0
            # up to noise of size eps*scale, which is neither Hermiticity- nor trace-preserving); that noise enters the
            # propagated state with the factor t * ||prop||
            ptol = max(ptol, 1e-13 * abs(case["t"]) * scale * max(1.0, float(np.linalg.norm(prop, 2))))
            if abs(np.trace(out) - 1) > ptol:
                probs.append(f"tr exp(-itL)rho = {np.trace(out):.6g} (tol {ptol:.1e})")
            if case["herm_h"]:
                if np.linalg.norm(out - out.conj().T) > ptol:
                    probs.append("exp(-itL)rho is not Hermitian")
                if float(np.linalg.norm(case["t"] * Hd, 2)) > 40.0:
                    ctx.boundary_skipped += 1       # exp(-itH) of a huge H (e.g. a large multiple of 1): reference inexact
                else:
                    U = taylor_expm(-1j * case["t"] * Hd)
                    if np.linalg.norm(out - U @ rho @ U.conj().T) > 1e-9 * max(1.0, np.linalg.norm(U) ** 2):
                        probs.append("exp(-itL)rho differs from U rho U^dagger")
            ctx.hyp_validated += 1
    if probs:
        ctx.oracle_fail(case, "; ".join(probs[:4]))


def shrink(case):
    import copy
    for i in range(len(case["jumps"])):
        c = copy.deepcopy(case)
        del c["jumps"][i]
        if "bare_idx" in c:
            c["bare_idx"] = [j - (j > i) for j in c["bare_idx"] if j != i]
        if not c["jumps"]:
            c["form"] = "empty"
        elif c["form"].startswith("single") and len(c["jumps"]) != 1:
            c["form"] = "tuples"
        yield c
    # the decorations of the input-space families, one at a time
    for k in ("call", "ham_form", "rate_types", "extra_ham_labels"):
        if k in case:
            c = copy.deepcopy(case)
            del c[k]
            yield c
    for k in ("dtype", "layout", "exp"):
        if any(k in o for o in case["ops"].values()):
            c = copy.deepcopy(case)
            for o in c["ops"].values():
                o.pop(k, None)
                if k == "dtype":
                    o.pop("mul", None)
            yield c
    used_labels = set(ham_labels(case)) | set(jump_labels(case))
    if any(l not in used_labels for l in case["ops"]):
        c = copy.deepcopy(case)
        c["ops"] = {l: o for l, o in c["ops"].items() if l in used_labels}
        yield c
    for i in range(len(case["ham"])):
        c = copy.deepcopy(case)
        del c["ham"][i]
        yield c
    for which in ("jumps", "ham"):
        for i, t in enumerate(case[which]):
            if len(t[3]) > 1:
                for s in t[3]:
                    c = copy.deepcopy(case)
                    del c[which][i][3][s]
                    yield c
    if case["form"] not in ("tuples", "empty", "none"):
        pass
    if case.get("extra_jump_labels"):
        c = copy.deepcopy(case)
        c["extra_jump_labels"] = []
        yield c
    if (case["ket"], case["bra"]) != ("_ket", "_bra"):
        yield dict(case, ket="_ket", bra="_bra")
    used = set()
    for t in case["ham"] + case["jumps"]:
        used.update(t[3])
    for s in list(case["sites"]):
        if s not in used and len(case["sites"]) > 1:
            c = copy.deepcopy(case)
            del c["sites"][s]
            yield c
