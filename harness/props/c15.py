"""C15 — generated Lindbladians are the GKSL generator on the doubled space.

Stage B (correspondence with Lean model Ptn.C15): the harness sends Hamiltonian terms, jump
operators, the key lists of the dictionaries and the *flags* (symmetric / real / Hermitian /
identity, computed here from the exactly representable matrices) to the model, which is a literal
port of `generate_lindbladian`; the generated term list (prefactor, coefficient symbol, site ↦ label)
and the key sets of `conversion_dictionary` / `coeffs_mapping` are compared after canonicalising
dict and list orders.
Stage C (oracle): the generated terms are evaluated densely by the harness's own kron evaluation
on the space (ket sites in sorted order) ⊗ (bra sites in sorted order) and compared with the dense
GKSL formula of the property.  residual = generated − GKSL is compared with the term of the open
finding F-C15, +i·Σ_k γ_k (1 ⊗ (L_k†L_k)ᵀ): equal to 1e-9 → KNOWN-FINDING; anything else → violation.
`exact_lindbladian` is judged the same way and compared with the symbolic construction under
rate = coefficient².  Hamiltonian-only Lindbladians (not masked by the finding): trace and
Hermiticity preservation of the generator and of exp(−it𝓛)ρ.
"""
from __future__ import annotations

import cmath
import math
import random
from fractions import Fraction

import numpy as np

from harness.common import hash_str

RULE = ("cases: 1-3 sites of dimension 2-3; Hamiltonian = 0-4 tensor-product terms with Fraction "
        "prefactors and symbolic coefficients; 0-3 jump operators on 1-3 sites whose factors are drawn "
        "from identity / real-symmetric / complex-Hermitian / real-non-symmetric / complex-symmetric / "
        "generic matrices with entries in (Z+iZ)/2 (so every labelling shortcut is exercised and the "
        "flags are exact); symbolic rates (positive, negative, complex), all accepted input forms of "
        "the jump list, custom ket/bra suffixes. non-trivial = distinct case with at least one jump "
        "operator or a non-symmetric Hamiltonian factor")
PARTIAL = ["the property is false of the code (open finding F-C15, theorem anticomm_bra_sign_witness): "
           "what is checked is generated == GKSL + i*sum_k gamma_k 1 (x) (L_k^dagger L_k)^T exactly",
           "the matrix denotation (theorem lindblad_denote_eq: n-site Kronecker product over an arbitrary finite "
           "family of sites) is proved relative to the hypotheses `Fits`: the final conversion_dictionary gives "
           "the derived labels (_T, _conj, _H, _mult_) their values, the flags are sound, '<sym>*j' maps to "
           "i*rate, ket/bra identifiers are disjoint; that the *values* stored by the code meet these "
           "hypotheses, and that numpy.kron over the sorted site list is the n-site Kronecker product, is "
           "decided by the dense oracle only",
           "exp(-itL) itself is not formalised: trace preservation is proved at generator level "
           "(vec(1)^T L = 0, theorem gksl_trace_preserving); Hermiticity preservation is oracle-only",
           "the numerical classification (issymmetric / isreal / ishermitian / allclose(eye)) is an input of "
           "the model; the harness recomputes it exactly on matrices with entries in (Z+iZ)/2"]
ASSUMPTIONS = ["every label used by a term is a key of the corresponding dictionary (otherwise KeyError); "
               "labels contain no '_' so the derived labels (_T, _conj, _H, _mult_) cannot collide with user labels",
               "a label denotes the same matrix in the Hamiltonian dictionary and in the jump dictionary",
               "every jump operator comes with a rate symbol the caller maps: for jump operators passed as bare "
               "TensorProducts (implicit symbol '1') jump_coeff_mapping contains the key '1' (otherwise the "
               "generated coefficient '1*j' is missing from coeffs_mapping); the harness always passes '1': 1 there"]

KINDS = ["I", "rs", "hc", "rn", "cs", "gc"]
FRACS = [Fraction(1), Fraction(1), Fraction(1, 2), Fraction(2), Fraction(3, 4), Fraction(1, 3),
         Fraction(-1), Fraction(-1, 2), Fraction(5, 3), Fraction(-3, 2)]


# ------------------------------------------------------------------ operator pool

def make_op(kind: str, d: int, seed: int) -> np.ndarray:
    """A d×d matrix with entries in (Z+iZ)/2 that has exactly the properties of `kind`."""
    rng = random.Random(seed * 7919 + d * 31 + KINDS.index(kind))

    def rmat(cplx):
        m = np.array([[rng.randint(-2, 2) / 2 for _ in range(d)] for _ in range(d)], dtype=complex)
        if cplx:
            m = m + 1j * np.array([[rng.randint(-2, 2) / 2 for _ in range(d)] for _ in range(d)])
        return m
    if kind == "I":
        return np.eye(d, dtype=complex)
    for _ in range(1000):
        if kind == "rs":
            a = rmat(False)
            m = a + a.T
        elif kind == "hc":
            a = rmat(True)
            m = a + a.conj().T
        elif kind == "rn":
            m = rmat(False)
        elif kind == "cs":
            a = rmat(True)
            m = a + a.T
        else:
            m = rmat(True)
        fl = flags_of(m)
        want = {"rs": (True, True, True), "hc": (False, False, True), "rn": (False, True, False),
                "cs": (True, False, False), "gc": (False, False, False)}[kind]
        if (fl["sym"], fl["real"], fl["herm"]) == want and not fl["ident"] and np.any(m):
            return m
    raise AssertionError("could not draw operator")


def flags_of(m: np.ndarray) -> dict:
    """exact classification (entries are small dyadic rationals, products are exact in binary64)"""
    return {"sym": bool(np.array_equal(m, m.T)), "real": bool(np.all(m.imag == 0)),
            "herm": bool(np.array_equal(m, m.conj().T)),
            "ident": bool(np.array_equal(m, np.eye(m.shape[0])))}


# ------------------------------------------------------------------ case generation

def _rand_val(rng, allow_complex=True, positive=False):
    v = round(rng.uniform(0.2, 1.5), 3)
    r = rng.random()
    if positive:
        return [v, 0.0]
    if r < 0.15:
        return [-v, 0.0]
    if allow_complex and r < 0.3:
        return [v, round(rng.uniform(-1, 1), 3)]
    return [v, 0.0]


def gen_case(rng, force=None):
    force = force or {}
    nsites = force.get("nsites", rng.choice([1, 1, 2, 2, 2, 3]))
    dims = [rng.choice([2, 2, 3]) for _ in range(nsites)]
    if nsites == 3 and dims.count(3) == 3:
        dims[rng.randrange(3)] = 2
    sites = {f"s{i}": dims[i] for i in range(nsites)}
    if rng.random() < 0.15:                     # identifiers that are prefixes of each other
        names = ["n", "n1", "n10"][:nsites]
        sites = {names[i]: dims[i] for i in range(nsites)}
    site_ids = list(sites)
    ops = {}

    def pick_label(d, kinds=KINDS):
        kind = rng.choice(kinds)
        idx = 0 if kind == "I" else rng.randrange(2)
        label = f"{kind}{d}x{idx}" if kind != "I" else f"I{d}"
        ops[label] = {"d": d, "kind": kind, "seed": idx}
        return label

    herm_h = force.get("herm_h", rng.random() < 0.5)
    njumps = force.get("njumps", rng.choice([0, 1, 1, 2, 2, 3]))
    nham = rng.choice([0, 1, 2, 2, 3, 4]) if njumps else rng.choice([1, 2, 3, 4])
    hcoeffs = {"1": [1.0, 0.0]}
    ham = []
    for _ in range(nham):
        k = rng.randint(1, nsites)
        ss = rng.sample(site_ids, k)
        kinds = ["I", "rs", "hc"] if herm_h else KINDS
        tp = {s: pick_label(sites[s], kinds) for s in ss}
        coeff = rng.choice(["1", "J", "g"])
        if coeff not in hcoeffs:
            hcoeffs[coeff] = _rand_val(rng, allow_complex=not herm_h)
        fr = rng.choice(FRACS)
        ham.append([fr.numerator, fr.denominator, coeff, tp])
    jumps, jcoeffs = [], {}
    form = "tuples"
    if njumps == 0:
        form = rng.choice(["none", "empty"])
    elif rng.random() < 0.15:
        form = "bare"
    elif njumps == 1 and rng.random() < 0.3:
        form = rng.choice(["single-tuple", "single-bare"])
    for j in range(njumps):
        k = min(nsites, rng.choice([1, 1, 2, 2, 3]))
        ss = rng.sample(site_ids, k)
        tp = {s: pick_label(sites[s]) for s in ss}
        if all(ops[l]["kind"] == "I" for l in tp.values()) and rng.random() < 0.8:
            s = ss[0]
            tp[s] = pick_label(sites[s], KINDS[1:])
        if form in ("bare", "single-bare"):
            coeff, fr = "1", Fraction(1)
            jcoeffs["1"] = [1.0, 0.0]
        else:
            coeff = rng.choice(["gam0", "gam1", "1"])
            if coeff == "1":
                jcoeffs["1"] = [1.0, 0.0]
            elif coeff not in jcoeffs:
                jcoeffs[coeff] = _rand_val(rng)
            fr = rng.choice(FRACS)
        jumps.append([fr.numerator, fr.denominator, coeff, tp])
    # labels declared in the jump dictionary but not used by any jump operator
    extra = []
    if njumps and rng.random() < 0.3:
        d = rng.choice(list(sites.values()))
        extra.append(pick_label(d))
    suff = rng.choice([["_ket", "_bra"]] * 4 + [["K", "B"], ["_bra", "_ket"], ["_a", "_ab"]])
    return {"sites": sites, "ops": ops, "ham": ham, "hcoeffs": hcoeffs, "jumps": jumps,
            "jcoeffs": jcoeffs, "form": form, "extra_jump_labels": extra, "ket": suff[0], "bra": suff[1],
            "herm_h": herm_h, "t": rng.choice([0.1, 0.3, 0.7])}


def gen_cases(ctx):
    rng = ctx.rng
    cases = []
    n = ctx.n(500, 6000)
    for i in range(n):
        force = {}
        if i % 5 == 0:
            force = {"njumps": 0}                   # Hamiltonian-only: consequences not masked
        cases.append(gen_case(rng, force))
    return cases


# ------------------------------------------------------------------ building the library objects

def matrices(case):
    return {l: make_op(o["kind"], o["d"], o["seed"]) for l, o in case["ops"].items()}


def cval(v):
    return complex(v[0], v[1]) if v[1] else float(v[0])


def ham_labels(case):
    out = []
    for t in case["ham"]:
        for l in t[3].values():
            if l not in out:
                out.append(l)
    return out


def jump_labels(case):
    out = []
    for t in case["jumps"]:
        for l in t[3].values():
            if l not in out:
                out.append(l)
    for l in case.get("extra_jump_labels", []):
        if l not in out:
            out.append(l)
    return out


def build_objects(case):
    from pytreenet.operators.hamiltonian import Hamiltonian
    from pytreenet.operators.tensorproduct import TensorProduct
    mats = matrices(case)
    hterms = [(Fraction(t[0], t[1]), t[2], TensorProduct(dict(t[3]))) for t in case["ham"]]
    hdict = {l: mats[l].copy() for l in ham_labels(case)}
    hcm = {k: cval(v) for k, v in case["hcoeffs"].items()}
    ham = Hamiltonian(hterms, hdict, hcm)
    jdict = {l: mats[l].copy() for l in jump_labels(case)}
    jcm = {k: cval(v) for k, v in case["jcoeffs"].items()}
    form = case["form"]
    jt = [(Fraction(t[0], t[1]), t[2], TensorProduct(dict(t[3]))) for t in case["jumps"]]
    if form == "none":
        jarg = None
    elif form == "empty":
        jarg = []
    elif form == "bare":
        jarg = [t[2] for t in jt]
    elif form == "single-tuple":
        jarg = jt[0]
    elif form == "single-bare":
        jarg = jt[0][2]
    else:
        jarg = jt
    return ham, jarg, jdict, jcm, mats


# ------------------------------------------------------------------ model request

def derived_sym_labels(case, mats):
    """the derived labels (…_H, …_mult_…) of the jump dictionary that are symmetric"""
    out = []
    for l in jump_labels(case):
        m = mats[l]
        f = flags_of(m)
        if not f["ident"] and not f["herm"]:
            if f["sym"]:
                out.append(l + "_H")
            adj = l + "_H"
        else:
            adj = l
        if not f["ident"]:
            p = m.conj().T @ m
            if np.array_equal(p, p.T):
                out.append(adj + "_mult_" + l)
    return out


def model_line(case, cmd="gen"):
    mats = matrices(case)
    toks = ["C15", cmd, case["ket"], case["bra"]]

    def term_toks(t):
        r = [str(t[0]), str(t[1]), t[2], str(len(t[3]))]
        for s, l in t[3].items():
            r += [s, l]
        return r
    toks += ["H", str(len(case["ham"]))]
    for t in case["ham"]:
        toks += term_toks(t)
    hl = ham_labels(case)
    toks += ["HL", str(len(hl))]
    for l in hl:
        toks += [l, "1" if flags_of(mats[l])["sym"] else "0"]
    toks += ["HC", str(len(case["hcoeffs"]))] + list(case["hcoeffs"])
    toks += ["J", str(len(case["jumps"]))]
    for t in case["jumps"]:
        toks += term_toks(t)
    jl = jump_labels(case)
    toks += ["JL", str(len(jl))]
    for l in jl:
        f = flags_of(mats[l])
        toks += [l, "".join("1" if f[k] else "0" for k in ("real", "herm", "ident", "sym"))]
    toks += ["JC", str(len(case["jcoeffs"]))] + list(case["jcoeffs"])
    ds = derived_sym_labels(case, mats)
    toks += ["DS", str(len(ds))] + ds
    return " ".join(toks)


def canon_terms_from_model(s):
    if s == "":
        return []
    out = []
    for t in s.split(";"):
        fr, coeff, ops = t.split("|")
        out.append(f"{fr}|{coeff}|" + ",".join(sorted(o for o in ops.split(",") if o)))
    return sorted(out)


def canon_terms_from_impl(terms):
    out = []
    for fr, coeff, tp in terms:
        fr = Fraction(fr)
        ops = []
        for s, l in tp.items():
            ops.append(f"{s}:{l if isinstance(l, str) else '<array>'}")
        out.append(f"{fr.numerator}/{fr.denominator}|{coeff}|" + ",".join(sorted(ops)))
    return sorted(out)


def parse_model(out):
    if not out.startswith("terms="):
        return None
    parts = out.split(" ")
    d = {}
    for p in parts:
        k, _, v = p.partition("=")
        d[k] = v
    return (canon_terms_from_model(d.get("terms", "")),
            sorted(x for x in d.get("keys", "").split(",") if x),
            sorted(x for x in d.get("coeffs", "").split(",") if x))


# ------------------------------------------------------------------ dense evaluation (harness's own)

def kron_all(mats):
    out = np.eye(1, dtype=complex)
    for m in mats:
        out = np.kron(out, m)
    return out


def embed(tp, order, dims, conv):
    """(x)_{s in order} (conv[tp[s]] if s in tp else 1)"""
    return kron_all([np.asarray(conv[tp[s]], dtype=complex) if s in tp else np.eye(dims[s]) for s in order])


def dense_of_terms(terms, conv, coeffs, order, dims):
    D = int(np.prod([dims[s] for s in order])) if order else 1
    out = np.zeros((D, D), dtype=complex)
    for fr, coeff, tp in terms:
        for s in tp:
            if s not in dims:
                raise KeyError(f"term acts on unknown identifier {s!r}")
        out += float(Fraction(fr)) * complex(coeffs[coeff]) * embed(tp, order, dims, conv)
    return out


def taylor_expm(A):
    A = np.asarray(A, dtype=complex)
    n = A.shape[0]
    nrm = np.abs(A).sum(axis=0).max() if n else 0.0
    s = 0 if nrm <= 0.25 else int(math.ceil(math.log2(nrm / 0.25)))
    B = A / (2.0 ** s)
    term = np.eye(n, dtype=complex)
    acc = np.eye(n, dtype=complex)
    for j in range(1, 26):
        term = term @ B / j
        acc = acc + term
    for _ in range(s):
        acc = acc @ acc
    return acc


def dictionary_problems(lind, mats, jcm, flags_of):
    """The hypotheses of the denotation theorem on the values the code stored: every derived label
    carries its intended value (X_T = X^T, X_conj = conj X, X_H = X^dagger, A_mult_B = A B), every base
    label the caller's matrix, and '<sym>*j' = i * rate."""
    conv = lind.conversion_dictionary
    out = []

    def want(label):
        if label.endswith("_T"):
            b = want(label[:-2])
            return None if b is None else b.T
        if label.endswith("_conj"):
            b = want(label[:-5])
            return None if b is None else b.conj()
        if "_mult_" in label:
            l, r = label.split("_mult_", 1)
            a, b = want(l), want(r)
            return None if a is None or b is None else a @ b
        if label.endswith("_H"):
            b = want(label[:-2])
            return None if b is None else b.conj().T
        return mats.get(label)
    for k, v in conv.items():
        w = want(k)
        if w is None:
            out.append(f"unexpected key {k!r}")
        elif np.shape(v) != w.shape or not np.array_equal(np.asarray(v), w):
            out.append(f"{k!r} does not hold the value its name promises")
    for k, v in jcm.items():
        if (k + "*j") not in lind.coeffs_mapping or lind.coeffs_mapping[k + "*j"] != 1j * v:
            out.append(f"coeffs_mapping[{k + '*j'!r}] is not i*rate")
    return out


# ------------------------------------------------------------------ run

def run(ctx):
    cases = gen_cases(ctx)
    outs = ctx.lean.batch([model_line(c) for c in cases])
    for c, o in zip(cases, outs):
        if ctx.time_left() < 0:
            break
        run_case(ctx, c, o)


def run_case(ctx, case, model_out=None):
    from pytreenet.operators.lindbladian import generate_lindbladian
    from pytreenet.operators.exact_operators import exact_lindbladian
    if model_out is None:
        model_out = ctx.lean.batch([model_line(case)])[0]
    sites = case["sites"]
    order = sorted(sites)
    ket, bra = case["ket"], case["bra"]
    njumps = len(case["jumps"])
    mats = matrices(case)
    ham, jarg, jdict, jcm, _ = build_objects(case)
    nonsym_h = any(not flags_of(mats[l])["sym"] for l in ham_labels(case))
    key = repr((sorted(sites.items()), case["ham"], case["jumps"], sorted(case["ops"].items(), key=str),
                case["form"], ket, bra))
    ctx.count(key, nontrivial=(njumps > 0 or nonsym_h), corr=True)
    ctx.tally("sites", len(sites))
    ctx.tally("total_dimension", int(np.prod(list(sites.values()))))
    ctx.tally("jump_operators", njumps)
    ctx.tally("hamiltonian_terms", len(case["ham"]))
    ctx.tally("jump_input_form", case["form"])
    ctx.tally("suffixes", f"{ket}/{bra}")
    for t in case["jumps"]:
        ctx.tally("jump_sites", len(t[3]))
        for l in t[3].values():
            f = flags_of(mats[l])
            ctx.tally("jump_factor_kind", case["ops"][l]["kind"])
            ctx.tally("shortcut_conj", "real:keep" if f["real"] else "generic:_conj")
            ctx.tally("shortcut_adjoint", "hermitian:keep" if f["herm"] else "generic:_H")
            ctx.tally("shortcut_product", "identity:skip" if f["ident"] else "generic:_mult_")
            if not f["ident"]:
                p = mats[l].conj().T @ mats[l]
                ctx.tally("shortcut_product_transpose", "symmetric:keep" if np.array_equal(p, p.T) else "generic:_T")
    for t in case["ham"]:
        for l in t[3].values():
            ctx.tally("shortcut_ham_transpose", "symmetric:keep" if flags_of(mats[l])["sym"] else "generic:_T")
    ctx.sample(case, 3)

    import copy as _copy
    ham_before = (_copy.deepcopy(dict(ham.coeffs_mapping)), sorted(ham.conversion_dictionary),
                  [repr(t) for t in ham.terms])
    try:
        lind = generate_lindbladian(ham, jarg, jdict, jcm, ket_suffix=ket, bra_suffix=bra)
    except Exception as e:          # noqa: BLE001
        ctx.oracle_fail(case, f"generate_lindbladian raised {type(e).__name__}: {str(e)[:200]}")
        return

    # ------------- stage B
    pm = parse_model(model_out)
    if pm is None:
        ctx.corr_fail(case, f"model answered {model_out!r} but the implementation completed")
    else:
        it = canon_terms_from_impl(lind.terms)
        if it != pm[0]:
            only_i = [x for x in it if x not in pm[0]]
            only_m = [x for x in pm[0] if x not in it]
            ctx.corr_fail(case, f"terms: only impl {only_i[:3]} only model {only_m[:3]}")
        ik = sorted(lind.conversion_dictionary)
        if ik != pm[1]:
            ctx.corr_fail(case, f"conversion_dictionary keys: only impl {sorted(set(ik) - set(pm[1]))[:4]} "
                                f"only model {sorted(set(pm[1]) - set(ik))[:4]}")
        ic = sorted(lind.coeffs_mapping)
        if ic != pm[2]:
            ctx.corr_fail(case, f"coeffs_mapping keys: impl {ic} model {pm[2]}")

    # ------------- hypotheses `Fits` of theorem lindblad_denote_eq, validated on this live call
    bad = dictionary_problems(lind, mats, jcm, flags_of)
    if bad:
        ctx.oracle_fail(case, "conversion_dictionary / coeffs_mapping values: " + "; ".join(bad[:4]))
    else:
        ctx.hyp_validated += 1

    # ------------- stage C
    dims2 = {}
    for s in order:
        dims2[s + ket] = sites[s]
    for s in order:
        dims2[s + bra] = sites[s]
    order2 = [s + ket for s in order] + [s + bra for s in order]
    if len(set(order2)) != len(order2):
        return                          # never generated: suffixes keep identifiers distinct
    probs = []
    try:
        gen = dense_of_terms(lind.terms, lind.conversion_dictionary, lind.coeffs_mapping, order2, dims2)
    except Exception as e:          # noqa: BLE001
        ctx.oracle_fail(case, f"generated Lindbladian cannot be evaluated: {type(e).__name__}: {str(e)[:160]}")
        return
    # the caller's Hamiltonian is an input: it must not be modified, and a Lindbladian built earlier must not change
    # when another one is built from the same Hamiltonian object with different rates
    ham_after = (dict(ham.coeffs_mapping), sorted(ham.conversion_dictionary), [repr(t) for t in ham.terms])
    if ham_after != ham_before:
        probs.append("generate_lindbladian modified the Hamiltonian it was given "
                     f"(coefficient mapping keys {sorted(ham_before[0])} -> {sorted(ham_after[0])})")
    if jcm:
        try:
            jcm2 = {k: (2 * v + 0.375) for k, v in jcm.items()}
            generate_lindbladian(ham, jarg, jdict, jcm2, ket_suffix=ket, bra_suffix=bra)
            gen_again = dense_of_terms(lind.terms, lind.conversion_dictionary, lind.coeffs_mapping, order2, dims2)
            if np.linalg.norm(gen_again - gen) > 1e-12 * max(1.0, np.linalg.norm(gen)):
                probs.append("a Lindbladian built earlier changed its value after another one was built from the same "
                             "Hamiltonian with different rates")
        except Exception as e:      # noqa: BLE001
            probs.append(f"second generate_lindbladian on the same Hamiltonian raised {type(e).__name__}: {str(e)[:120]}")
    hcm = {k: cval(v) for k, v in case["hcoeffs"].items()}
    Hd = dense_of_terms([(Fraction(t[0], t[1]), t[2], t[3]) for t in case["ham"]], mats, hcm, order, sites)
    D = Hd.shape[0]
    one = np.eye(D)
    gksl = np.kron(Hd, one) - np.kron(one, Hd.T)
    known = np.zeros_like(gksl)
    dense_jumps = []
    for t in case["jumps"]:
        rate = float(Fraction(t[0], t[1])) * complex(cval(case["jcoeffs"][t[2]]))
        L = embed(t[3], order, sites, mats)
        LdL = L.conj().T @ L
        gksl += 1j * rate * (np.kron(L, L.conj()) - 0.5 * np.kron(LdL, one) - 0.5 * np.kron(one, LdL.T))
        known += 1j * rate * np.kron(one, LdL.T)
        dense_jumps.append((cmath.sqrt(rate), L))
    scale = max(1.0, np.linalg.norm(gksl))
    tol = 1e-9 * scale

    def classify(matrix, name):
        """-> None (equals GKSL) | 'F-C15' (residual is exactly the known term) | text (other)"""
        res = matrix - gksl
        if np.linalg.norm(res) <= tol:
            return None
        if np.linalg.norm(known) > tol and np.linalg.norm(res - known) <= tol:
            return "F-C15"
        return (f"{name}: ||generated - GKSL|| = {np.linalg.norm(res):.3e}, "
                f"||generated - GKSL - i*sum gamma 1(x)(LdL)^T|| = {np.linalg.norm(res - known):.3e} (tol {tol:.1e})")

    verdict = classify(gen, "generate_lindbladian")
    if verdict == "F-C15":
        ctx.oracle_fail(case, f"generate_lindbladian: residual (generated - GKSL) equals +i*sum_k gamma_k 1(x)(L_k^dagger L_k)^T "
                              f"(norm {np.linalg.norm(known):.3e})", finding="F-C15")
    elif verdict is not None:
        probs.append(verdict)

    # the dense reference construction: rate = coefficient ** 2
    try:
        ex = exact_lindbladian(Hd.copy(), [(c, L.copy()) for c, L in dense_jumps])
        v2 = classify(ex, "exact_lindbladian")
        if v2 == "F-C15":
            ctx.oracle_fail(case, "exact_lindbladian: residual (dense - GKSL) equals +i*sum_k gamma_k 1(x)(L_k^dagger L_k)^T",
                            finding="F-C15")
        elif v2 is not None:
            probs.append(v2)
        if np.linalg.norm(ex - gen) > tol:
            probs.append(f"symbolic and dense constructions disagree under rate = coefficient^2: "
                         f"||generate_lindbladian - exact_lindbladian|| = {np.linalg.norm(ex - gen):.3e}")
        if len(dense_jumps) >= 2 and all(abs(complex(c).imag) == 0.0 for c, _ in dense_jumps):
            # (only for real coefficients: a bare c*L carries |c|^2 while the tuple (c, L) carries c^2)
            # mixed lists: a bare operator has rate 1 whatever precedes it; c*L given bare equals (c, L)
            (c0, L0), rest = dense_jumps[0], dense_jumps[1:]
            mixed1 = exact_lindbladian(Hd.copy(), [(c0, L0.copy())] + [c * L for c, L in rest])
            mixed2 = exact_lindbladian(Hd.copy(), [c * L for c, L in rest] + [(c0, L0.copy())])
            for nm, mx in (("tuple first", mixed1), ("bare first", mixed2)):
                if np.linalg.norm(mx - ex) > tol:
                    probs.append(f"exact_lindbladian with a mixed list of (coefficient, L) tuples and bare operators "
                                 f"({nm}) differs from the all-tuple form by {np.linalg.norm(mx - ex):.3e}")
        if case["form"] == "bare" or case["form"] == "single-bare":
            ex1 = exact_lindbladian(Hd.copy(), [L.copy() for _, L in dense_jumps])       # bare form: rate 1
            if np.linalg.norm(ex1 - gen) > tol:
                probs.append("bare jump operators: symbolic and dense constructions disagree")
    except Exception as e:          # noqa: BLE001
        probs.append(f"exact_lindbladian raised {type(e).__name__}: {str(e)[:120]}")

    # consequences, where the finding does not mask them
    if njumps == 0:
        Lm = gen
        # trace functional: sum_i L[(i,i),(k,l)] = 0
        trv = np.eye(D).reshape(-1)
        if np.linalg.norm(trv @ Lm) > tol:
            probs.append(f"trace not preserved: ||vec(1)^T L|| = {np.linalg.norm(trv @ Lm):.3e}")
        if case["herm_h"]:
            # Hermiticity: with the swap S (vec(rho^T)), S conj(-iL) S = -iL
            idx = np.arange(D * D).reshape(D, D).T.reshape(-1)
            G = -1j * Lm
            if np.linalg.norm(G.conj()[np.ix_(idx, idx)] - G) > tol:
                probs.append("Hermiticity not preserved by the generator")
        if D <= 9:
            nprng = np.random.default_rng(hash_str(key))
            A = nprng.normal(size=(D, D)) + 1j * nprng.normal(size=(D, D))
            rho = A @ A.conj().T
            rho /= np.trace(rho).real
            prop = taylor_expm(-1j * case["t"] * Lm)
            out = (prop @ rho.reshape(-1)).reshape(D, D)
            # round-off of the propagator scales with its norm (it grows for non-Hermitian H)
            ptol = 1e-9 * max(1.0, float(np.linalg.norm(prop, 2))) * max(1.0, float(np.linalg.norm(case["t"] * Lm, 2)))
            if abs(np.trace(out) - 1) > ptol:
                probs.append(f"tr exp(-itL)rho = {np.trace(out):.6g} (tol {ptol:.1e})")
            if case["herm_h"]:
                if np.linalg.norm(out - out.conj().T) > ptol:
                    probs.append("exp(-itL)rho is not Hermitian")
                U = taylor_expm(-1j * case["t"] * Hd)
                if np.linalg.norm(out - U @ rho @ U.conj().T) > 1e-9 * max(1.0, np.linalg.norm(U) ** 2):
                    probs.append("exp(-itL)rho differs from U rho U^dagger")
            ctx.hyp_validated += 1
    if probs:
        ctx.oracle_fail(case, "; ".join(probs[:4]))


def shrink(case):
    import copy
    for i in range(len(case["jumps"])):
        c = copy.deepcopy(case)
        del c["jumps"][i]
        if not c["jumps"]:
            c["form"] = "empty"
        elif c["form"].startswith("single") and len(c["jumps"]) != 1:
            c["form"] = "tuples"
        yield c
    for i in range(len(case["ham"])):
        c = copy.deepcopy(case)
        del c["ham"][i]
        yield c
    for which in ("jumps", "ham"):
        for i, t in enumerate(case[which]):
            if len(t[3]) > 1:
                for s in t[3]:
                    c = copy.deepcopy(case)
                    del c[which][i][3][s]
                    yield c
    if case["form"] not in ("tuples", "empty", "none"):
        pass
    if case.get("extra_jump_labels"):
        c = copy.deepcopy(case)
        c["extra_jump_labels"] = []
        yield c
    if (case["ket"], case["bra"]) != ("_ket", "_bra"):
        yield dict(case, ket="_ket", bra="_bra")
    used = set()
    for t in case["ham"] + case["jumps"]:
        used.update(t[3])
    for s in list(case["sites"]):
        if s not in used and len(case["sites"]) > 1:
            c = copy.deepcopy(case)
            del c["sites"][s]
            yield c
