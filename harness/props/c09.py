"""C09 — BUG integrators: the step the scheme defines, conservation, canonical root, shape contracts.

Stage B: the order of local Galerkin evolutions (observed through the guarded time_evolve hook) is compared
with the Lean model Ptn.C09 (children before parents, root last), children taken in the order the run visited;
the events of the same run that concern the gauge (centre moves with their QR mode, pulls, contract_all_children,
split_node_replace with the QR kind behind it, the root's replace_tensor; `GaugeObserver`) are compared EXACTLY with
the gauge machine Ptn.C09.Gauge (`C09 gauge`), and every new basis tensor is checked to be an isometry toward the parent.
Stage C: (i) step-equality clause: for states whose bonds equal their Schmidt ranks the state after one step
equals an independent dense reference of the BUG scheme (harness/bugref.py), both integrators, both copy
strategies; (ii) other clauses on arbitrary (also redundant-bond) states over several steps and a truncation grid.
"""
from __future__ import annotations

import random

import numpy as np

from harness import gen, dense, algos, bugref
from harness.props import c05, c06

RULE = ("cases: random trees 2..6 nodes; 'equality' cases: states with bonds = Schmidt ranks, truncation disabled, "
        "both integrators x both copy strategies vs dense reference BUG; 'contract' cases: arbitrary bonds incl. "
        "redundant ones, 2 steps, truncation grid for the rank-adaptive variant; saturated two-node cases; plus real "
        "TTNS/TTNO pairs on random trees with 2..7 nodes whose cache reads during one BUG / FixedBUG step (tagged old / "
        "new) are compared with the environment machine; plus the input-space audit families (one-node trees, non-diagonal "
        "TTNOs, caller states already canonical at the root / elsewhere, default configuration objects, Chebyshev / sparse "
        "modes, real / integer / single-precision tensors, magnitudes 1e-8..1e8 with tolerances relative to the data, "
        "physical dimension 1, prefix identifiers, read-only tensors, reset / setter histories, a second consecutive "
        "fixed-rank step against the reference). "
        "non-trivial = distinct (shape, integrator, copy strategy, seed) with >= 3 nodes or a two-node exactness case")
PARTIAL = ["step-equality with the scheme is decided per input against the dense reference (no universal theorem). Proved "
           "around it: the update order (Tree.updates_perm, updates_nodup, root_last, Tree.child_before_parent, "
           "Tree.moves_perm) and, on a machine with explicit caches following root_update / update_node, which environment "
           "block every local evolution reads (Ptn.C09.Env.bug_trace_eq_ideal, bug_env_sources: parent-side block old, "
           "child-side blocks new, no read fails; bug_child_cache_isolation; bug_each_block_built_once; "
           "bug_old_blocks_fresh) for every well-formed tree and every sibling order; that machine is tied to the real "
           "BUG / FixedBUG classes by the tagged-cache comparison run here on real networks (every cache read with the "
           "generation of the block it returns against the model's `bugenv` answer, as a set of events; observation "
           "code shared with harness/props/c17.py; a rank-adaptive run that raises - known finding F-C09 - is skipped "
           "and tallied), not by a proof about Python",
           "conservation: the Galerkin step is an exact isometric local flow (galerkin_conserves_norm/energy, "
           "fixed_rank_step_nonexpansive; instances of Ptn.Analysis) and a basis containing the old one reproduces the old "
           "state (augmented_basis_reproduces_state); that the library's embeddings ARE isometric and that the new bases "
           "contain the old ones are hypotheses of these theorems, validated numerically",
           "canonical form at the root / completion / structure: proved on machines that follow root_update / update_node "
           "event by event - the gauge machine Ptn.C09.Gauge (bug_step_canonical_at_root: from ANY recorded gauge, both "
           "variants, every tree: the run is never stuck, afterwards every non-root node is a QR factor toward its parent, the "
           "root carries none, no basis-change node is left; bug_step_qr_events; rank_adaptive_truncation_keeps_canonical for "
           "the canonical_form that ends recursive_truncation, through Ptn.C03.canon_gauge_tree) is tied to the real classes "
           "by an exact comparison of the observed sequence of centre moves (with QR mode), pulls, contract_all_children "
           "calls, local evolutions, split_node_replace calls (node, parent, augmented or not) and the final replace_tensor "
           "with the model's `gauge` answer; that every Q IS an isometry toward the parent is the QR contract, validated on "
           "every live call. On the C02 structural model: bug_split_structure (split_node_replace literally), "
           "bug_basis_up_structure, bug_step_structure_partial (runs in which every basis-change tensor is absorbed right "
           "after its split; the literal delayed absorption has no run-level theorem), fixed_bug_keeps_shapes_partial (the "
           "replacement itself keeps all leg dimensions when the QR keeps the rank; not propagated through the step), "
           "rank_adaptive_bonds_le_partial (kept count <= max_bond_dim by Ptn.C10.trunc_is_prefix; that the bonds of the "
           "returned state are these counts is oracle-only), bug_step_completes_partial (cache and gauge machines never "
           "stuck; success of the structural edits is a hypothesis). Shapes, bonds <= maximum, completion of the real code: "
           "decided per input",
           "QR / expm contracts"]
ASSUMPTIONS = ["dense reference harness/bugref.py written from the scheme's definition, eigh-based propagators"]

NO_TRUNC = dict(max_bond_dim=float("inf"), rel_tol=float("-inf"), total_tol=float("-inf"))


def schmidt_ranks_equal(ttns, order):
    v = dense.ttns_vector(ttns, order)
    dims = dense.phys_dims(ttns, order)
    T = v.reshape(dims)
    for nid, nd in ttns.nodes.items():
        if nd.parent is None:
            continue
        sub, i = [nid], 0
        while i < len(sub):
            sub += ttns.nodes[sub[i]].children
            i += 1
        a = [order.index(s) for s in sub]
        b = [k for k in range(len(order)) if k not in a]
        M = np.transpose(T, a + b).reshape(int(np.prod([dims[k] for k in a])), -1)
        if np.linalg.matrix_rank(M, tol=1e-10) != nd.shape[0]:
            return False
    return True


def gen_cases(ctx):
    import glob
    import json
    import os
    from harness.common import CORPUS_DIR, unjson
    rng = ctx.rng
    cases = []
    for path in sorted(glob.glob(os.path.join(CORPUS_DIR, "C09", "*.json"))):
        cases.append(unjson(json.load(open(path))))
    for par in gen.HARD_SHAPES[:5]:
        cases.append({"kind": "equality", "par": par, "seed": rng.randrange(10 ** 9),
                      "algo": rng.choice(["bug", "fixedbug"]), "deep": rng.random() < 0.5})
    for _ in range(ctx.n(80, 400)):
        kind = rng.choice([None, None, "spider", "chain", "star"])
        n = rng.choice([3, 4, 5, 6]) if kind else rng.choice([2, 3, 4, 5])
        cases.append({"kind": "equality", "par": gen.random_parent_array(rng, n, kind),
                      "seed": rng.randrange(10 ** 9), "algo": rng.choice(["bug", "fixedbug"]),
                      "deep": rng.random() < 0.5})
    for _ in range(ctx.n(120, 400)):
        kind = rng.choice([None, "spider", "chain"])
        n = rng.choice([3, 4, 5, 6]) if kind else rng.choice([2, 3, 4, 5])
        algo = rng.choice(["bug", "fixedbug"])
        svd = None
        if algo == "bug" and rng.random() < 0.5:
            svd = dict(max_bond_dim=rng.choice([1, 2, 3, 4, float("inf")]),
                       rel_tol=rng.choice([float("-inf"), 1e-6, 1e-2]),
                       total_tol=rng.choice([float("-inf"), 1e-6, 1e-2, 0.3]),
                       renorm=rng.random() < 0.3, sum_trunc=rng.random() < 0.4, sum_renorm=rng.random() < 0.5)
        cases.append({"kind": "contract", "par": gen.random_parent_array(rng, n, kind),
                      "seed": rng.randrange(10 ** 9), "algo": algo, "deep": rng.random() < 0.5,
                      "steps": 2, "svd": svd, "fullrank": rng.random() < 0.5})
    # a saturated, flat-spectrum bond next to the root stays the largest bond while deeper bonds are augmented
    # and cut back by a value-based truncation (the truncated state must still be canonical at the root)
    for _ in range(ctx.n(24, 80)):
        cases.append({"kind": "flatleaf", "seed": rng.randrange(10 ** 9), "deep": rng.random() < 0.5,
                      "rel_tol": rng.choice([0.3, 0.1]), "dt": rng.choice([0.05, 0.02]), "steps": 3})
    for _ in range(ctx.n(20, 80)):
        cases.append({"kind": "saturated", "seed": rng.randrange(10 ** 9), "algo": rng.choice(["bug", "fixedbug"]),
                      "deep": rng.random() < 0.5, "d": rng.choice([2, 3])})
    cases += audit_cases(ctx)
    return cases


def audit_cases(ctx):
    """Input-space audit families (notes/C09.md); the keys are those of harness/props/c05.py (`specialise`)."""
    rng = ctx.subrng("audit9")
    out = []

    def shape(nmax=5):
        return gen.random_parent_array(rng, rng.choice([m for m in (2, 3, 3, 4, 4, 5) if m <= nmax]))

    def add(fam, kind, par, **kw):
        out.append(dict({"kind": kind, "par": par, "seed": rng.randrange(10 ** 9), "fam": fam,
                         "algo": rng.choice(["bug", "fixedbug"]), "deep": rng.random() < 0.5, "steps": 2,
                         "svd": None, "fullrank": kind == "equality" or rng.random() < 0.6}, **kw))

    for kind in ("equality", "contract"):
        for _ in range(ctx.n(3, 10)):
            add("one-node", kind, [-1], phys=[rng.choice([2, 3, 5])])
        for _ in range(ctx.n(6, 30)):
            par = rng.choice(gen.HARD_SHAPES[:3] + [shape(), shape(), shape()])
            add("generic-ttno", kind, par, ttno="generic", **({"phys": [2]} if len(par) > 5 else {}))
        for _ in range(ctx.n(8, 30)):
            # a root with several children and the centre below one of them: the other children then see a parent-side
            # environment that is not isometric unless the constructor really moves the centre to the root
            par = rng.choice([[-1, 0, 0], [-1, 0, 0, 1], [-1, 0, 0, 0], [-1, 0, 1, 0], [-1, 0, 0, 1, 2], shape()])
            add("pregauged", kind, par, pregauge=rng.choice(["KEEP", "REDUCED"]),
                gauge_at=rng.choice(["root", "nonroot", "nonroot", "nonroot"]), ttno=rng.choice([None, "generic"]))
        for algo in ("bug", "fixedbug"):
            for cfg in ["none", "chebyshev", "sparse", "fastest"]:
                for _ in range(ctx.n(1, 3)):
                    add("config", kind, shape(4), cfg=cfg, algo=algo)
            for dtype in ["real", "int", "single", "csingle"]:
                for _ in range(ctx.n(1, 3)):
                    # physical dimension above twice the bond dimension: the augmented leaf basis [old, evolved] is
                    # then a proper subspace, so a wrong evolved tensor changes the result
                    add("dtype", kind, shape(3), dtype=dtype, algo=algo, phys=[5])
            for ss, hs in [(1e-8, 1.0), (1e8, 1.0), (1.0, 1e-6), (1.0, 1e3), (1e-8, 1e-6), (1e8, 1e3), (1e-150, 1.0)]:
                add("magnitude", kind, shape(4), sscale=ss, hscale=hs, algo=algo, phys=[3, 3, 2])
            add("magnitude", kind, shape(4), zero=True, algo=algo)
        for _ in range(ctx.n(3, 12)):
            add("phys1-names", kind, shape(), phys=[1, 2, 1, 3], names="prefix")
        for _ in range(ctx.n(2, 8)):
            add("read-only", kind, shape(4), readonly=True)
    for _ in range(ctx.n(6, 30)):
        add("second-step", "equality", shape(), algo="fixedbug", second=True)
    for hist in [{"reset_after": 1, "retime_after": 1, "retime_n": 3}, {"setn_after": 1, "setn": 7},
                 {"retime_after": 0, "retime_n": 2, "reset_after": 2}, {"reset_after": 1, "pregauge": "KEEP",
                                                                        "gauge_at": "nonroot"}]:
        for algo in ("bug", "fixedbug"):
            add("history", "contract", shape(4), steps=3, algo=algo, **hist)
    for extra in [{"sscale": 1e-8}, {"sscale": 1e8}, {"hscale": 1e-6}, {"hscale": 1e3}, {"dtype": "real"},
                  {"dtype": "int"}, {"cfg": "none"}, {"cfg": "chebyshev"}, {"cfg": "sparse"}, {"steps": 3},
                  {"steps": 2, "reset_after": 1}, {"names": "prefix"}, {"pregauge": "KEEP"}, {"pregauge": "REDUCED"},
                  {"readonly": True}, {"ttno": "generic"}, {"retime": 2}, {"rootfirst": False}]:
        for algo in ("bug", "fixedbug"):
            out.append(dict({"kind": "saturated", "seed": rng.randrange(10 ** 9), "algo": algo,
                             "deep": rng.random() < 0.5, "d": rng.choice([2, 3]), "fam": "saturated-audit"}, **extra))
    return out


def run(ctx):
    rec = c05.Recorder()
    rec.install()
    try:
        pend = []
        for c in gen_cases(ctx):
            if ctx.time_left() < 0:
                break
            o = _run_one(ctx, c, rec)
            if o:
                pend.append((c, o))
        outs = ctx.lean.batch([o["line"] for _, o in pend])
        for (c, o), mo in zip(pend, outs):
            ctx.corr_cases += 1
            if mo.split(" | ")[0] != o["impl"]:
                ctx.corr_fail(c, f"update order: impl=[{o['impl']}] model=[{mo}]")
        gp = [(c, o) for c, o in pend if o.get("gline")]
        gouts = ctx.lean.batch([o["gline"] for _, o in gp]) if gp else []
        for (c, o), mo in zip(gp, gouts):
            ctx.corr_cases += 1
            check_gauge(ctx, c, o, mo)
    finally:
        rec.uninstall()
    # tie of the BUG environment machine (Ptn.C09.Env) to the code: every cache read of a BUG / FixedBUG step with the
    # generation (old / new basis) of the block it returns, against the model (harness shared with C17)
    from harness.props import c17
    c17.run_real_parts(ctx, ["bugenv"], ctx.n(12, 120))


def run_case(ctx, case):
    if case.get("via") == "c17":
        from harness.props import c17
        return c17.run_case(ctx, case)
    rec = c05.Recorder()
    rec.install()
    try:
        o = _run_one(ctx, case, rec)
        if o:
            mo = ctx.lean.batch([o["line"]])[0]
            if mo.split(" | ")[0] != o["impl"]:
                ctx.corr_fail(case, f"update order: impl=[{o['impl']}] model=[{mo}]")
            if o.get("gline"):
                check_gauge(ctx, case, o, ctx.lean.batch([o["gline"]])[0])
    finally:
        rec.uninstall()


class OrderRecorder(c05.Recorder):
    """Only records which node every local evolution acts on (no E^H H E check: during a BUG update the
    environment mixes two states; the dense reference decides the value-level clause)."""

    def observe(self, psi, heff, td, forward, mode):
        self.events.append((tuple(psi.shape), td, forward))


def _make_state(case, want_schmidt):
    """Legacy keys: par, seed.  Audit keys (shared with harness/props/c05.py): names, phys, ttno, dtype, sscale, hscale,
    pregauge + gauge_at, readonly.  Returns None if no state with bonds = Schmidt ranks was found."""
    rng = random.Random(case["seed"])
    nprng = np.random.default_rng(case["seed"])
    par = case["par"]
    n = len(par)
    real = case.get("dtype") in ("real", "int", "single")
    realH = case.get("dtype") in ("int", "single")      # dtype "real": real state, complex Hamiltonian
    kw = {}
    if case.get("names"):
        kw["names"] = {i: c05.NAME_SETS[case["names"]][i] for i in range(n)}
    if real:
        kw["complex_"] = False
    phys_choices = tuple(case.get("phys") or (2, 3))
    for attempt in range(30):
        bonds = (1, 2, 2, 3) if attempt < 15 else (1, 2)
        ttns, info = gen.random_ttns(rng, nprng, par, phys=phys_choices, bonds=bonds if want_schmidt else (1, 2, 3, 4),
                                     **kw)
        if case.get("dtype") == "int":
            for nid in list(ttns.nodes):
                ttns.replace_tensor(nid, c05._cast(ttns.tensors[nid], "int"))
        order = sorted(ttns.nodes)
        if not want_schmidt or schmidt_ranks_equal(ttns, order):
            break
    else:
        return None
    names = info["names"]
    phys = {i: info["open"][i][0] for i in range(n)}
    hs = case.get("hscale") or 1.0
    if case.get("ttno") == "generic":
        H, Hm = c05.generic_ttno(rng, nprng, par, phys, names, True, real=realH, scale=hs)
    else:
        H, Hm = algos.hermitian_ttno(rng, nprng, par, phys, names, n_terms=rng.randint(1, 3), scale=hs)
        if realH:
            # real symmetric Hamiltonian: the real part of every tensor-product factor
            for nid in list(H.nodes):
                H.replace_tensor(nid, np.real(H.tensors[nid]))
            Hm = dense.ttno_matrix(H, order).astype(complex)
    info["tolf"] = 1.0
    if any(case.get(k) for k in ("dtype", "sscale", "readonly", "zero")) or \
            (case.get("pregauge") and case.get("gauge_at")):
        Hm, info["tolf"] = c05.specialise(case, rng, ttns, H, Hm)
    return rng, nprng, ttns, info, H, Hm, order


def make_bug(case, kind, ttns, H, dt, svd):
    """BUG / FixedBUG through the configuration the case asks for (default: explicit EXPM config as before)."""
    cfg = case.get("cfg")
    if cfg is None:
        return algos.make_algo(kind, ttns, H, dt, dt, [], deep=case["deep"], svd=dict(svd) if svd else None)
    from pytreenet.time_evolution.time_evolution import TimeEvoMode
    if kind == "bug":
        from pytreenet.time_evolution.bug import BUG, BUGConfig
        if cfg == "none":
            return BUG(ttns, H, dt, dt, [])                  # config=None: BUGConfig() (partial copies, default truncation)
        return BUG(ttns, H, dt, dt, [], config=BUGConfig(time_evo_mode=TimeEvoMode(cfg), deep=case["deep"],
                                                         **(dict(svd) if svd else NO_TRUNC)))
    from pytreenet.time_evolution.fixed_bug import FixedBUG, FixedBUGConfig
    if cfg == "none":
        return FixedBUG(ttns, H, dt, dt, [])
    return FixedBUG(ttns, H, dt, dt, [], config=FixedBUGConfig(time_evo_mode=TimeEvoMode(cfg), deep=case["deep"]))


def canonical_at_root(parent, children, tensors):
    """Independent canonicalisation (dense QR sweeps from the leaves to the root) of a state given as parent map,
    children lists and tensors with legs (parent, children..., physical).  The BUG step depends only on the represented
    vector (for bonds = Schmidt ranks), so the reference may start from ANY canonical representation of the caller's
    state; starting from our own makes the reference independent of how the library prepares its working state."""
    T = {n: np.array(t, dtype=complex) for n, t in tensors.items()}
    root = [n for n in parent if parent[n] is None][0]
    order, stack = [], [root]
    while stack:
        x = stack.pop()
        order.append(x)
        stack.extend(children[x])
    for n in reversed(order):
        if n == root:
            continue
        t = T[n]
        m = np.moveaxis(t, 0, -1)
        shp = m.shape
        q, r = np.linalg.qr(m.reshape(-1, shp[-1]))
        T[n] = np.moveaxis(q.reshape(shp[:-1] + (q.shape[1],)), -1, 0)
        p = parent[n]
        k = (0 if parent[p] is None else 1) + children[p].index(n)
        T[p] = np.moveaxis(np.tensordot(T[p], r, axes=([k], [1])), -1, k)
    return T


def _step(algo, kind, truncate=True):
    if kind == "bug" and not truncate:
        algo.recursive_update()
    else:
        algo.run_one_time_step()


def _observed_order(algo, kind, order_ids, step_fn):
    """Run one step while recording which node each local evolution acts on, via the orthogonality centre of
    the state handed to the propagator: we wrap single_site_time_evolution's module-level name.  The same run is
    observed for the gauge machine (`GaugeObserver`); its events are left in `_observed_order.gauge`."""
    cb = _common_bug_module()
    seen = []
    orig = cb.single_site_time_evolution
    gobs = GaugeObserver(algo, cb)

    def wrapped(node_id, *a, **k):
        seen.append(node_id)
        gobs.events.append(("evolve", node_id))
        return orig(node_id, *a, **k)
    cb.single_site_time_evolution = wrapped
    _observed_order.gauge = None
    try:
        with gobs:
            step_fn()
    finally:
        cb.single_site_time_evolution = orig
    _observed_order.gauge = gobs
    return seen


class GaugeObserver:
    """Observes, from outside, the events of `root_update` that the gauge machine `Ptn.C09.Gauge` models: centre moves
    on the working copies (with the QR mode), `pull_tensor_from_different_ttn`, `contract_all_children` on the new
    state, the QR that yields every new basis tensor (augmented or not) with the node it is stored at and the
    neighbour its R-leg points to (`split_node_replace`), and the final `replace_tensor` of the root.  Only calls made
    while `recursive_update` runs are recorded (the truncation pass uses some of the same methods).  The new basis
    tensors are kept for the validation of the QR contract (isometry toward the parent)."""

    BC = "_basis_change_tensor"

    def __init__(self, algo, cb):
        self.algo, self.cb = algo, cb
        self.events, self.bases = [], []
        self.active = False
        self.in_pull = False
        self.qr_kind = None

    def __enter__(self):
        from pytreenet.core.ttn import TreeTensorNetwork as T
        from pytreenet.util.tensor_splitting import SplitMode
        cb, me = self.cb, self
        self._T = T
        self._saved_cls = {n: T.__dict__[n] for n in ("move_orthogonalization_center", "contract_all_children",
                                                     "split_node_replace", "replace_tensor")}
        self._saved_mod = {n: getattr(cb, n) for n in ("pull_tensor_from_different_ttn", "tensor_qr_decomposition",
                                                      "compute_fixed_size_new_basis_tensor",
                                                      "compute_new_basis_tensor")}
        sc, sm = self._saved_cls, self._saved_mod

        def move(self_, new_center_id, mode=SplitMode.REDUCED):
            if me.active:
                me.events.append(("down", self_.orthogonality_center_id, new_center_id, mode == SplitMode.KEEP))
            return sc["move_orthogonalization_center"](self_, new_center_id, mode=mode)

        def cac(self_, node_id, new_identifier=None):
            if me.active:
                me.events.append(("absorb", node_id, tuple(self_.nodes[node_id].children)))
            return sc["contract_all_children"](self_, node_id, new_identifier=new_identifier)

        def snr(self_, node_id, tensor_a, tensor_b, identifier_a, identifier_b, legs_a, legs_b):
            if me.active:
                me.events.append(("basis", node_id, identifier_a, identifier_b, legs_a.parent_leg, me.qr_kind))
                me.bases.append((node_id, tensor_b, me.qr_kind))
                me.qr_kind = None
            return sc["split_node_replace"](self_, node_id, tensor_a, tensor_b, identifier_a, identifier_b,
                                            legs_a, legs_b)

        def rt(self_, node_id, new_tensor, permutation=None):
            if me.active and not me.in_pull:
                me.events.append(("store", node_id))
            return sc["replace_tensor"](self_, node_id, new_tensor, permutation)

        def pull(old_ttn, new_ttn, node_id, mod_fct=None):
            if me.active:
                me.events.append(("pull", node_id))
            me.in_pull = True
            try:
                return sm["pull_tensor_from_different_ttn"](old_ttn, new_ttn, node_id, mod_fct)
            finally:
                me.in_pull = False

        def leaf_qr(tensor, q_legs, r_legs, mode=SplitMode.REDUCED):
            me.qr_kind = "keep" if mode == SplitMode.KEEP else "aug"
            return sm["tensor_qr_decomposition"](tensor, q_legs, r_legs, mode=mode)

        def fixed_basis(node, updated_tensor):
            me.qr_kind = "keep"
            return sm["compute_fixed_size_new_basis_tensor"](node, updated_tensor)

        def aug_basis(node, old_tensor, updated_tensor):
            me.qr_kind = "aug"
            return sm["compute_new_basis_tensor"](node, old_tensor, updated_tensor)

        T.move_orthogonalization_center = move
        T.contract_all_children = cac
        T.split_node_replace = snr
        T.replace_tensor = rt
        cb.pull_tensor_from_different_ttn = pull
        cb.tensor_qr_decomposition = leaf_qr
        cb.compute_fixed_size_new_basis_tensor = fixed_basis
        cb.compute_new_basis_tensor = aug_basis
        orig_update = self.algo.recursive_update

        def rec_update():
            me.active = True
            try:
                return orig_update()
            finally:
                me.active = False
        self.algo.recursive_update = rec_update
        return self

    def __exit__(self, *exc):
        for n, f in self._saved_cls.items():
            setattr(self._T, n, f)
        for n, f in self._saved_mod.items():
            setattr(self.cb, n, f)
        try:
            del self.algo.recursive_update
        except AttributeError:
            pass
        return False

    def render(self, inv):
        """The observed events in the vocabulary of the model's `gauge` answer (identifiers -> model numbers; a
        basis-change node is named by the node below it)."""
        out = []
        for e in self.events:
            if e[0] == "down":
                out.append(f"down {inv[e[1]]}>{inv[e[2]]} {int(e[3])}")
            elif e[0] == "pull":
                out.append(f"pull {inv[e[1]]}")
            elif e[0] == "absorb":
                kids = []
                for k in e[2]:
                    if not k.endswith(self.BC) or k[:-len(self.BC)] not in inv:
                        return None, f"contract_all_children({e[1]}) met the child {k}, not a basis-change node"
                    kids.append(inv[k[:-len(self.BC)]])
                out.append(f"absorb {inv[e[1]]} " + ",".join(str(k) for k in sorted(kids)))
            elif e[0] == "evolve":
                out.append(f"evolve {inv[e[1]]}")
            elif e[0] == "basis":
                _, nid, ida, idb, par, qk = e
                if idb != nid or ida != nid + self.BC or par not in inv or qk is None:
                    return None, f"split_node_replace({nid}) with identifiers ({ida}, {idb}), parent {par}, QR {qk}"
                out.append(f"basis {inv[nid]}>{inv[par]} {int(qk == 'aug')}")
            elif e[0] == "store":
                out.append(f"store {inv[e[1]]}")
        return " ; ".join(out), None


def canon_gauge_answer(ans):
    """The model's `gauge` answer with the children of every `absorb` sorted (the code contracts them in the order of
    the node's children list, the model lists them in visiting order; the gauge does not depend on it)."""
    evs = []
    for tok in ans.split(" | ")[0].split(" ; "):
        parts = tok.split(" ")
        if parts[0] == "absorb":
            kids = sorted(int(k) for k in (parts[2].split(",") if len(parts) > 2 and parts[2] else []))
            tok = f"absorb {parts[1]} " + ",".join(str(k) for k in kids)
        evs.append(tok)
    return " ; ".join(evs)


def check_gauge(ctx, case, o, ans):
    """Stage B for the gauge machine: exact comparison of the event sequences; the model's final record must be
    `n>parent` for every non-root node, `root>-`, no pending basis-change node, only the start frame."""
    if ans in ("bad-op", "stuck"):
        ctx.corr_fail(case, f"gauge machine answered {ans} for {o['gline']}")
        return
    if canon_gauge_answer(ans) != o["gimpl"]:
        ctx.corr_fail(case, f"gauge events: impl=[{o['gimpl']}] model=[{canon_gauge_answer(ans)}]")
        return
    parts = ans.split(" | ")
    want = " ".join(f"{c}>{'-' if p is None else p}" for c, p in o["gparents"])
    if len(parts) != 4 or parts[1] != want or parts[2] != "pend 0" or parts[3] != f"frames {o['groot']}":
        ctx.corr_fail(case, f"gauge machine final state [{' | '.join(parts[1:])}], tree says [{want}]")


SVD_FIELDS = ("max_bond_dim", "rel_tol", "total_tol", "renorm", "sum_trunc", "sum_renorm")


class TruncObserver:
    """Records the parameter object handed to every truncate_singular_values call (wrapped from outside)."""

    def __init__(self):
        import sys
        from pytreenet.util.tensor_splitting import truncate_singular_values  # noqa: F401
        ts = sys.modules.get("pytreenet.util.tensor_splitting")
        if ts is None or not hasattr(ts, "truncate_singular_values"):
            from harness.common import HarnessError
            raise HarnessError("cannot locate pytreenet.util.tensor_splitting.truncate_singular_values")
        self.ts = ts
        self.calls = []
        self.orig = ts.truncate_singular_values

    def __enter__(self):
        obs = self

        def wrapped(s, svd_params, *a, **k):
            obs.calls.append({f: getattr(svd_params, f, None) for f in SVD_FIELDS})
            return obs.orig(s, svd_params, *a, **k)
        self.ts.truncate_singular_values = wrapped
        return self

    def __exit__(self, *exc):
        self.ts.truncate_singular_values = self.orig
        return False


def _common_bug_module():
    import sys
    from pytreenet.time_evolution.bug import BUG  # noqa: F401  (makes sure the module is loaded)
    mod = sys.modules.get("pytreenet.time_evolution.time_evo_util.common_bug")
    if mod is None or not hasattr(mod, "single_site_time_evolution"):
        from harness.common import HarnessError
        raise HarnessError("cannot locate common_bug.single_site_time_evolution to observe the update order")
    return mod


def _run_one(ctx, case, rec):
    if case["kind"] == "saturated":
        _saturated(ctx, case)
        return None
    if case["kind"] == "flatleaf":
        _flatleaf(ctx, case)
        return None
    kind = case["algo"]
    _common_bug_module()
    made = _make_state(case, want_schmidt=(case["kind"] == "equality" or case.get("fullrank", False)))
    if made is None:
        return None
    rng, nprng, ttns, info, H, Hm, order = made
    names = info["names"]
    inv = {v: k for k, v in names.items()}
    n = len(case["par"])
    redundant = any(c05._redundant(ttns, nid) for nid in ttns.nodes)
    ctx.tally("kind", case["kind"])
    ctx.tally("integrator", kind + ("-deep" if case["deep"] else "-partial"))
    ctx.tally("nodes", n)
    ctx.tally("redundant_bond", redundant)
    ctx.tally("audit_family", case.get("fam", "-"))
    for key in ("ttno", "cfg", "dtype"):
        if case.get(key):
            ctx.tally("audit_" + key, case[key])
    ctx.sample(case, 3)
    hs = case.get("hscale") or 1.0
    dt = 0.05 / hs                          # |H| dt stays O(1): magnitude of H and step size are varied together
    tf = info["tolf"]                       # element-type factor of all tolerances (single precision: 5e3)
    svd = case.get("svd")
    # config=None means BUGConfig(): truncation with max_bond_dim 100 and tolerances 1e-15 (nothing of weight is cut)
    svd_used = svd if svd else (dict(max_bond_dim=100, rel_tol=1e-15, total_tol=1e-15)
                                if case.get("cfg") == "none" and kind == "bug" else None)
    struct0 = dense.structure(ttns)

    def fail(detail, exc=None):
        finding = None
        if kind == "bug" and exc is not None and type(exc).__name__ == "NotCompatibleException" and redundant:
            finding = "F-C09"
        ctx.oracle_fail(case, detail, finding)

    try:
        algo = make_bug(case, kind, ttns, H, dt, svd)
    except Exception as e:              # noqa: BLE001
        fail(f"{kind}: construction raised {type(e).__name__}: {str(e)[:200]}", e)
        return None
    shapes0 = c06._shape_map(algo.state)
    probs = []
    ctx.count((case["kind"], kind, case["deep"], tuple(case["par"]), case["seed"], case.get("fam")),
              nontrivial=n >= 3 or bool(case.get("fam")))
    # ---------------- equality clause
    if case["kind"] == "equality":
        # the reference starts from the CALLER's state (never modified by the library), canonicalised independently
        parent, children, tensors = bugref.read_state(ttns)
        try:
            ref = bugref.bug_step(parent, children, canonical_at_root(parent, children, tensors), Hm, order, dt,
                                  fixed_rank=(kind == "fixedbug"))
        except Exception as e:          # noqa: BLE001
            from harness.common import HarnessError
            raise HarnessError(f"dense BUG reference failed: {type(e).__name__}: {e}")
        try:
            seen = _observed_order(algo, kind, order, lambda: _step(algo, kind, truncate=False))
        except Exception as e:          # noqa: BLE001
            fail(f"{kind}: step raised {type(e).__name__}: {str(e)[:200]}", e)
            return None
        v1 = dense.ttns_vector(algo.state, order)
        err = np.linalg.norm(v1 - ref) / max(1e-300, np.linalg.norm(ref))
        key = "max_equality_err" if tf == 1.0 else "max_equality_err_single_precision"
        ctx.notes[key] = max(ctx.notes.get(key, 0.0), float(err))
        if err > 1e-7 * tf:
            probs.append(f"state after one step differs from the BUG scheme's dense reference (rel. err {err:.2e})")
        if case.get("second") and not probs and kind == "fixedbug" and schmidt_ranks_equal(algo.state, order):
            # "several consecutive steps": the second fixed-rank step from the state the first one produced
            ctx.tally("second_step_equality", True)
            parent, children, tensors = bugref.read_state(algo.state)
            try:
                ref2 = bugref.bug_step(parent, children, canonical_at_root(parent, children, tensors), Hm, order, dt,
                                       fixed_rank=True)
            except Exception as e:      # noqa: BLE001
                from harness.common import HarnessError
                raise HarnessError(f"dense BUG reference failed: {type(e).__name__}: {e}")
            try:
                _step(algo, kind, truncate=False)
            except Exception as e:      # noqa: BLE001
                fail(f"{kind}: second step raised {type(e).__name__}: {str(e)[:200]}", e)
                return None
            err2 = np.linalg.norm(dense.ttns_vector(algo.state, order) - ref2) / max(1e-300, np.linalg.norm(ref2))
            if err2 > 1e-7 * tf:
                probs.append(f"state after the second step differs from the dense reference (rel. err {err2:.2e})")
        steps_done = 1
    else:
        seen = None
        steps_done = 0
    # ---------------- contract clauses
    v_prev = dense.ttns_vector(algo.state, order) if steps_done == 0 else None
    if case["kind"] == "contract":
        e_prev = algos.expval_dense(v_prev, Hm)
        for step in range(case["steps"]):
            tobs = TruncObserver()
            try:
                if case.get("reset_after") == step:
                    algo.reset_to_initial_state()
                    v_prev = dense.ttns_vector(algo.state, order)
                    e_prev = algos.expval_dense(v_prev, Hm)
                if case.get("retime_after") == step:
                    algo.set_num_time_steps_constant_final_time(case["retime_n"])
                if case.get("setn_after") == step:
                    algo.set_num_time_steps(case["setn"])
                with tobs:
                    if step == 0:
                        seen = _observed_order(algo, kind, order, lambda: _step(algo, kind))
                    else:
                        _step(algo, kind)
            except Exception as e:      # noqa: BLE001
                fail(f"{kind}: step {step} did not complete: {type(e).__name__}: {str(e)[:200]}", e)
                return None
            if kind == "bug" and svd_used:
                want = {f: svd_used.get(f, d) for f, d in zip(SVD_FIELDS, (100, 1e-15, 1e-15, False, False, True))}
                if not tobs.calls:
                    probs.append(f"step {step}: the rank-adaptive step performed no truncation")
                for c in tobs.calls:
                    if c != want:
                        diff = {f: (c[f], want[f]) for f in SVD_FIELDS if c[f] != want[f]}
                        probs.append(f"step {step}: truncation used settings differing from the configured ones "
                                     f"(used, configured): {diff}")
                        break
            st = algo.state
            v = dense.ttns_vector(st, order)
            n0 = np.linalg.norm(v_prev)
            if kind == "bug" and svd is None:
                # tolerances relative to the data: |psi| for the norm, |H| |psi|^2 for the energy
                if abs(np.linalg.norm(v) - n0) > 1e-8 * tf * n0:
                    probs.append(f"step {step}: rank-adaptive BUG norm drift {abs(np.linalg.norm(v) - n0):.2e} "
                                 f"(norm {n0:.3g})")
                e = algos.expval_dense(v, Hm)
                if abs(e - e_prev) > 1e-8 * tf * np.linalg.norm(Hm) * n0 ** 2:
                    probs.append(f"step {step}: rank-adaptive BUG energy drift {abs(e - e_prev):.2e} (|H| |psi|^2 = "
                                 f"{np.linalg.norm(Hm) * n0 ** 2:.3g})")
                e_prev = e
            if kind == "fixedbug":
                if np.linalg.norm(v) > n0 * (1 + 1e-9 * tf):
                    probs.append(f"step {step}: fixed-rank BUG increased the norm by {np.linalg.norm(v) - n0:.2e} "
                                 f"(norm {n0:.3g})")
                if c06._shape_map(st) != shapes0:
                    probs.append(f"step {step}: fixed-rank BUG changed tensor shapes")
            if svd_used:
                for edge, b in st.bond_dims().items():
                    if b > svd_used["max_bond_dim"]:
                        probs.append(f"step {step}: bond {edge} = {b} > max_bond_dim {svd_used['max_bond_dim']}")
            v_prev = v
    # ---------------- clauses common to both kinds
    st = algo.state
    if dense.structure(st) != struct0:
        probs.append("identifiers / parent-child relations changed")
    else:
        wf = dense.well_formed(st)
        if wf:
            probs.append(f"state not well-formed: {wf[:2]}")
        elif st.orthogonality_center_id != st.root_id:
            probs.append(f"recorded centre {st.orthogonality_center_id} is not the root {st.root_id}")
        else:
            probs += c06.canonical_problems(st, st.root_id, 1e-8 * tf)
    if probs:
        ctx.oracle_fail(case, f"{kind} ({'deep' if case['deep'] else 'partial'} copies): " + "; ".join(probs[:4]))
        return None
    if not seen:
        return None
    # model line: the tree with every node's children in the order the run visited them
    pos = {nid: i for i, nid in enumerate(seen)}
    if sorted(seen) != sorted(order):
        ctx.oracle_fail(case, f"{kind}: local evolutions acted on {seen}, expected every node exactly once")
        return None
    toks = []

    def walk(nid):
        nd = ttns.nodes[nid]
        toks.append(f"{inv[nid]}:{'-' if nd.parent is None else inv[nd.parent]}")
        for c in sorted(nd.children, key=lambda c: min(pos[x] for x in _subtree_ids(ttns, c))):
            walk(c)
    walk(ttns.root_id)
    out = {"line": "C09 order " + " ".join(toks), "impl": " ".join(str(inv[s]) for s in seen)}
    # the gauge machine: the same run seen as centre moves / pulls / absorptions / QR events
    gobs = getattr(_observed_order, "gauge", None)
    if gobs is not None and gobs.events:
        gimpl, why = gobs.render(inv)
        if gimpl is None:
            ctx.oracle_fail(case, f"{kind}: {why}")
            return out
        ctx.tally("gauge_events", len(gobs.events))
        # contract of the QR behind every new basis tensor: an isometry toward the parent (leg 0); in KEEP mode a
        # zero-padded one (Gram matrix = orthogonal projector)
        for nid, q, qk in gobs.bases:
            qm = np.asarray(q).reshape(q.shape[0], -1)
            g = qm @ qm.conj().T
            sc = max(1.0, float(np.abs(g).max()))
            ok = (np.allclose(g, np.eye(g.shape[0]), atol=1e-8 * tf) if qk == "aug" or np.linalg.matrix_rank(qm) == g.shape[0]
                  else np.allclose(g @ g, g, atol=1e-8 * tf * sc) and np.allclose(g, g.conj().T, atol=1e-8 * tf * sc))
            if not ok:
                ctx.oracle_fail(case, f"{kind}: the new basis tensor of {nid} is not an isometry toward its parent")
                return out
            ctx.hyp_validated += 1
        out["gline"] = f"C09 gauge {int(kind == 'fixedbug')} " + " ".join(toks)
        out["gimpl"] = gimpl
        out["gparents"] = [(int(t.split(":")[0]), None if t.split(":")[1] == "-" else int(t.split(":")[1]))
                           for t in toks]
        out["groot"] = inv[ttns.root_id]
    return out


def _subtree_ids(ttns, nid):
    out, i = [nid], 0
    while i < len(out):
        out += ttns.nodes[out[i]].children
        i += 1
    return out


def _flatleaf(ctx, case):
    """Tree r - {L, m - c}: L has physical dimension 4 and a saturated bond 4 with a flat Schmidt spectrum."""
    from pytreenet.ttns.ttns import TreeTensorNetworkState
    rng = random.Random(case["seed"])
    nprng = np.random.default_rng(case["seed"])
    par = [-1, 0, 0, 2]
    names = {0: "r", 1: "L", 2: "m", 3: "c"}
    phys = {0: 2, 1: 4, 2: 2, 3: 5}
    bond = {(0, 1): 4, (0, 2): 2, (2, 3): 2}
    ttns, *_ = gen.build_network(TreeTensorNetworkState, par, bond, {i: [phys[i]] for i in range(4)}, rng, nprng,
                                 names=names, order=[0, 1, 2, 3], shuffle_legs=False)
    H, Hm = algos.hermitian_ttno(rng, nprng, par, phys, names, n_terms=3)
    ttns.canonical_form("r")
    q, _ = np.linalg.qr(gen.rand_tensor(nprng, (4, 4)))
    ttns.replace_tensor("r", (q / 2).reshape(4, 2, 2))      # legs: L (4), m (2), phys (2); norm one, flat spectrum
    ttns.orthogonality_center_id = "r"
    order = sorted(ttns.nodes)
    ctx.count(("flatleaf", case["seed"], case["rel_tol"]), nontrivial=True)
    ctx.tally("kind", "flatleaf")
    struct0 = dense.structure(ttns)
    svd = dict(max_bond_dim=50, rel_tol=case["rel_tol"], total_tol=1e-12)
    try:
        algo = algos.make_algo("bug", ttns, H, case["dt"], case["dt"], [], deep=case["deep"], svd=svd)
    except Exception as e:              # noqa: BLE001
        ctx.oracle_fail(case, f"bug flat-leaf: construction raised {type(e).__name__}: {str(e)[:200]}")
        return
    probs = []
    for step in range(case["steps"]):
        try:
            algo.run_one_time_step()
        except Exception as e:          # noqa: BLE001
            ctx.oracle_fail(case, f"bug flat-leaf: step {step} raised {type(e).__name__}: {str(e)[:200]}")
            return
        st = algo.state
        if dense.structure(st) != struct0:
            probs.append(f"step {step}: identifiers / relations changed")
            break
        if st.orthogonality_center_id != st.root_id:
            probs.append(f"step {step}: recorded centre {st.orthogonality_center_id} is not the root")
        else:
            probs += [f"step {step}: " + p for p in c06.canonical_problems(st, st.root_id)]
        if max(st.bond_dims().values()) > 50:
            probs.append(f"step {step}: bond above the maximum")
        if probs:
            break
    if probs:
        ctx.oracle_fail(case, f"bug flat-leaf (rel_tol={case['rel_tol']}): " + "; ".join(probs[:3]))


def _saturated(ctx, case):
    """Two nodes, bond = both physical dimensions: `steps` steps = exp(-iH steps*dt) psi.  Audit keys: sscale, hscale,
    dtype, cfg, steps, reset_after, names, pregauge, readonly, ttno, retime, rootfirst."""
    from pytreenet.ttns.ttns import TreeTensorNetworkState
    rng = random.Random(case["seed"])
    nprng = np.random.default_rng(case["seed"])
    d = case["d"]
    par = [-1, 0]
    names = {0: "a", 1: "b"} if case.get("rootfirst", True) else {0: "b", 1: "a"}
    if case.get("names"):
        names = {0: c05.NAME_SETS[case["names"]][0], 1: c05.NAME_SETS[case["names"]][1]}
    real = case.get("dtype") in ("real", "int", "single")
    realH = case.get("dtype") in ("int", "single")      # dtype "real": real state, complex Hamiltonian
    ttns, *_ = gen.build_network(TreeTensorNetworkState, par, {(0, 1): d}, {0: [d], 1: [d]}, rng, nprng, names=names,
                                 complex_=not real)
    hs = case.get("hscale") or 1.0
    terms = [{0: gen.rand_hermitian(nprng, d), 1: gen.rand_hermitian(nprng, d)}, {1: gen.rand_hermitian(nprng, d)}]
    if case.get("ttno") == "generic":
        H, Hm = c05.generic_ttno(rng, nprng, par, {0: d, 1: d}, names, True, real=realH, scale=hs)
    else:
        if realH or hs != 1.0:
            terms = [{k: (np.real(o) if realH else o) * (hs if k == 1 else 1.0) for k, o in t.items()} for t in terms]
        H, Hm = algos.ttno_from_terms(par, {0: d, 1: d}, names, terms, rng, nprng)
        if realH:
            for nid in list(H.nodes):
                H.replace_tensor(nid, np.real(H.tensors[nid]))
    tf = 1.0
    if any(case.get(k) for k in ("dtype", "sscale", "readonly", "pregauge")):
        Hm, tf = c05.specialise(dict(case, gauge_at=case.get("gauge_at") or "random"), rng, ttns, H, Hm)
    order = sorted(ttns.nodes)
    v0 = dense.ttns_vector(ttns, order).astype(complex)
    dt = 0.1 / hs                           # |H| dt stays O(1): magnitude of H and step size are varied together
    kind = case["algo"]
    steps = case.get("steps", 1)
    ctx.count(("sat", kind, case["seed"], case.get("fam")), nontrivial=True)
    ctx.tally("kind", "saturated")
    if case.get("fam"):
        ctx.tally("saturated_audit", next(f"{k}={case[k]}" for k in ("sscale", "hscale", "dtype", "cfg", "steps", "names",
                                                                  "pregauge", "readonly", "ttno", "retime", "rootfirst")
                                          if k in case))
    try:
        algo = make_bug(case, kind, ttns, H, dt, None)
        if case.get("retime"):
            algo.set_num_time_steps_constant_final_time(case["retime"])
            dt = algo.time_step_size
        done = 0
        for step in range(steps):
            if case.get("reset_after") == step:
                algo.reset_to_initial_state()
                done = 0
            algo.run_one_time_step()
            done += 1
        v1 = dense.ttns_vector(algo.state, order)
    except Exception as e:              # noqa: BLE001
        ctx.oracle_fail(case, f"{kind} saturated two-node: raised {type(e).__name__}: {str(e)[:200]}")
        return
    w, U = np.linalg.eigh(Hm)
    ref = (U * np.exp(-1j * w * dt * done)) @ (U.conj().T @ v0)
    err = np.linalg.norm(v1 - ref) / np.linalg.norm(ref)
    if err > 1e-9 * tf:
        ctx.oracle_fail(case, f"{kind} saturated two-node: {done} step(s) differ from exp(-iH t) psi (rel. err "
                              f"{err:.2e}, |psi| = {np.linalg.norm(ref):.3g})")


def shrink(case):
    if case["kind"] in ("equality", "contract"):
        yield from c05.shrink(case)
