"""C09 — BUG integrators: the step the scheme defines, conservation, canonical root, shape contracts.

Stage B: the order of local Galerkin evolutions (observed through the guarded time_evolve hook) is compared
with the Lean model Ptn.C09 (children before parents, root last), children taken in the order the run visited;
the events of the same run that concern the gauge (centre moves with their QR mode, pulls, contract_all_children,
split_node_replace with the QR kind behind it, the root's replace_tensor; `GaugeObserver`) are compared EXACTLY with
the gauge machine Ptn.C09.Gauge (`C09 gauge`), and every new basis tensor is checked to be an isometry toward the parent;
the WHOLE new_state after every call that edits it (pull, contract_all_children, split_node_replace, the root's
replace_tensor; snapshots of identifiers, parents, children LISTS, logical shapes of all nodes, basis-change nodes included)
is compared EXACTLY with the states of the structural model of the step, Ptn.C09.Step on the C02 model (`C09 sstep`,
`build_sstep` / `check_sstep`), together with the basis-change nodes pending in the gauge machine after every event.
Observation points are optional: if one does not exist in the library version at hand the comparison is skipped and tallied.
Stage C: (i) step-equality clause: for states whose bonds equal their Schmidt ranks the state after one step
equals an independent dense reference of the BUG scheme (harness/bugref.py), both integrators, both copy
strategies; (ii) other clauses on arbitrary (also redundant-bond) states over several steps and a truncation grid.
"""
from __future__ import annotations

import random

import numpy as np

from harness import gen, dense, algos, bugref
from harness.props import c05, c06

RULE = ("cases: random trees 2..6 nodes; 'equality' cases: states with bonds = Schmidt ranks, truncation disabled, "
        "both integrators x both copy strategies vs dense reference BUG; 'contract' cases: arbitrary bonds incl. "
        "redundant ones, 2 steps, truncation grid for the rank-adaptive variant; saturated two-node cases; plus real "
        "TTNS/TTNO pairs on random trees with 2..7 nodes whose cache reads during one BUG / FixedBUG step (tagged old / "
        "new) are compared with the environment machine; plus the input-space audit families (one-node trees, non-diagonal "
        "TTNOs, caller states already canonical at the root / elsewhere, default configuration objects, Chebyshev / sparse "
        "modes, real / integer / single-precision tensors, magnitudes 1e-8..1e8 with tolerances relative to the data, "
        "physical dimension 1, prefix identifiers, read-only tensors, reset / setter histories, a second consecutive "
        "fixed-rank step against the reference). Every observed step (both integrators) is also replayed on the structural "
        "model: all nodes of new_state (parent, children list, shape) after every event, exact. "
        "non-trivial = distinct (shape, integrator, copy strategy, seed) with >= 3 nodes or a two-node exactness case")
PARTIAL = ["step-equality with the scheme is decided per input against the dense reference (no universal theorem). Proved "
           "around it: the update order (Tree.updates_perm, updates_nodup, root_last, Tree.child_before_parent, "
           "Tree.moves_perm) and, on a machine with explicit caches following root_update / update_node, which environment "
           "block every local evolution reads (Ptn.C09.Env.bug_trace_eq_ideal, bug_env_sources: parent-side block old, "
           "child-side blocks new, no read fails; bug_child_cache_isolation; bug_each_block_built_once; "
           "bug_old_blocks_fresh) for every well-formed tree and every sibling order; that machine is tied to the real "
           "BUG / FixedBUG classes by the tagged-cache comparison run here on real networks (every cache read with the "
           "generation of the block it returns against the model's `bugenv` answer, as a set of events; observation "
           "code shared with harness/props/c17.py; a rank-adaptive run that raises - known finding F-C09 - is skipped "
           "and tallied), not by a proof about Python",
           "conservation: the Galerkin step is an exact isometric local flow (galerkin_conserves_norm/energy, "
           "fixed_rank_step_nonexpansive; instances of Ptn.Analysis) and a basis containing the old one reproduces the old "
           "state (augmented_basis_reproduces_state); that the library's embeddings ARE isometric and that the new bases "
           "contain the old ones are hypotheses of these theorems, validated numerically",
           "canonical form at the root / completion / structure: proved on machines that follow root_update / update_node "
           "event by event - the gauge machine Ptn.C09.Gauge (bug_step_canonical_at_root: from ANY recorded gauge, both "
           "variants, every tree: the run is never stuck, afterwards every non-root node is a QR factor toward its parent, the "
           "root carries none, no basis-change node is left; bug_step_qr_events; rank_adaptive_truncation_keeps_canonical for "
           "the canonical_form that ends recursive_truncation, through Ptn.C03.canon_gauge_tree) is tied to the real classes "
           "by an exact comparison of the observed sequence of centre moves (with QR mode), pulls, contract_all_children "
           "calls, local evolutions, split_node_replace calls (node, parent, augmented or not) and the final replace_tensor "
           "with the model's `gauge` answer; that every Q IS an isometry toward the parent is the QR contract, validated on "
           "every live call. On the C02 structural model, in the ORDER OF THE CODE (Ptn.C09.Step: every gauge event with its "
           "edit of new_state - replace_tensor, contract_all_children as the loop over the children list at call time, "
           "split_node_replace, basis-change nodes of finished siblings PENDING while later siblings are edited): "
           "bug_step_structure (every edit succeeds; afterwards the same root, exactly the same structure map - children "
           "lists in the same order - and open axes; at EVERY intermediate state the basis-change nodes present are exactly "
           "the gauge machine's pend), bug_step_completes (cache machine, gauge machine and structural edits all run "
           "through), fixed_bug_keeps_shapes (fixed rank, with the KEEP-mode QR assert of the code as the only hypothesis: "
           "every leg of every node has its old dimension after the whole step and at every intermediate state), "
           "rank_adaptive_bonds_le (after the step and recursive_truncation every bond is between 1 and max_bond_dim, "
           "through Ptn.C10.recursive_truncation_bonds_le; premise: the truncation pass of the C02 model returns - C10 has "
           "no progress theorem for insert_identity; the canonical_form sweeps around the pass are not modelled). These "
           "theorems are about the structural model; it is tied to the real classes by the exact comparison of ALL nodes "
           "(parent, children list, logical shape) of new_state after every pull / absorb / basis / store event of real "
           "steps with the model's `sstep` answer (ranks and pull permutations read off the run). Values, and that the "
           "QR returns the rank it is asked for: decided per input",
           "QR / expm contracts"]
ASSUMPTIONS = ["dense reference harness/bugref.py written from the scheme's definition, eigh-based propagators"]

NO_TRUNC = dict(max_bond_dim=float("inf"), rel_tol=float("-inf"), total_tol=float("-inf"))


def schmidt_ranks_equal(ttns, order):
    v = dense.ttns_vector(ttns, order)
    dims = dense.phys_dims(ttns, order)
    T = v.reshape(dims)
    for nid, nd in ttns.nodes.items():
        if nd.parent is None:
            continue
        sub, i = [nid], 0
        while i < len(sub):
            sub += ttns.nodes[sub[i]].children
            i += 1
        a = [order.index(s) for s in sub]
        b = [k for k in range(len(order)) if k not in a]
        M = np.transpose(T, a + b).reshape(int(np.prod([dims[k] for k in a])), -1)
        if np.linalg.matrix_rank(M, tol=1e-10) != nd.shape[0]:
            return False
    return True


def gen_cases(ctx):
    import glob
    import json
    import os
    from harness.common import CORPUS_DIR, unjson
    rng = ctx.rng
    cases = []
    for path in sorted(glob.glob(os.path.join(CORPUS_DIR, "C09", "*.json"))):
        cases.append(unjson(json.load(open(path))))
    for par in gen.HARD_SHAPES[:5]:
        cases.append({"kind": "equality", "par": par, "seed": rng.randrange(10 ** 9),
                      "algo": rng.choice(["bug", "fixedbug"]), "deep": rng.random() < 0.5})
    for _ in range(ctx.n(80, 400)):
        kind = rng.choice([None, None, "spider", "chain", "star"])
        n = rng.choice([3, 4, 5, 6]) if kind else rng.choice([2, 3, 4, 5])
        cases.append({"kind": "equality", "par": gen.random_parent_array(rng, n, kind),
                      "seed": rng.randrange(10 ** 9), "algo": rng.choice(["bug", "fixedbug"]),
                      "deep": rng.random() < 0.5})
    for _ in range(ctx.n(120, 400)):
        kind = rng.choice([None, "spider", "chain"])
        n = rng.choice([3, 4, 5, 6]) if kind else rng.choice([2, 3, 4, 5])
        algo = rng.choice(["bug", "fixedbug"])
        svd = None
        if algo == "bug" and rng.random() < 0.5:
            svd = dict(max_bond_dim=rng.choice([1, 2, 3, 4, float("inf")]),
                       rel_tol=rng.choice([float("-inf"), 1e-6, 1e-2]),
                       total_tol=rng.choice([float("-inf"), 1e-6, 1e-2, 0.3]),
                       renorm=rng.random() < 0.3, sum_trunc=rng.random() < 0.4, sum_renorm=rng.random() < 0.5)
        cases.append({"kind": "contract", "par": gen.random_parent_array(rng, n, kind),
                      "seed": rng.randrange(10 ** 9), "algo": algo, "deep": rng.random() < 0.5,
                      "steps": 2, "svd": svd, "fullrank": rng.random() < 0.5})
    # a saturated, flat-spectrum bond next to the root stays the largest bond while deeper bonds are augmented
    # and cut back by a value-based truncation (the truncated state must still be canonical at the root)
    for _ in range(ctx.n(24, 80)):
        cases.append({"kind": "flatleaf", "seed": rng.randrange(10 ** 9), "deep": rng.random() < 0.5,
                      "rel_tol": rng.choice([0.3, 0.1]), "dt": rng.choice([0.05, 0.02]), "steps": 3})
    for _ in range(ctx.n(20, 80)):
        cases.append({"kind": "saturated", "seed": rng.randrange(10 ** 9), "algo": rng.choice(["bug", "fixedbug"]),
                      "deep": rng.random() < 0.5, "d": rng.choice([2, 3])})
    cases += audit_cases(ctx)
    return cases


def audit_cases(ctx):
    """Input-space audit families (notes/C09.md); the keys are those of harness/props/c05.py (`specialise`)."""
    rng = ctx.subrng("audit9")
    out = []

    def shape(nmax=5):
        return gen.random_parent_array(rng, rng.choice([m for m in (2, 3, 3, 4, 4, 5) if m <= nmax]))

    def add(fam, kind, par, **kw):
        out.append(dict({"kind": kind, "par": par, "seed": rng.randrange(10 ** 9), "fam": fam,
                         "algo": rng.choice(["bug", "fixedbug"]), "deep": rng.random() < 0.5, "steps": 2,
                         "svd": None, "fullrank": kind == "equality" or rng.random() < 0.6}, **kw))

    for kind in ("equality", "contract"):
        for _ in range(ctx.n(3, 10)):
            add("one-node", kind, [-1], phys=[rng.choice([2, 3, 5])])
        for _ in range(ctx.n(6, 30)):
            par = rng.choice(gen.HARD_SHAPES[:3] + [shape(), shape(), shape()])
            add("generic-ttno", kind, par, ttno="generic", **({"phys": [2]} if len(par) > 5 else {}))
        for _ in range(ctx.n(8, 30)):
            # a root with several children and the centre below one of them: the other children then see a parent-side
            # environment that is not isometric unless the constructor really moves the centre to the root
            par = rng.choice([[-1, 0, 0], [-1, 0, 0, 1], [-1, 0, 0, 0], [-1, 0, 1, 0], [-1, 0, 0, 1, 2], shape()])
            add("pregauged", kind, par, pregauge=rng.choice(["KEEP", "REDUCED"]),
                gauge_at=rng.choice(["root", "nonroot", "nonroot", "nonroot"]), ttno=rng.choice([None, "generic"]))
        for algo in ("bug", "fixedbug"):
            for cfg in ["none", "chebyshev", "sparse", "fastest"]:
                for _ in range(ctx.n(1, 3)):
                    add("config", kind, shape(4), cfg=cfg, algo=algo)
            for dtype in ["real", "int", "single", "csingle"]:
                for _ in range(ctx.n(1, 3)):
                    # physical dimension above twice the bond dimension: the augmented leaf basis [old, evolved] is
                    # then a proper subspace, so a wrong evolved tensor changes the result
                    add("dtype", kind, shape(3), dtype=dtype, algo=algo, phys=[5])
            for ss, hs in [(1e-8, 1.0), (1e8, 1.0), (1.0, 1e-6), (1.0, 1e3), (1e-8, 1e-6), (1e8, 1e3), (1e-150, 1.0)]:
                add("magnitude", kind, shape(4), sscale=ss, hscale=hs, algo=algo, phys=[3, 3, 2])
            add("magnitude", kind, shape(4), zero=True, algo=algo)
        for _ in range(ctx.n(3, 12)):
            add("phys1-names", kind, shape(), phys=[1, 2, 1, 3], names="prefix")
        for _ in range(ctx.n(2, 8)):
            add("read-only", kind, shape(4), readonly=True)
    for _ in range(ctx.n(6, 30)):
        add("second-step", "equality", shape(), algo="fixedbug", second=True)
    for hist in [{"reset_after": 1, "retime_after": 1, "retime_n": 3}, {"setn_after": 1, "setn": 7},
                 {"retime_after": 0, "retime_n": 2, "reset_after": 2}, {"reset_after": 1, "pregauge": "KEEP",
                                                                        "gauge_at": "nonroot"}]:
        for algo in ("bug", "fixedbug"):
            add("history", "contract", shape(4), steps=3, algo=algo, **hist)
    for extra in [{"sscale": 1e-8}, {"sscale": 1e8}, {"hscale": 1e-6}, {"hscale": 1e3}, {"dtype": "real"},
                  {"dtype": "int"}, {"cfg": "none"}, {"cfg": "chebyshev"}, {"cfg": "sparse"}, {"steps": 3},
                  {"steps": 2, "reset_after": 1}, {"names": "prefix"}, {"pregauge": "KEEP"}, {"pregauge": "REDUCED"},
                  {"readonly": True}, {"ttno": "generic"}, {"retime": 2}, {"rootfirst": False}]:
        for algo in ("bug", "fixedbug"):
            out.append(dict({"kind": "saturated", "seed": rng.randrange(10 ** 9), "algo": algo,
                             "deep": rng.random() < 0.5, "d": rng.choice([2, 3]), "fam": "saturated-audit"}, **extra))
    return out


def run(ctx):
    rec = c05.Recorder()
    rec.install()
    try:
        pend = []
        for c in gen_cases(ctx):
            if ctx.time_left() < 0:
                break
            o = _run_one(ctx, c, rec)
            if o:
                pend.append((c, o))
        outs = ctx.lean.batch([o["line"] for _, o in pend])
        for (c, o), mo in zip(pend, outs):
            ctx.corr_cases += 1
            if mo.split(" | ")[0] != o["impl"]:
                ctx.corr_fail(c, f"update order: impl=[{o['impl']}] model=[{mo}]")
        gp = [(c, o) for c, o in pend if o.get("gline")]
        glines = []
        for _, o in gp:
            glines.append(o["gline"])
            if o.get("sstep"):
                glines.append(o["sstep"]["line"])
        gouts = iter(ctx.lean.batch(glines) if gp else [])
        for c, o in gp:
            ctx.corr_cases += 1
            check_gauge(ctx, c, o, next(gouts))
            if o.get("sstep"):
                ctx.corr_cases += 1
                check_sstep(ctx, c, o, next(gouts))
    finally:
        rec.uninstall()
    # tie of the BUG environment machine (Ptn.C09.Env) to the code: every cache read of a BUG / FixedBUG step with the
    # generation (old / new basis) of the block it returns, against the model (harness shared with C17)
    from harness.props import c17
    c17.run_real_parts(ctx, ["bugenv"], ctx.n(12, 120))


def run_case(ctx, case):
    if case.get("via") == "c17":
        from harness.props import c17
        return c17.run_case(ctx, case)
    rec = c05.Recorder()
    rec.install()
    try:
        o = _run_one(ctx, case, rec)
        if o:
            mo = ctx.lean.batch([o["line"]])[0]
            if mo.split(" | ")[0] != o["impl"]:
                ctx.corr_fail(case, f"update order: impl=[{o['impl']}] model=[{mo}]")
            if o.get("gline"):
                lines = [o["gline"]] + ([o["sstep"]["line"]] if o.get("sstep") else [])
                mouts = ctx.lean.batch(lines)
                check_gauge(ctx, case, o, mouts[0])
                if o.get("sstep"):
                    check_sstep(ctx, case, o, mouts[1])
    finally:
        rec.uninstall()


class OrderRecorder(c05.Recorder):
    """Only records which node every local evolution acts on (no E^H H E check: during a BUG update the
    environment mixes two states; the dense reference decides the value-level clause)."""

    def observe(self, psi, heff, td, forward, mode):
        self.events.append((tuple(psi.shape), td, forward))


def _make_state(case, want_schmidt):
    """Legacy keys: par, seed.  Audit keys (shared with harness/props/c05.py): names, phys, ttno, dtype, sscale, hscale,
    pregauge + gauge_at, readonly.  Returns None if no state with bonds = Schmidt ranks was found."""
    rng = random.Random(case["seed"])
    nprng = np.random.default_rng(case["seed"])
    par = case["par"]
    n = len(par)
    real = case.get("dtype") in ("real", "int", "single")
    realH = case.get("dtype") in ("int", "single")      # dtype "real": real state, complex Hamiltonian
    kw = {}
    if case.get("names"):
        kw["names"] = {i: c05.NAME_SETS[case["names"]][i] for i in range(n)}
    if real:
        kw["complex_"] = False
    phys_choices = tuple(case.get("phys") or (2, 3))
    for attempt in range(30):
        bonds = (1, 2, 2, 3) if attempt < 15 else (1, 2)
        ttns, info = gen.random_ttns(rng, nprng, par, phys=phys_choices, bonds=bonds if want_schmidt else (1, 2, 3, 4),
                                     **kw)
        if case.get("dtype") == "int":
            for nid in list(ttns.nodes):
                ttns.replace_tensor(nid, c05._cast(ttns.tensors[nid], "int"))
        order = sorted(ttns.nodes)
        if not want_schmidt or schmidt_ranks_equal(ttns, order):
            break
    else:
        return None
    names = info["names"]
    phys = {i: info["open"][i][0] for i in range(n)}
    hs = case.get("hscale") or 1.0
    if case.get("ttno") == "generic":
        H, Hm = c05.generic_ttno(rng, nprng, par, phys, names, True, real=realH, scale=hs)
    else:
        H, Hm = algos.hermitian_ttno(rng, nprng, par, phys, names, n_terms=rng.randint(1, 3), scale=hs)
        if realH:
            # real symmetric Hamiltonian: the real part of every tensor-product factor
            for nid in list(H.nodes):
                H.replace_tensor(nid, np.real(H.tensors[nid]))
            Hm = dense.ttno_matrix(H, order).astype(complex)
    info["tolf"] = 1.0
    if any(case.get(k) for k in ("dtype", "sscale", "readonly", "zero")) or \
            (case.get("pregauge") and case.get("gauge_at")):
        Hm, info["tolf"] = c05.specialise(case, rng, ttns, H, Hm)
    return rng, nprng, ttns, info, H, Hm, order


def make_bug(case, kind, ttns, H, dt, svd):
    """BUG / FixedBUG through the configuration the case asks for (default: explicit EXPM config as before)."""
    cfg = case.get("cfg")
    if cfg is None:
        return algos.make_algo(kind, ttns, H, dt, dt, [], deep=case["deep"], svd=dict(svd) if svd else None)
    from pytreenet.time_evolution.time_evolution import TimeEvoMode
    if kind == "bug":
        from pytreenet.time_evolution.bug import BUG, BUGConfig
        if cfg == "none":
            return BUG(ttns, H, dt, dt, [])                  # config=None: BUGConfig() (partial copies, default truncation)
        return BUG(ttns, H, dt, dt, [], config=BUGConfig(time_evo_mode=TimeEvoMode(cfg), deep=case["deep"],
                                                         **(dict(svd) if svd else NO_TRUNC)))
    from pytreenet.time_evolution.fixed_bug import FixedBUG, FixedBUGConfig
    if cfg == "none":
        return FixedBUG(ttns, H, dt, dt, [])
    return FixedBUG(ttns, H, dt, dt, [], config=FixedBUGConfig(time_evo_mode=TimeEvoMode(cfg), deep=case["deep"]))


def canonical_at_root(parent, children, tensors):
    """Independent canonicalisation (dense QR sweeps from the leaves to the root) of a state given as parent map,
    children lists and tensors with legs (parent, children..., physical).  The BUG step depends only on the represented
    vector (for bonds = Schmidt ranks), so the reference may start from ANY canonical representation of the caller's
    state; starting from our own makes the reference independent of how the library prepares its working state."""
    T = {n: np.array(t, dtype=complex) for n, t in tensors.items()}
    root = [n for n in parent if parent[n] is None][0]
    order, stack = [], [root]
    while stack:
        x = stack.pop()
        order.append(x)
        stack.extend(children[x])
    for n in reversed(order):
        if n == root:
            continue
        t = T[n]
        m = np.moveaxis(t, 0, -1)
        shp = m.shape
        q, r = np.linalg.qr(m.reshape(-1, shp[-1]))
        T[n] = np.moveaxis(q.reshape(shp[:-1] + (q.shape[1],)), -1, 0)
        p = parent[n]
        k = (0 if parent[p] is None else 1) + children[p].index(n)
        T[p] = np.moveaxis(np.tensordot(T[p], r, axes=([k], [1])), -1, k)
    return T


def _step(algo, kind, truncate=True):
    if kind == "bug" and not truncate:
        algo.recursive_update()
    else:
        algo.run_one_time_step()


def _observed_order(algo, kind, order_ids, step_fn):
    """Run one step while recording which node each local evolution acts on, via the orthogonality centre of
    the state handed to the propagator: we wrap single_site_time_evolution's module-level name.  The same run is
    observed for the gauge machine (`GaugeObserver`); its events are left in `_observed_order.gauge`."""
    cb = _common_bug_module()
    seen = []
    orig = cb.single_site_time_evolution
    gobs = GaugeObserver(algo, cb)

    def wrapped(node_id, *a, **k):
        seen.append(node_id)
        gobs.events.append(("evolve", node_id))
        return orig(node_id, *a, **k)
    cb.single_site_time_evolution = wrapped
    _observed_order.gauge = None
    try:
        with gobs:
            step_fn()
    finally:
        cb.single_site_time_evolution = orig
    _observed_order.gauge = gobs
    return seen


class GaugeObserver:
    """Observes, from outside, the events of `root_update` that the gauge machine `Ptn.C09.Gauge` models: centre moves
    on the working copies (with the QR mode), `pull_tensor_from_different_ttn`, `contract_all_children` on the new
    state, the QR that yields every new basis tensor (augmented or not) with the node it is stored at and the
    neighbour its R-leg points to (`split_node_replace`), and the final `replace_tensor` of the root.  Only calls made
    while `recursive_update` runs are recorded (the truncation pass uses some of the same methods).  The new basis
    tensors are kept for the validation of the QR contract (isometry toward the parent).

    Every observation point is OPTIONAL: a name is wrapped only if it exists (class methods: a plain function reachable
    on `TreeTensorNetwork`; module names: attributes of `common_bug`).  A missing point the comparison cannot do without
    (`HARD_*`), a step that never enters `recursive_update`, or an exception inside the observation code itself makes
    `skip_reason()` non-empty: the correspondence of that run is then skipped and tallied.  The observation code runs
    inside `_quiet` and never raises into the step; the wrapped callable always gets exactly the caller's arguments, so
    the step itself is the unobserved one and the oracle clauses are judged on it as usual.  The QR points are soft: if
    one is missing the comparison still runs when every `split_node_replace` saw which QR produced its basis."""

    BC = "_basis_change_tensor"
    HARD_CLS = ("move_orthogonalization_center", "contract_all_children", "split_node_replace", "replace_tensor")
    HARD_MOD = ("pull_tensor_from_different_ttn",)
    QR_MOD = ("tensor_qr_decomposition", "compute_fixed_size_new_basis_tensor", "compute_new_basis_tensor")
    SOFT_MOD = QR_MOD + ("deepcopy",)

    def __init__(self, algo, cb):
        self.algo, self.cb = algo, cb
        self.events, self.bases = [], []
        self.active = False
        self.activated = False
        self.in_pull = False
        self.qr_kind = None
        self.missing = []           # observation points that do not exist in this version of the library
        self.broken = None          # first exception raised by the observation code itself
        # structure level (`C09 sstep`): the whole new_state after every call that edits it
        self.snap0 = None           # algo.state right before the step (what root_update deep-copies)
        self.snap0_copy = None      # the first deepcopy made inside root_update (= the initial new_state), if seen
        self.snaps = []             # (kind, node identifier, snapshot of the TTN the call edited), after the call returned
        self.pull_perms = {}        # node -> permutation the pull handed to replace_tensor
        self._restore = []          # undo actions, in the order of installation

    # ------------------------------------------------------------------ what can be compared
    def skip_reason(self):
        hard = [n for n in self.missing if n in self.HARD_CLS + self.HARD_MOD + ("recursive_update",)]
        if hard:
            return "observation point " + ", ".join(hard) + " missing"
        if self.broken:
            return "observation code failed (" + self.broken + ")"
        if not self.activated:
            return "recursive_update never called"
        if any(e[0] == "basis" and e[5] is None for e in self.events) and any(n in self.missing for n in self.QR_MOD):
            return "observation point " + ", ".join(n for n in self.missing if n in self.QR_MOD) + \
                   " missing and a split_node_replace without an observed QR"
        return None

    def _quiet(self, fn, *a):
        """Run observation code; its own exceptions never reach the step (the run is skipped instead)."""
        try:
            return fn(*a)
        except Exception as e:      # noqa: BLE001
            if self.broken is None:
                self.broken = f"{getattr(fn, '__name__', 'observer')}: {type(e).__name__}: {str(e)[:120]}"
            return None

    @staticmethod
    def _bound(orig, a, k):
        import inspect
        b = inspect.signature(orig).bind(*a, **k)
        b.apply_defaults()
        return b.arguments

    def _wrap_cls(self, name, before=None, after=None):
        """Wrap the method `name` of TreeTensorNetwork: `before(args)` may return a token handed to `after(args, token)`,
        which runs only if the call returned."""
        import inspect
        T = self._T
        orig = getattr(T, name, None)
        if not inspect.isfunction(orig):
            self.missing.append(name)
            return
        me = self
        own = name in T.__dict__

        def wrapper(*a, **k):
            tok = None
            args = None
            if me.active:
                args = me._quiet(me._bound, orig, a, k)
                if args is not None and before is not None:
                    tok = me._quiet(before, args)
            res = orig(*a, **k)
            if args is not None and after is not None and me.active:
                me._quiet(after, args, tok)
            return res
        wrapper.__name__ = name
        setattr(T, name, wrapper)
        self._restore.append((lambda: setattr(T, name, orig)) if own else (lambda: delattr(T, name)))

    def _wrap_mod(self, name, make):
        cb = self.cb
        if not hasattr(cb, name) or not callable(getattr(cb, name)):
            self.missing.append(name)
            return
        orig = getattr(cb, name)
        setattr(cb, name, make(orig))
        self._restore.append(lambda: setattr(cb, name, orig))

    def __enter__(self):
        try:
            self._install()
        except Exception as e:      # noqa: BLE001  (an installation that fails half-way is undone: the step runs unobserved)
            self._uninstall()
            if self.broken is None:
                self.broken = f"install: {type(e).__name__}: {str(e)[:120]}"
        return self

    def _install(self):
        from pytreenet.core.ttn import TreeTensorNetwork as T
        from pytreenet.util.tensor_splitting import SplitMode
        me = self
        self._T = T

        def b_move(args):
            me.events.append(("down", args["self"].orthogonality_center_id, args["new_center_id"],
                              args["mode"] == SplitMode.KEEP))

        def b_cac(args):
            me.events.append(("absorb", args["node_id"], tuple(args["self"].nodes[args["node_id"]].children)))

        def a_cac(args, _):
            me.snaps.append(("absorb", args["node_id"], struct_snapshot(args["self"])))

        def b_snr(args):
            me.events.append(("basis", args["node_id"], args["identifier_a"], args["identifier_b"],
                              args["legs_a"].parent_leg, me.qr_kind))
            me.bases.append((args["node_id"], args["tensor_b"], me.qr_kind))
            me.qr_kind = None

        def a_snr(args, _):
            me.snaps.append(("basis", args["node_id"], struct_snapshot(args["self"])))

        def b_rt(args):
            if me.in_pull:
                perm = args["permutation"]
                me.pull_perms[args["node_id"]] = None if perm is None else [int(x) for x in perm]
                return False
            me.events.append(("store", args["node_id"]))
            return True

        def a_rt(args, store):
            if store:
                me.snaps.append(("store", args["node_id"], struct_snapshot(args["self"])))

        self._wrap_cls("move_orthogonalization_center", b_move)
        self._wrap_cls("contract_all_children", b_cac, a_cac)
        self._wrap_cls("split_node_replace", b_snr, a_snr)
        self._wrap_cls("replace_tensor", b_rt, a_rt)

        def mk_pull(orig):
            def pull(*a, **k):
                act = me.active
                args = me._quiet(me._bound, orig, a, k) if act else None
                if args is not None:
                    me._quiet(lambda: me.events.append(("pull", args["node_id"])))
                me.in_pull = True
                try:
                    res = orig(*a, **k)
                finally:
                    me.in_pull = False
                if args is not None:
                    me._quiet(lambda: me.snaps.append(("pull", args["node_id"], struct_snapshot(args["new_ttn"]))))
                return res
            return pull

        def mk_leaf_qr(orig):
            def leaf_qr(*a, **k):
                def note():
                    me.qr_kind = "keep" if me._bound(orig, a, k)["mode"] == SplitMode.KEEP else "aug"
                me._quiet(note)
                return orig(*a, **k)
            return leaf_qr

        def mk_fixed(orig):
            def fixed_basis(*a, **k):
                me.qr_kind = "keep"
                return orig(*a, **k)
            return fixed_basis

        def mk_aug(orig):
            def aug_basis(*a, **k):
                me.qr_kind = "aug"
                return orig(*a, **k)
            return aug_basis

        def mk_dcopy(orig):
            def dcopy(*a, **k):
                # `new_state = deepcopy(current_state)` is the first deep copy `root_update` makes
                res = orig(*a, **k)
                if me.active and me.snap0_copy is None and isinstance(res, T):
                    def note():
                        me.snap0_copy = struct_snapshot(res)
                    me._quiet(note)
                return res
            return dcopy

        self._wrap_mod("pull_tensor_from_different_ttn", mk_pull)
        self._wrap_mod("tensor_qr_decomposition", mk_leaf_qr)
        self._wrap_mod("compute_fixed_size_new_basis_tensor", mk_fixed)
        self._wrap_mod("compute_new_basis_tensor", mk_aug)
        self._wrap_mod("deepcopy", mk_dcopy)
        orig_update = getattr(self.algo, "recursive_update", None)
        if not callable(orig_update):
            self.missing.append("recursive_update")
            return

        def rec_update(*a, **k):
            def note():
                me.snap0 = struct_snapshot(me.algo.state)
            me._quiet(note)
            me.active = me.activated = True
            try:
                return orig_update(*a, **k)
            finally:
                me.active = False
        self.algo.recursive_update = rec_update

        def undo():
            try:
                del self.algo.recursive_update
            except AttributeError:
                pass
        self._restore.append(undo)

    def _uninstall(self):
        while self._restore:
            undo = self._restore.pop()
            try:
                undo()
            except Exception:       # noqa: BLE001
                pass

    def __exit__(self, *exc):
        self._uninstall()
        return False

    def render(self, inv):
        """The observed events in the vocabulary of the model's `gauge` answer (identifiers -> model numbers; a
        basis-change node is named by the node below it)."""
        out = []
        for e in self.events:
            if e[0] == "down":
                out.append(f"down {inv[e[1]]}>{inv[e[2]]} {int(e[3])}")
            elif e[0] == "pull":
                out.append(f"pull {inv[e[1]]}")
            elif e[0] == "absorb":
                kids = []
                for k in e[2]:
                    if not k.endswith(self.BC) or k[:-len(self.BC)] not in inv:
                        return None, f"contract_all_children({e[1]}) met the child {k}, not a basis-change node"
                    kids.append(inv[k[:-len(self.BC)]])
                out.append(f"absorb {inv[e[1]]} " + ",".join(str(k) for k in sorted(kids)))
            elif e[0] == "evolve":
                out.append(f"evolve {inv[e[1]]}")
            elif e[0] == "basis":
                _, nid, ida, idb, par, qk = e
                if idb != nid or ida != nid + self.BC or par not in inv or qk is None:
                    return None, f"split_node_replace({nid}) with identifiers ({ida}, {idb}), parent {par}, QR {qk}"
                out.append(f"basis {inv[nid]}>{inv[par]} {int(qk == 'aug')}")
            elif e[0] == "store":
                out.append(f"store {inv[e[1]]}")
        return " ; ".join(out), None


def struct_snapshot(ttn):
    """Structure and shapes of ALL nodes of a TTN, read without touching a tensor: `Node.shape` is the recorded shape seen
    through the node's leg permutation (a property without side effect), the tensor keys are read through the mapping's
    key view (no `__getitem__`, which would transpose and re-store)."""
    return {"root": ttn.root_id, "T": sorted(ttn.tensors.keys()),
            "nodes": {nid: (nd.parent, tuple(nd.children), None if nd.shape is None else tuple(int(d) for d in nd.shape))
                      for nid, nd in ttn.nodes.items()}}


BC_OFFSET = 1000        # model number of `<c>_basis_change_tensor` = BC_OFFSET + number of c


def _snap_numbers(snap, inv):
    """A snapshot in model numbers (`None` + reason if it contains an identifier that is neither a node of the tree nor
    the basis-change node of one)."""
    bc = GaugeObserver.BC

    def num(x):
        if x is None:
            return None
        if x in inv:
            return inv[x]
        if x.endswith(bc) and x[:-len(bc)] in inv:
            return BC_OFFSET + inv[x[:-len(bc)]]
        raise KeyError(x)
    try:
        return {"root": num(snap["root"]), "T": sorted(num(x) for x in snap["T"]),
                "nodes": {num(nid): (num(p), tuple(num(c) for c in ch), shp)
                          for nid, (p, ch, shp) in snap["nodes"].items()}}, None
    except KeyError as e:
        return None, f"identifier {e.args[0]!r} in new_state is neither a node nor a basis-change node"


def build_sstep(gobs, inv, tree_toks, fixed):
    """The `C09 sstep` request of an observed step and what the answer is compared with.  Building ops: the initial
    new_state in pre-order, every node's tensor given in its logical leg order (parent, children in the order of the
    children LIST, open legs), so that every `child:` op attaches leg 0 to the leg of the parent that already is in place.
    Labels are arbitrary (never compared): bond above node x = 2000 + x, k-th open leg of x = 100000 + 100 x + k."""
    if gobs.snap0 is None:
        return None, "no snapshot of the state before the step"
    if gobs.snap0_copy is not None and gobs.snap0_copy != gobs.snap0:
        return None, "the initial new_state (first deepcopy inside root_update) differs from algo.state before the step"
    s0, why = _snap_numbers(gobs.snap0, inv)
    if s0 is None:
        return None, why
    if sorted(s0["nodes"]) != sorted(inv.values()) or s0["root"] is None:
        return None, f"initial new_state has the nodes {sorted(s0['nodes'])}, root {s0['root']}"
    snaps = []
    for kind, nid, snap in gobs.snaps:
        sn, why = _snap_numbers(snap, inv)
        if sn is None or nid not in inv:
            return None, why or f"{kind} on the unknown node {nid}"
        snaps.append((kind, inv[nid], sn))
    ops = []

    def axes(x):
        par, ch, shp = s0["nodes"][x]
        nv = (0 if par is None else 1) + len(ch)
        labs = ([] if par is None else [2000 + x]) + [2000 + c for c in ch] + \
            [100000 + 100 * x + k for k in range(len(shp) - nv)]
        return ",".join(f"{l}.{d}" for l, d in zip(labs, shp)) if shp else "-"

    def walk(x):
        par, ch, shp = s0["nodes"][x]
        if shp is None or len(shp) < (0 if par is None else 1) + len(ch):
            raise ValueError(f"node {x} has the recorded shape {shp}")
        if par is None:
            ops.append(f"root:{x}:{axes(x)}")
        else:
            pp, pch, _ = s0["nodes"][par]
            ops.append(f"child:{x}:{axes(x)}:0:{par}:{(0 if pp is None else 1) + pch.index(x)}")
        for c in ch:
            walk(c)
    try:
        walk(s0["root"])
    except (ValueError, KeyError) as e:
        return None, f"initial new_state cannot be mirrored: {e}"
    pars = []
    for x in sorted(s0["nodes"]):
        if x == s0["root"]:
            continue
        split = [sn for kind, c, sn in snaps if kind == "basis" and c == x]
        if len(split) != 1 or x not in split[0]["nodes"] or not split[0]["nodes"][x][2]:
            return None, f"{len(split)} split_node_replace calls observed for node {x}"
        # the new rank: dimension of the bond between <x>_basis_change_tensor and x = parent leg (leg 0) of x after the split
        pars += [f"b:{x}={BC_OFFSET + x}", f"d:{x}={split[0]['nodes'][x][2][0]}"]
    for nid, perm in gobs.pull_perms.items():
        if perm is not None and nid in inv:
            pars.append(f"p:{inv[nid]}=" + (",".join(str(q) for q in perm) if perm else "-"))
    line = f"C09 sstep {int(fixed)} " + " ".join(tree_toks) + " / " + " ".join(ops) + " / " + " ".join(pars)
    restored = {x: snaps[-1][2]["nodes"].get(x, (None, None))[1] == v[1] for x, v in s0["nodes"].items()} if snaps else {}
    return {"line": line, "snap0": s0, "snaps": snaps, "fixed": bool(fixed),
            "restored": bool(restored) and all(restored.values())}, None


def parse_show_ttn(txt):
    """`Ptn.C02.showTTN` -> the form of `_snap_numbers` (the open-label column is dropped: labels are not observable)."""
    fields = txt.split(";")

    def lst(t):
        return () if t == "-" else tuple(int(x) for x in t.split(","))
    if len(fields) < 2 or not fields[0].startswith("root=") or not fields[1].startswith("T="):
        raise ValueError(txt)
    r = fields[0][5:]
    out = {"root": None if r == "-" else int(r), "T": sorted(lst(fields[1][2:])), "nodes": {}}
    for f in fields[2:]:
        parts = f.split(":")
        if len(parts) != 5:
            raise ValueError(f)
        out["nodes"][int(parts[0])] = (None if parts[1] == "-" else int(parts[1]), lst(parts[2]), lst(parts[4]))
    return out


def _state_diff(model, real):
    if model["root"] != real["root"]:
        return f"root model {model['root']} real {real['root']}"
    if model["T"] != real["T"]:
        return f"tensor keys model {model['T']} real {real['T']}"
    if sorted(model["nodes"]) != sorted(real["nodes"]):
        return f"nodes model {sorted(model['nodes'])} real {sorted(real['nodes'])}"
    for x in sorted(model["nodes"]):
        if model["nodes"][x] != real["nodes"][x]:
            return f"node {x} (parent, children, shape): model {model['nodes'][x]} real {real['nodes'][x]}"
    return None


def check_sstep(ctx, case, o, ans):
    """Stage B for the structural model of the step (`Ptn.C09.Step` on the C02 model): after every pull / absorb / basis /
    store the model's state equals the snapshot of the real new_state taken after the corresponding call - identifiers,
    parents, children LISTS (order included), logical shapes, tensor keys, root, of ALL nodes, exactly; `down` / `evolve`
    leave the rendered state unchanged; the basis-change nodes pending in the gauge machine after every event are
    exactly those present in the real new_state (with their parents); no `err` / `stuck`."""
    so = o["sstep"]
    if ans == "bad-op":
        ctx.corr_fail(case, f"structural step model answered bad-op for {so['line']}")
        return
    fields = ans.split(" | ")
    cur, prev_txt, k, compared = so["snap0"], None, 0, 0
    for i, f in enumerate(fields):
        try:
            ev, rest = f.split(" => ", 1)
            txt, pend = rest.split(" # pend ", 1)
            pend = pend.strip()
            evk = ev.split(" ")[0]
        except ValueError:
            ctx.corr_fail(case, f"structural step model: malformed field [{f}]")
            return
        if txt == "err" or pend == "stuck":
            ctx.corr_fail(case, f"structural step model: after [{ev}] the state is [{txt[:40]}], pend [{pend}] "
                                f"(request {so['line']})")
            return
        if (i == 0) != (evk == "start"):
            ctx.corr_fail(case, f"structural step model: field {i} is [{ev}]")
            return
        if evk in ("start", "pull", "absorb", "basis", "store"):
            if evk != "start":
                if k >= len(so["snaps"]):
                    ctx.corr_fail(case, f"structural step: the model edits new_state at [{ev}], the real step made only "
                                        f"{len(so['snaps'])} edits")
                    return
                rk, rn, cur = so["snaps"][k]
                k += 1
                if rk != evk or str(rn) != ev.split(" ")[1].split(">")[0]:
                    ctx.corr_fail(case, f"structural step: model event [{ev}] against the real edit {rk} {rn}")
                    return
            try:
                diff = _state_diff(parse_show_ttn(txt), cur)
            except ValueError as e:
                ctx.corr_fail(case, f"structural step model: unreadable state after [{ev}]: {e}")
                return
            if diff:
                ctx.corr_fail(case, f"structural step: new_state after [{ev}] (event {i}): {diff}")
                return
            compared += 1
        elif evk in ("down", "evolve"):
            if txt != prev_txt:
                ctx.corr_fail(case, f"structural step model: [{ev}] changed the rendered state")
                return
            ctx.tally("struct", "states unchanged by down / evolve")
        else:
            ctx.corr_fail(case, f"structural step model: unknown event [{ev}]")
            return
        want = sorted((x - BC_OFFSET, v[0]) for x, v in cur["nodes"].items() if x >= BC_OFFSET)
        try:
            got = sorted(tuple(int(z) for z in e.split(">")) for e in pend.split(",")) if pend != "-" else []
        except ValueError:
            got = None
        if got != want:
            ctx.corr_fail(case, f"structural step: pending basis-change nodes after [{ev}]: gauge machine {pend}, "
                                f"real new_state {want}")
            return
        prev_txt = txt
    if k != len(so["snaps"]):
        ctx.corr_fail(case, f"structural step: the real step made {len(so['snaps'])} edits of new_state, the model {k}")
        return
    for _ in range(compared):
        ctx.tally("struct", "struct_states")
    ctx.notes["struct_states"] = ctx.notes.get("struct_states", 0) + compared
    ctx.tally("struct", "runs compared (all states equal)")
    ctx.tally("struct_runs", ("fixed-rank" if so["fixed"] else "rank-adaptive") + f", {len(so['snap0']['nodes'])} nodes")
    ctx.tally("struct_children_lists_after_step", "equal to before" if so["restored"] else "order changed")


def canon_gauge_answer(ans):
    """The model's `gauge` answer with the children of every `absorb` sorted (the code contracts them in the order of
    the node's children list, the model lists them in visiting order; the gauge does not depend on it)."""
    evs = []
    for tok in ans.split(" | ")[0].split(" ; "):
        parts = tok.split(" ")
        if parts[0] == "absorb":
            kids = sorted(int(k) for k in (parts[2].split(",") if len(parts) > 2 and parts[2] else []))
            tok = f"absorb {parts[1]} " + ",".join(str(k) for k in kids)
        evs.append(tok)
    return " ; ".join(evs)


def check_gauge(ctx, case, o, ans):
    """Stage B for the gauge machine: exact comparison of the event sequences; the model's final record must be
    `n>parent` for every non-root node, `root>-`, no pending basis-change node, only the start frame."""
    if ans in ("bad-op", "stuck"):
        ctx.corr_fail(case, f"gauge machine answered {ans} for {o['gline']}")
        return
    if canon_gauge_answer(ans) != o["gimpl"]:
        ctx.corr_fail(case, f"gauge events: impl=[{o['gimpl']}] model=[{canon_gauge_answer(ans)}]")
        return
    parts = ans.split(" | ")
    want = " ".join(f"{c}>{'-' if p is None else p}" for c, p in o["gparents"])
    if len(parts) != 4 or parts[1] != want or parts[2] != "pend 0" or parts[3] != f"frames {o['groot']}":
        ctx.corr_fail(case, f"gauge machine final state [{' | '.join(parts[1:])}], tree says [{want}]")


SVD_FIELDS = ("max_bond_dim", "rel_tol", "total_tol", "renorm", "sum_trunc", "sum_renorm")


class TruncObserver:
    """Records the parameter object handed to every truncate_singular_values call (wrapped from outside)."""

    def __init__(self):
        import sys
        from pytreenet.util.tensor_splitting import truncate_singular_values  # noqa: F401
        ts = sys.modules.get("pytreenet.util.tensor_splitting")
        if ts is None or not hasattr(ts, "truncate_singular_values"):
            from harness.common import HarnessError
            raise HarnessError("cannot locate pytreenet.util.tensor_splitting.truncate_singular_values")
        self.ts = ts
        self.calls = []
        self.orig = ts.truncate_singular_values

    def __enter__(self):
        obs = self

        def wrapped(s, svd_params, *a, **k):
            obs.calls.append({f: getattr(svd_params, f, None) for f in SVD_FIELDS})
            return obs.orig(s, svd_params, *a, **k)
        self.ts.truncate_singular_values = wrapped
        return self

    def __exit__(self, *exc):
        self.ts.truncate_singular_values = self.orig
        return False


def _common_bug_module():
    import sys
    from pytreenet.time_evolution.bug import BUG  # noqa: F401  (makes sure the module is loaded)
    mod = sys.modules.get("pytreenet.time_evolution.time_evo_util.common_bug")
    if mod is None or not hasattr(mod, "single_site_time_evolution"):
        from harness.common import HarnessError
        raise HarnessError("cannot locate common_bug.single_site_time_evolution to observe the update order")
    return mod


def _run_one(ctx, case, rec):
    if case["kind"] == "saturated":
        _saturated(ctx, case)
        return None
    if case["kind"] == "flatleaf":
        _flatleaf(ctx, case)
        return None
    kind = case["algo"]
    _common_bug_module()
    made = _make_state(case, want_schmidt=(case["kind"] == "equality" or case.get("fullrank", False)))
    if made is None:
        return None
    rng, nprng, ttns, info, H, Hm, order = made
    names = info["names"]
    inv = {v: k for k, v in names.items()}
    n = len(case["par"])
    redundant = any(c05._redundant(ttns, nid) for nid in ttns.nodes)
    ctx.tally("kind", case["kind"])
    ctx.tally("integrator", kind + ("-deep" if case["deep"] else "-partial"))
    ctx.tally("nodes", n)
    ctx.tally("redundant_bond", redundant)
    ctx.tally("audit_family", case.get("fam", "-"))
    for key in ("ttno", "cfg", "dtype"):
        if case.get(key):
            ctx.tally("audit_" + key, case[key])
    ctx.sample(case, 3)
    hs = case.get("hscale") or 1.0
    dt = 0.05 / hs                          # |H| dt stays O(1): magnitude of H and step size are varied together
    tf = info["tolf"]                       # element-type factor of all tolerances (single precision: 5e3)
    svd = case.get("svd")
    # config=None means BUGConfig(): truncation with max_bond_dim 100 and tolerances 1e-15 (nothing of weight is cut)
    svd_used = svd if svd else (dict(max_bond_dim=100, rel_tol=1e-15, total_tol=1e-15)
                                if case.get("cfg") == "none" and kind == "bug" else None)
    struct0 = dense.structure(ttns)

    def fail(detail, exc=None):
        finding = None
        if kind == "bug" and exc is not None and type(exc).__name__ == "NotCompatibleException" and redundant:
            finding = "F-C09"
        ctx.oracle_fail(case, detail, finding)

    try:
        algo = make_bug(case, kind, ttns, H, dt, svd)
    except Exception as e:              # noqa: BLE001
        fail(f"{kind}: construction raised {type(e).__name__}: {str(e)[:200]}", e)
        return None
    shapes0 = c06._shape_map(algo.state)
    probs = []
    ctx.count((case["kind"], kind, case["deep"], tuple(case["par"]), case["seed"], case.get("fam")),
              nontrivial=n >= 3 or bool(case.get("fam")))
    # ---------------- equality clause
    if case["kind"] == "equality":
        # the reference starts from the CALLER's state (never modified by the library), canonicalised independently
        parent, children, tensors = bugref.read_state(ttns)
        try:
            ref = bugref.bug_step(parent, children, canonical_at_root(parent, children, tensors), Hm, order, dt,
                                  fixed_rank=(kind == "fixedbug"))
        except Exception as e:          # noqa: BLE001
            from harness.common import HarnessError
            raise HarnessError(f"dense BUG reference failed: {type(e).__name__}: {e}")
        try:
            seen = _observed_order(algo, kind, order, lambda: _step(algo, kind, truncate=False))
        except Exception as e:          # noqa: BLE001
            ctx.tally("struct", "skipped: step raised")
            fail(f"{kind}: step raised {type(e).__name__}: {str(e)[:200]}", e)
            return None
        v1 = dense.ttns_vector(algo.state, order)
        err = np.linalg.norm(v1 - ref) / max(1e-300, np.linalg.norm(ref))
        key = "max_equality_err" if tf == 1.0 else "max_equality_err_single_precision"
        ctx.notes[key] = max(ctx.notes.get(key, 0.0), float(err))
        if err > 1e-7 * tf:
            probs.append(f"state after one step differs from the BUG scheme's dense reference (rel. err {err:.2e})")
        if case.get("second") and not probs and kind == "fixedbug" and schmidt_ranks_equal(algo.state, order):
            # "several consecutive steps": the second fixed-rank step from the state the first one produced
            ctx.tally("second_step_equality", True)
            parent, children, tensors = bugref.read_state(algo.state)
            try:
                ref2 = bugref.bug_step(parent, children, canonical_at_root(parent, children, tensors), Hm, order, dt,
                                       fixed_rank=True)
            except Exception as e:      # noqa: BLE001
                from harness.common import HarnessError
                raise HarnessError(f"dense BUG reference failed: {type(e).__name__}: {e}")
            try:
                _step(algo, kind, truncate=False)
            except Exception as e:      # noqa: BLE001
                fail(f"{kind}: second step raised {type(e).__name__}: {str(e)[:200]}", e)
                return None
            err2 = np.linalg.norm(dense.ttns_vector(algo.state, order) - ref2) / max(1e-300, np.linalg.norm(ref2))
            if err2 > 1e-7 * tf:
                probs.append(f"state after the second step differs from the dense reference (rel. err {err2:.2e})")
        steps_done = 1
    else:
        seen = None
        steps_done = 0
    # ---------------- contract clauses
    v_prev = dense.ttns_vector(algo.state, order) if steps_done == 0 else None
    if case["kind"] == "contract":
        e_prev = algos.expval_dense(v_prev, Hm)
        for step in range(case["steps"]):
            tobs = TruncObserver()
            try:
                if case.get("reset_after") == step:
                    algo.reset_to_initial_state()
                    v_prev = dense.ttns_vector(algo.state, order)
                    e_prev = algos.expval_dense(v_prev, Hm)
                if case.get("retime_after") == step:
                    algo.set_num_time_steps_constant_final_time(case["retime_n"])
                if case.get("setn_after") == step:
                    algo.set_num_time_steps(case["setn"])
                with tobs:
                    if step == 0:
                        seen = _observed_order(algo, kind, order, lambda: _step(algo, kind))
                    else:
                        _step(algo, kind)
            except Exception as e:      # noqa: BLE001
                if step == 0:
                    ctx.tally("struct", "skipped: step raised")
                fail(f"{kind}: step {step} did not complete: {type(e).__name__}: {str(e)[:200]}", e)
                return None
            if kind == "bug" and svd_used:
                want = {f: svd_used.get(f, d) for f, d in zip(SVD_FIELDS, (100, 1e-15, 1e-15, False, False, True))}
                if not tobs.calls:
                    probs.append(f"step {step}: the rank-adaptive step performed no truncation")
                for c in tobs.calls:
                    if c != want:
                        diff = {f: (c[f], want[f]) for f in SVD_FIELDS if c[f] != want[f]}
                        probs.append(f"step {step}: truncation used settings differing from the configured ones "
                                     f"(used, configured): {diff}")
                        break
            st = algo.state
            v = dense.ttns_vector(st, order)
            n0 = np.linalg.norm(v_prev)
            if kind == "bug" and svd is None:
                # tolerances relative to the data: |psi| for the norm, |H| |psi|^2 for the energy
                if abs(np.linalg.norm(v) - n0) > 1e-8 * tf * n0:
                    probs.append(f"step {step}: rank-adaptive BUG norm drift {abs(np.linalg.norm(v) - n0):.2e} "
                                 f"(norm {n0:.3g})")
                e = algos.expval_dense(v, Hm)
                if abs(e - e_prev) > 1e-8 * tf * np.linalg.norm(Hm) * n0 ** 2:
                    probs.append(f"step {step}: rank-adaptive BUG energy drift {abs(e - e_prev):.2e} (|H| |psi|^2 = "
                                 f"{np.linalg.norm(Hm) * n0 ** 2:.3g})")
                e_prev = e
            if kind == "fixedbug":
                if np.linalg.norm(v) > n0 * (1 + 1e-9 * tf):
                    probs.append(f"step {step}: fixed-rank BUG increased the norm by {np.linalg.norm(v) - n0:.2e} "
                                 f"(norm {n0:.3g})")
                if c06._shape_map(st) != shapes0:
                    probs.append(f"step {step}: fixed-rank BUG changed tensor shapes")
            if svd_used:
                for edge, b in st.bond_dims().items():
                    if b > svd_used["max_bond_dim"]:
                        probs.append(f"step {step}: bond {edge} = {b} > max_bond_dim {svd_used['max_bond_dim']}")
            v_prev = v
    # ---------------- clauses common to both kinds
    st = algo.state
    if dense.structure(st) != struct0:
        probs.append("identifiers / parent-child relations changed")
    else:
        wf = dense.well_formed(st)
        if wf:
            probs.append(f"state not well-formed: {wf[:2]}")
        elif st.orthogonality_center_id != st.root_id:
            probs.append(f"recorded centre {st.orthogonality_center_id} is not the root {st.root_id}")
        else:
            probs += c06.canonical_problems(st, st.root_id, 1e-8 * tf)
    if probs:
        ctx.oracle_fail(case, f"{kind} ({'deep' if case['deep'] else 'partial'} copies): " + "; ".join(probs[:4]))
        return None
    if not seen:
        return None
    # model line: the tree with every node's children in the order the run visited them
    pos = {nid: i for i, nid in enumerate(seen)}
    if sorted(seen) != sorted(order):
        ctx.oracle_fail(case, f"{kind}: local evolutions acted on {seen}, expected every node exactly once")
        return None
    toks = []

    def walk(nid):
        nd = ttns.nodes[nid]
        toks.append(f"{inv[nid]}:{'-' if nd.parent is None else inv[nd.parent]}")
        for c in sorted(nd.children, key=lambda c: min(pos[x] for x in _subtree_ids(ttns, c))):
            walk(c)
    walk(ttns.root_id)
    out = {"line": "C09 order " + " ".join(toks), "impl": " ".join(str(inv[s]) for s in seen)}
    # the gauge machine: the same run seen as centre moves / pulls / absorptions / QR events
    gobs = getattr(_observed_order, "gauge", None)
    skip = gobs.skip_reason() if gobs is not None else None
    if skip:
        # an observation point does not exist in this version of the library (or the observation code failed): no
        # comparison for this run - never an alarm; the step itself ran undisturbed and was judged above
        ctx.tally("gauge_observer", "skipped: " + skip)
        ctx.tally("struct", "skipped: " + skip)
    elif gobs is not None and gobs.events:
        gimpl, why = gobs.render(inv)
        if gimpl is None:
            ctx.oracle_fail(case, f"{kind}: {why}")
            return out
        ctx.tally("gauge_events", len(gobs.events))
        # contract of the QR behind every new basis tensor: an isometry toward the parent (leg 0); in KEEP mode a
        # zero-padded one (Gram matrix = orthogonal projector)
        for nid, q, qk in gobs.bases:
            qm = np.asarray(q).reshape(q.shape[0], -1)
            g = qm @ qm.conj().T
            sc = max(1.0, float(np.abs(g).max()))
            ok = (np.allclose(g, np.eye(g.shape[0]), atol=1e-8 * tf) if qk == "aug" or np.linalg.matrix_rank(qm) == g.shape[0]
                  else np.allclose(g @ g, g, atol=1e-8 * tf * sc) and np.allclose(g, g.conj().T, atol=1e-8 * tf * sc))
            if not ok:
                ctx.oracle_fail(case, f"{kind}: the new basis tensor of {nid} is not an isometry toward its parent")
                return out
            ctx.hyp_validated += 1
        out["gline"] = f"C09 gauge {int(kind == 'fixedbug')} " + " ".join(toks)
        out["gimpl"] = gimpl
        out["gparents"] = [(int(t.split(":")[0]), None if t.split(":")[1] == "-" else int(t.split(":")[1]))
                           for t in toks]
        out["groot"] = inv[ttns.root_id]
        # the structural model of the same step: all of new_state after every edit
        so, why = build_sstep(gobs, inv, toks, kind == "fixedbug")
        if so is None:
            ctx.corr_fail(case, f"{kind}: structural observation of the step unusable: {why}")
        else:
            out["sstep"] = so
    return out


def _subtree_ids(ttns, nid):
    out, i = [nid], 0
    while i < len(out):
        out += ttns.nodes[out[i]].children
        i += 1
    return out


def _flatleaf(ctx, case):
    """Tree r - {L, m - c}: L has physical dimension 4 and a saturated bond 4 with a flat Schmidt spectrum."""
    from pytreenet.ttns.ttns import TreeTensorNetworkState
    rng = random.Random(case["seed"])
    nprng = np.random.default_rng(case["seed"])
    par = [-1, 0, 0, 2]
    names = {0: "r", 1: "L", 2: "m", 3: "c"}
    phys = {0: 2, 1: 4, 2: 2, 3: 5}
    bond = {(0, 1): 4, (0, 2): 2, (2, 3): 2}
    ttns, *_ = gen.build_network(TreeTensorNetworkState, par, bond, {i: [phys[i]] for i in range(4)}, rng, nprng,
                                 names=names, order=[0, 1, 2, 3], shuffle_legs=False)
    H, Hm = algos.hermitian_ttno(rng, nprng, par, phys, names, n_terms=3)
    ttns.canonical_form("r")
    q, _ = np.linalg.qr(gen.rand_tensor(nprng, (4, 4)))
    ttns.replace_tensor("r", (q / 2).reshape(4, 2, 2))      # legs: L (4), m (2), phys (2); norm one, flat spectrum
    ttns.orthogonality_center_id = "r"
    order = sorted(ttns.nodes)
    ctx.count(("flatleaf", case["seed"], case["rel_tol"]), nontrivial=True)
    ctx.tally("kind", "flatleaf")
    struct0 = dense.structure(ttns)
    svd = dict(max_bond_dim=50, rel_tol=case["rel_tol"], total_tol=1e-12)
    try:
        algo = algos.make_algo("bug", ttns, H, case["dt"], case["dt"], [], deep=case["deep"], svd=svd)
    except Exception as e:              # noqa: BLE001
        ctx.oracle_fail(case, f"bug flat-leaf: construction raised {type(e).__name__}: {str(e)[:200]}")
        return
    probs = []
    for step in range(case["steps"]):
        try:
            algo.run_one_time_step()
        except Exception as e:          # noqa: BLE001
            ctx.oracle_fail(case, f"bug flat-leaf: step {step} raised {type(e).__name__}: {str(e)[:200]}")
            return
        st = algo.state
        if dense.structure(st) != struct0:
            probs.append(f"step {step}: identifiers / relations changed")
            break
        if st.orthogonality_center_id != st.root_id:
            probs.append(f"step {step}: recorded centre {st.orthogonality_center_id} is not the root")
        else:
            probs += [f"step {step}: " + p for p in c06.canonical_problems(st, st.root_id)]
        if max(st.bond_dims().values()) > 50:
            probs.append(f"step {step}: bond above the maximum")
        if probs:
            break
    if probs:
        ctx.oracle_fail(case, f"bug flat-leaf (rel_tol={case['rel_tol']}): " + "; ".join(probs[:3]))


def _saturated(ctx, case):
    """Two nodes, bond = both physical dimensions: `steps` steps = exp(-iH steps*dt) psi.  Audit keys: sscale, hscale,
    dtype, cfg, steps, reset_after, names, pregauge, readonly, ttno, retime, rootfirst."""
    from pytreenet.ttns.ttns import TreeTensorNetworkState
    rng = random.Random(case["seed"])
    nprng = np.random.default_rng(case["seed"])
    d = case["d"]
    par = [-1, 0]
    names = {0: "a", 1: "b"} if case.get("rootfirst", True) else {0: "b", 1: "a"}
    if case.get("names"):
        names = {0: c05.NAME_SETS[case["names"]][0], 1: c05.NAME_SETS[case["names"]][1]}
    real = case.get("dtype") in ("real", "int", "single")
    realH = case.get("dtype") in ("int", "single")      # dtype "real": real state, complex Hamiltonian
    ttns, *_ = gen.build_network(TreeTensorNetworkState, par, {(0, 1): d}, {0: [d], 1: [d]}, rng, nprng, names=names,
                                 complex_=not real)
    hs = case.get("hscale") or 1.0
    terms = [{0: gen.rand_hermitian(nprng, d), 1: gen.rand_hermitian(nprng, d)}, {1: gen.rand_hermitian(nprng, d)}]
    if case.get("ttno") == "generic":
        H, Hm = c05.generic_ttno(rng, nprng, par, {0: d, 1: d}, names, True, real=realH, scale=hs)
    else:
        if realH or hs != 1.0:
            terms = [{k: (np.real(o) if realH else o) * (hs if k == 1 else 1.0) for k, o in t.items()} for t in terms]
        H, Hm = algos.ttno_from_terms(par, {0: d, 1: d}, names, terms, rng, nprng)
        if realH:
            for nid in list(H.nodes):
                H.replace_tensor(nid, np.real(H.tensors[nid]))
    tf = 1.0
    if any(case.get(k) for k in ("dtype", "sscale", "readonly", "pregauge")):
        Hm, tf = c05.specialise(dict(case, gauge_at=case.get("gauge_at") or "random"), rng, ttns, H, Hm)
    order = sorted(ttns.nodes)
    v0 = dense.ttns_vector(ttns, order).astype(complex)
    dt = 0.1 / hs                           # |H| dt stays O(1): magnitude of H and step size are varied together
    kind = case["algo"]
    steps = case.get("steps", 1)
    ctx.count(("sat", kind, case["seed"], case.get("fam")), nontrivial=True)
    ctx.tally("kind", "saturated")
    if case.get("fam"):
        ctx.tally("saturated_audit", next(f"{k}={case[k]}" for k in ("sscale", "hscale", "dtype", "cfg", "steps", "names",
                                                                  "pregauge", "readonly", "ttno", "retime", "rootfirst")
                                          if k in case))
    try:
        algo = make_bug(case, kind, ttns, H, dt, None)
        if case.get("retime"):
            algo.set_num_time_steps_constant_final_time(case["retime"])
            dt = algo.time_step_size
        done = 0
        for step in range(steps):
            if case.get("reset_after") == step:
                algo.reset_to_initial_state()
                done = 0
            algo.run_one_time_step()
            done += 1
        v1 = dense.ttns_vector(algo.state, order)
    except Exception as e:              # noqa: BLE001
        ctx.oracle_fail(case, f"{kind} saturated two-node: raised {type(e).__name__}: {str(e)[:200]}")
        return
    w, U = np.linalg.eigh(Hm)
    ref = (U * np.exp(-1j * w * dt * done)) @ (U.conj().T @ v0)
    err = np.linalg.norm(v1 - ref) / np.linalg.norm(ref)
    if err > 1e-9 * tf:
        ctx.oracle_fail(case, f"{kind} saturated two-node: {done} step(s) differ from exp(-iH t) psi (rel. err "
                              f"{err:.2e}, |psi| = {np.linalg.norm(ref):.3g})")


def shrink(case):
    if case["kind"] in ("equality", "contract"):
        yield from c05.shrink(case)
