"""C06 — one-site TDVP runs on every tree, conserves norm/energy and is reversible.

Stage B: the model (Ptn.C06 on top of the C05 schedule) predicts completion, the node the sweep ends on
and the orthogonality centre at the end of a step; compared with the implementation.
Stage C: oracle on algo.state after each step: identifiers / parent-child relations / shapes kept,
canonical at the first node of the sweep (isometries toward the centre, centre norm = full norm),
norm and energy drift, second-order reversibility with -H, saturated two-node exactness.
"""
from __future__ import annotations

import random

import numpy as np

from harness import gen, dense, algos
from harness.props import c05

RULE = ("cases: random rooted trees with 2..7 nodes incl. chains rooted at an end (root with a single child), "
        "spiders and stars, all root positions of small chains/stars; random (un)normalised states with generic "
        "full-rank bonds for reversibility and redundant bonds otherwise; Hermitian TTNOs; 2-3 consecutive steps; "
        "EXPM mode; plus saturated two-node cases; plus the input-space audit families shared with C05 (non-diagonal "
        "TTNOs, pre-gauged caller states, default configuration / builder function / Chebyshev / sparse exponential "
        "modes, real / integer / single-precision tensors, magnitudes 1e-8..1e8 with tolerances relative to the data, "
        "physical dimension 1, prefix identifiers, read-only tensors, reset / setter histories). "
        "non-trivial = distinct (shape, variant, seed) with >= 3 nodes or a saturated two-node case")
PARTIAL = ["conservation/reversibility are proved for abstract local flows (palindromic_reversible, runFlow_neg_reverse, "
           "runFlow_merge, runFlow_conserves, runFlow_monotone) and for one local update with an isometric or "
           "zero-padded partially isometric embedding (local_update_conserves_norm/energy/norm_padded, "
           "saturated_local_flow_is_full); that the library's local updates are such flows (E isometric by C03, gauge "
           "independence of the projectors) is decided by the oracle",
           "structure: proved on the C02 structural model under well-formedness and the label invariant "
           "(Ptn.C06.link_update_structure, centre_move_structure, tdvp_step_structure: root, identifiers, parents kept, "
           "children up to order with the exact child-order effect of each event, every node keeps exactly its open "
           "axes; the *_structure_partial versions are kept with the weaker statement without open legs); bond "
           "dimensions and temporary identifiers are inputs of that model, which is compared with the library in the "
           "comp stream of C02; here the oracle checks relations and shapes on algo.state",
           "floating-point accuracy of expm/QR is by contract"]
ASSUMPTIONS = ["dense reference: eigh-based propagator for the two-node exactness clause"]

TOL = 1e-8

# Families that are switched off because the UNCHANGED /repo fails them.  `temporary-identifier-collision` is an
# observation outside the property's domain (the identifiers `link_<a>_with_<b>` are reserved for the temporary link
# nodes of one-site TDVP; see notes/C06.md and DESIGN.md section 7), so it stays off.
PENDING_FINDINGS = {
    "builder-default-config": c05.PENDING_FINDINGS.get("builder-default-config"),      # switched off in c05.make_algo
    "temporary-identifier-collision": {
        "inputs": "a tree with an edge a-b and a further node whose identifier is 'link_a_with_b' (the identifier "
                  "OneSiteTDVP.create_link_id gives the temporary link node), first- or second-order one-site TDVP",
        "message": "step 0 did not complete: ValueError: shape-mismatch for sum (the temporary link node overwrites / "
                   "is confused with the user's node of the same identifier)",
    },
}
if PENDING_FINDINGS["builder-default-config"] is None:
    del PENDING_FINDINGS["builder-default-config"]


def gen_cases(ctx):
    rng = ctx.rng
    cases = []
    # all root positions of chains and stars
    shapes = []
    for n in (2, 3, 4):
        chain = list(range(-1, n - 1))
        for r in range(n):
            shapes.append(gen.reroot(chain, r))
    for n in (4,):
        star = [-1] + [0] * (n - 1)
        for r in (0, 1):
            shapes.append(gen.reroot(star, r))
    for par in shapes:
        for v in ("tdvp1", "tdvp2"):
            cases.append({"kind": "step", "variant": v, "par": _normalise(par), "seed": rng.randrange(10 ** 9),
                          "steps": 2, "fullrank": True})
    for par in gen.HARD_SHAPES:
        for v in ("tdvp1", "tdvp2"):
            cases.append({"kind": "step", "variant": v, "par": par, "seed": rng.randrange(10 ** 9),
                          "steps": 2, "fullrank": True, "pregauge": None})
    for _ in range(ctx.n(40, 250)):
        for v in ("tdvp1", "tdvp2"):
            kind = rng.choice([None, None, "spider", "chain", "twig", "twig", "bush"])
            n = rng.choice([3, 4, 5, 5, 6, 7]) if kind else rng.choice([2, 3, 4, 5, 6])
            if kind == "twig":
                n = rng.choice([6, 7])
            cases.append({"kind": "step", "variant": v, "par": gen.random_parent_array(rng, n, kind),
                          "seed": rng.randrange(10 ** 9), "steps": rng.choice([2, 3]),
                          "fullrank": rng.random() < 0.5,
                          "pregauge": rng.choice([None, None, "KEEP", "REDUCED"])})
    for _ in range(ctx.n(15, 80)):
        for v in ("tdvp1", "tdvp2"):
            cases.append({"kind": "saturated", "variant": v, "seed": rng.randrange(10 ** 9),
                          "d": rng.choice([2, 3]), "rootfirst": rng.random() < 0.5,
                          "retime": rng.choice([None, None, 2, 3])})
    # input-space audit (notes/C06.md): the families of C05 with the C06 oracle (all Hamiltonians Hermitian) ...
    arng = ctx.subrng("audit6")
    for c in c05.audit_cases(ctx, ("tdvp1", "tdvp2")):
        if c["fam"] == "one-node":
            continue                    # the property speaks about trees with at least two nodes
        # (reversibility needs generic full-rank tensors and one fixed step size: not for integer tensors / histories)
        c.update(kind="step", herm=True,
                 fullrank=c["fam"] != "history" and c.get("dtype") != "int" and not c.get("zero")
                 and arng.random() < 0.5)
        cases.append(c)
    # ... and the saturated two-node clause in the same regimes
    for v in ("tdvp1", "tdvp2"):
        for extra in [{"sscale": 1e-8}, {"sscale": 1e8}, {"hscale": 1e-6}, {"hscale": 1e3}, {"dtype": "real"},
                      {"dtype": "int"}, {"cfg": "none"}, {"cfg": "builder"}, {"cfg": "chebyshev"}, {"cfg": "sparse"},
                      {"steps": 3}, {"steps": 2, "reset_after": 1}, {"names": "prefix"}, {"pregauge": "KEEP"},
                      {"pregauge": "REDUCED"}, {"readonly": True}, {"ttno": "generic"}]:
            cases.append(dict({"kind": "saturated", "variant": v, "seed": arng.randrange(10 ** 9),
                               "d": arng.choice([2, 3]), "rootfirst": arng.random() < 0.5,
                               "retime": arng.choice([None, None, 3]), "fam": "saturated-audit"}, **extra))
    if "temporary-identifier-collision" not in PENDING_FINDINGS:
        for v in ("tdvp1", "tdvp2"):
            cases.append({"kind": "step", "variant": v, "par": [-1, 0, 0, 1], "seed": arng.randrange(10 ** 9),
                          "steps": 2, "fullrank": False, "herm": True, "fam": "reserved-names", "names": "reserved"})
    return cases


def _normalise(par):
    """Relabel an arbitrary parent map so that parent index < child index (what gen expects)."""
    n = len(par)
    root = par.index(-1)
    order, seen = [root], {root}
    i = 0
    while i < len(order):
        x = order[i]
        for y in range(n):
            if par[y] == x and y not in seen:
                order.append(y)
                seen.add(y)
        i += 1
    new = {old: k for k, old in enumerate(order)}
    out = [-1] * n
    for old in range(n):
        out[new[old]] = -1 if par[old] == -1 else new[par[old]]
    return out


def run(ctx):
    rec = c05.Recorder()
    rec.install()
    try:
        pend = []
        for c in gen_cases(ctx):
            if ctx.time_left() < 0:
                break
            o = _run_one(ctx, c, rec)
            if o:
                pend.append((c, o))
        outs = ctx.lean.batch([o["line"] for _, o in pend])
        for (c, o), mo in zip(pend, outs):
            _compare(ctx, c, o, mo)
    finally:
        rec.uninstall()


def run_case(ctx, case):
    rec = c05.Recorder()
    rec.install()
    try:
        o = _run_one(ctx, case, rec)
        if o:
            _compare(ctx, case, o, ctx.lean.batch([o["line"]])[0])
    finally:
        rec.uninstall()


def _compare(ctx, case, o, mo):
    ctx.corr_cases += 1
    if mo != o["impl"]:
        ctx.corr_fail(case, f"{case['variant']}: sweep end / centre: impl={o['impl']} model={mo}")


def _problem(case):
    """Legacy keys: par, seed, fullrank, bonds, pregauge (without gauge_at), rich.  Audit keys (shared with
    harness/props/c05.py): names, phys, ttno, dtype, sscale, hscale, pregauge + gauge_at, readonly."""
    rng = random.Random(case["seed"])
    nprng = np.random.default_rng(case["seed"])
    par = case["par"]
    n = len(par)
    real = case.get("dtype") in ("real", "int", "single")
    realH = case.get("dtype") in ("int", "single")      # dtype "real": real state, complex Hamiltonian
    kw = {}
    if case.get("names"):
        kw["names"] = {i: c05.NAME_SETS[case["names"]][i] for i in range(n)}
    if real:
        kw["complex_"] = False
    if case.get("fullrank"):
        ttns, info = gen.random_fullrank_ttns(rng, nprng, par, phys=tuple(case.get("phys") or ((2, 3) if n <= 5 else (2,))),
                                              bonds=(2, 2, 3), **kw)
    else:
        ttns, info = gen.random_ttns(rng, nprng, par, phys=tuple(case.get("phys") or ((2, 2, 3) if n <= 5 else (2,))),
                                     bonds=tuple(case.get("bonds") or (1, 2, 3, 4)), **kw)
    names = info["names"]
    if case.get("pregauge") and not case.get("gauge_at"):
        # the caller hands over a state that is already canonical somewhere (KEEP keeps padded bonds)
        from pytreenet.util.tensor_splitting import SplitMode
        ttns.canonical_form(rng.choice(sorted(ttns.nodes)), mode=getattr(SplitMode, case["pregauge"]))
    phys = {i: info["open"][i][0] for i in range(n)}
    hs = case.get("hscale") or 1.0
    if case.get("ttno") == "generic":
        import copy
        H, Hm = c05.generic_ttno(rng, nprng, par, phys, names, True, real=realH, scale=hs)
        Hneg = copy.deepcopy(H)
        Hneg.replace_tensor(Hneg.root_id, -Hneg.tensors[Hneg.root_id])
    else:
        terms = []
        rich = case.get("rich")
        for _ in range(6 if rich else rng.randint(1, 3)):
            sites = rng.sample(range(n), rng.randint(1, min(3 if rich else 2, n)))
            terms.append({s: gen.rand_hermitian(nprng, phys[s]) for s in sites})
        if realH or hs != 1.0:
            for t in terms:
                k0 = next(iter(t))
                for k in t:
                    t[k] = (np.real(t[k]) if realH else t[k]) * (hs if k == k0 else 1.0)
        H, Hm = algos.ttno_from_terms(par, phys, names, terms, rng, nprng)
        negterms = []
        for t in terms:
            t2 = dict(t)
            k = next(iter(t2))
            t2[k] = -t2[k]
            negterms.append(t2)
        Hneg, Hnegm = algos.ttno_from_terms(par, phys, names, negterms, rng, nprng)
        if realH:
            for net in (H, Hneg):
                for nid in list(net.nodes):
                    net.replace_tensor(nid, np.real(net.tensors[nid]))
    if any(case.get(k) for k in ("dtype", "sscale", "readonly", "zero")) or \
            (case.get("pregauge") and case.get("gauge_at")):
        Hm, tolf = c05.specialise(case, rng, ttns, H, Hm)
        if case.get("dtype") in ("int", "single", "csingle"):
            for nid in list(Hneg.nodes):
                Hneg.replace_tensor(nid, c05._cast(Hneg.tensors[nid], case["dtype"]))
        info["tolf"] = tolf
    return rng, nprng, ttns, info, H, Hm, Hneg


def _shape_map(ttn):
    out = {}
    for nid, nd in ttn.nodes.items():
        sh = nd.shape
        m = {}
        k = 0
        if nd.parent is not None:
            m[("nb", nd.parent)] = sh[0]
            k = 1
        for c in nd.children:
            m[("nb", c)] = sh[k]
            k += 1
        m["open"] = tuple(sh[k:])
        out[nid] = m
    return out


def canonical_problems(ttn, centre, tol=1e-8):
    """All non-centre nodes are (partial) isometries toward the centre; centre norm = full norm."""
    probs = []
    empty = [nid for nid in ttn.nodes if 0 in ttn.tensors[nid].shape]
    if empty:
        return [f"node {empty[0]} has a leg of dimension 0 (shape {ttn.tensors[empty[0]].shape})"]
    for nid in ttn.nodes:
        if nid == centre:
            continue
        path = dense.path_between(ttn, nid, centre)
        m = dense.matricize_toward(ttn, nid, path[1])
        if not dense.is_partial_isometry(m, tol):
            probs.append(f"node {nid} is not a (partial) isometry toward the centre {centre}")
    v = dense.ttns_vector(ttn, sorted(ttn.nodes))
    cn = np.linalg.norm(ttn.tensors[centre])
    if abs(cn - np.linalg.norm(v)) > tol * np.linalg.norm(v):
        probs.append(f"norm of the centre tensor {cn:.12g} != norm of the state {np.linalg.norm(v):.12g}")
    return probs


def _run_one(ctx, case, rec):
    if case["kind"] == "saturated":
        _saturated(ctx, case)
        return None
    rng, nprng, ttns, info, H, Hm, Hneg = _problem(case)
    variant = case["variant"]
    n = len(case["par"])
    names = info["names"]
    inv = {v: k for k, v in names.items()}
    order = sorted(ttns.nodes)
    root_single_child = len(ttns.nodes[ttns.root_id].children) == 1
    ctx.tally("variant", variant)
    ctx.tally("nodes", n)
    ctx.tally("root_single_child", root_single_child)
    ctx.tally("audit_family", case.get("fam", "-"))
    for key in ("ttno", "cfg", "dtype"):
        if case.get(key):
            ctx.tally("audit_" + key, case[key])
    ctx.sample(case, 3)
    # unnormalised on purpose in half of the cases
    dt = 0.02 / (case.get("hscale") or 1.0)       # |H| dt stays O(1): magnitude of H and step size are varied together
    tf = info.get("tolf", 1.0)              # element-type factor of all tolerances (single precision: 5e3)
    tol = TOL * tf
    struct0, shapes0 = dense.structure(ttns), None
    try:
        algo = c05.make_algo(case, variant, ttns, H, dt, dt)
    except Exception as e:              # noqa: BLE001
        ctx.oracle_fail(case, f"{variant}: construction raised {type(e).__name__}: {str(e)[:200]}")
        return None
    if algo is None:
        ctx.tally("pending_finding_skipped", case.get("cfg"))
        return None
    rec.tol = 1e-8 * tf
    shapes0 = _shape_map(algo.state)      # shapes after the initial KEEP-mode orthogonalisation = input shapes
    shapes_in = _shape_map(ttns)
    probs = []
    if shapes0 != shapes_in:
        probs.append("initial orthogonalisation changed tensor shapes")
    up = list(algo.update_path)
    segs = [(up[i], dense.path_between(ttns, up[i], up[i + 1])[1]) for i in range(len(up) - 1)]
    v_prev = dense.ttns_vector(algo.state, order)
    e_prev = algos.expval_dense(v_prev, Hm)
    v0 = v_prev.copy()
    rec.algo, rec.Hm, rec.order = algo, Hm, order
    last_targets = []
    for step in range(case["steps"]):
        rec.events, rec.problems, rec.contracts = [], [], []
        try:
            if case.get("reset_after") == step:
                rec.algo = None
                algo.reset_to_initial_state()
                rec.algo = algo
                v_prev = dense.ttns_vector(algo.state, order)
                e_prev = algos.expval_dense(v_prev, Hm)
            if case.get("retime_after") == step:
                algo.set_num_time_steps_constant_final_time(case["retime_n"])
            if case.get("setn_after") == step:
                algo.set_num_time_steps(case["setn"])
            algo.run_one_time_step()
        except Exception as e:          # noqa: BLE001
            rec.algo = None
            ctx.oracle_fail(case, f"{variant}: step {step} did not complete: {type(e).__name__}: {str(e)[:200]}")
            return None
        ctx.count((variant, tuple(case["par"]), case["seed"], step, case.get("fam")), nontrivial=n >= 3)
        st = algo.state
        if dense.structure(st) != struct0:
            probs.append(f"step {step}: identifiers / parent-child relations changed")
            break
        if _shape_map(st) != shapes0:
            probs.append(f"step {step}: tensor shapes changed")
        wf = dense.well_formed(st)
        if wf:
            probs.append(f"step {step}: state not well-formed: {wf[:2]}")
            break
        if st.orthogonality_center_id != up[0]:
            probs.append(f"step {step}: recorded centre {st.orthogonality_center_id} != first node of the sweep {up[0]}")
        else:
            probs += [f"step {step}: " + p for p in canonical_problems(st, up[0], tol)]
        v = dense.ttns_vector(st, order)
        nrm0 = np.linalg.norm(v_prev)
        # tolerances relative to the data: |psi| for the norm, |H| |psi|^2 for the energy
        if abs(np.linalg.norm(v) - nrm0) > tol * nrm0:
            probs.append(f"step {step}: norm drift {abs(np.linalg.norm(v) - nrm0):.2e} (norm {nrm0:.3g})")
        e = algos.expval_dense(v, Hm)
        if abs(e - e_prev) > tol * np.linalg.norm(Hm) * nrm0 ** 2:
            probs.append(f"step {step}: energy drift {abs(e - e_prev):.2e} (|H| |psi|^2 = "
                         f"{np.linalg.norm(Hm) * nrm0 ** 2:.3g})")
        v_prev, e_prev = v, e
        if rec.events:
            last_targets.append(rec.events[-1][1][0])
    rec.algo = None
    # reversibility (second order, generic full-rank states only: the flows are then well-defined)
    if not probs and variant == "tdvp2" and case.get("fullrank"):
        try:
            back = c05.make_algo(case, variant, algo.state, Hneg, dt, dt)
            for _ in range(case["steps"]):
                back.run_one_time_step()
            vb = dense.ttns_vector(back.state, order)
            err = np.linalg.norm(vb - v0) / np.linalg.norm(v0)
            ctx.tally("reversibility_checked", True)
            if err > 1e-7 * tf:
                probs.append(f"a step with -H does not undo a step with H (rel. err {err:.2e})")
        except Exception as e:          # noqa: BLE001
            probs.append(f"reverse step raised {type(e).__name__}: {str(e)[:120]}")
    if probs:
        ctx.oracle_fail(case, f"{variant}: " + "; ".join(probs[:4]))
        return None
    vname = "first" if variant == "tdvp1" else "second"
    line = f"C06 sweepend {vname} {inv[up[0]]} {inv[up[-1]]} " + " ".join(f"{inv[a]}:{inv[b]}" for a, b in segs)
    # implementation side: the node of the last local update (first order) / the recorded centre (second order)
    if variant == "tdvp1":
        impl = str(inv[last_targets[-1]]) if last_targets else "none"
    else:
        impl = str(inv[algo.state.orthogonality_center_id])
    return {"line": line, "impl": impl}


def _saturated(ctx, case):
    """Two nodes whose bond equals both physical dimensions: `steps` steps = exp(-iH steps*dt) psi.
    Audit keys: sscale, hscale, dtype, cfg, steps, reset_after, names, pregauge, readonly, ttno."""
    from pytreenet.ttns.ttns import TreeTensorNetworkState
    rng = random.Random(case["seed"])
    nprng = np.random.default_rng(case["seed"])
    d = case["d"]
    par = [-1, 0]
    bond = {(0, 1): d}
    open_dims = {0: [d], 1: [d]}
    names = {0: "a", 1: "b"} if case["rootfirst"] else {0: "b", 1: "a"}
    if case.get("names"):
        nm = c05.NAME_SETS[case["names"]]
        names = {0: nm[0], 1: nm[1]} if case["rootfirst"] else {0: nm[1], 1: nm[0]}
    real = case.get("dtype") in ("real", "int", "single")
    realH = case.get("dtype") in ("int", "single")      # dtype "real": real state, complex Hamiltonian
    ttns, canon, att, nm = gen.build_network(TreeTensorNetworkState, par, bond, open_dims, rng, nprng, names=names,
                                             complex_=not real)
    phys = {0: d, 1: d}
    hs = case.get("hscale") or 1.0
    if case.get("ttno") == "generic":
        H, Hm = c05.generic_ttno(rng, nprng, par, phys, names, True, real=realH, scale=hs)
    else:
        terms = [{0: gen.rand_hermitian(nprng, d) * hs, 1: gen.rand_hermitian(nprng, d)},
                 {rng.randrange(2): gen.rand_hermitian(nprng, d) * hs}]
        if realH:
            terms = [{k: np.real(o) for k, o in t.items()} for t in terms]
        H, Hm = algos.ttno_from_terms(par, phys, names, terms, rng, nprng)
        if realH:
            for nid in list(H.nodes):
                H.replace_tensor(nid, np.real(H.tensors[nid]))
    tf = 1.0
    if any(case.get(k) for k in ("dtype", "sscale", "readonly", "pregauge")):
        Hm, tf = c05.specialise(dict(case, gauge_at=case.get("gauge_at") or "random"), rng, ttns, H, Hm)
    order = sorted(ttns.nodes)
    v0 = dense.ttns_vector(ttns, order).astype(complex)
    dt = 0.1 / hs                           # |H| dt stays O(1): magnitude of H and step size are varied together
    variant = case["variant"]
    steps = case.get("steps", 1)
    ctx.count(("sat", variant, case["seed"], case.get("fam")), nontrivial=True)
    ctx.tally("variant", variant + "-saturated")
    if case.get("fam"):
        ctx.tally("saturated_audit", next(f"{k}={case[k]}" for k in ("sscale", "hscale", "dtype", "cfg", "steps", "names",
                                                                  "pregauge", "readonly", "ttno") if case.get(k)))
    try:
        algo = c05.make_algo(case, variant, ttns, H, dt, dt)
        if case.get("retime"):
            # "for all step sizes": the step size in force is the one set through the public setter
            algo.set_num_time_steps_constant_final_time(case["retime"])
            dt = algo.time_step_size
        done = 0
        for step in range(steps):
            if case.get("reset_after") == step:
                algo.reset_to_initial_state()
                done = 0
            algo.run_one_time_step()
            done += 1
        v1 = dense.ttns_vector(algo.state, order)
    except Exception as e:              # noqa: BLE001
        ctx.oracle_fail(case, f"{variant} saturated two-node: raised {type(e).__name__}: {str(e)[:200]}")
        return
    w, U = np.linalg.eigh(Hm)
    ref = (U * np.exp(-1j * w * dt * done)) @ (U.conj().T @ v0)
    err = np.linalg.norm(v1 - ref) / np.linalg.norm(ref)
    if err > 1e-9 * tf:
        ctx.oracle_fail(case, f"{variant} saturated two-node: {done} step(s) differ from exp(-iH t) psi (rel. err "
                              f"{err:.2e}, |psi| = {np.linalg.norm(ref):.3g})")


def shrink(case):
    if case["kind"] != "step":
        return
    yield from c05.shrink(case)
