"""C06 — one-site TDVP runs on every tree, conserves norm/energy and is reversible.

Stage B: the model (Ptn.C06 on top of the C05 schedule) predicts completion, the node the sweep ends on
and the orthogonality centre at the end of a step; compared with the implementation.
Stage C: oracle on algo.state after each step: identifiers / parent-child relations / shapes kept,
canonical at the first node of the sweep (isometries toward the centre, centre norm = full norm),
norm and energy drift, second-order reversibility with -H, saturated two-node exactness.
"""
from __future__ import annotations

import random

import numpy as np

from harness import gen, dense, algos
from harness.props import c05

RULE = ("cases: random rooted trees with 2..7 nodes incl. chains rooted at an end (root with a single child), "
        "spiders and stars, all root positions of small chains/stars; random (un)normalised states with generic "
        "full-rank bonds for reversibility and redundant bonds otherwise; Hermitian TTNOs; 2-3 consecutive steps; "
        "EXPM mode; plus saturated two-node cases. non-trivial = distinct (shape, variant, seed) with >= 3 nodes "
        "or a saturated two-node case")
PARTIAL = ["conservation/reversibility are proved for abstract local flows (palindromic_reversible, runFlow_neg_reverse, "
           "runFlow_merge, runFlow_conserves, runFlow_monotone) and for one local update with an isometric or "
           "zero-padded partially isometric embedding (local_update_conserves_norm/energy/norm_padded, "
           "saturated_local_flow_is_full); that the library's local updates are such flows (E isometric by C03, gauge "
           "independence of the projectors) is decided by the oracle",
           "structure: proved on the C02 structural model under well-formedness and the label invariant "
           "(Ptn.C06.link_update_structure, centre_move_structure, tdvp_step_structure: root, identifiers, parents kept, "
           "children up to order with the exact child-order effect of each event, every node keeps exactly its open "
           "axes; the *_structure_partial versions are kept with the weaker statement without open legs); bond "
           "dimensions and temporary identifiers are inputs of that model, which is compared with the library in the "
           "comp stream of C02; here the oracle checks relations and shapes on algo.state",
           "floating-point accuracy of expm/QR is by contract"]
ASSUMPTIONS = ["dense reference: eigh-based propagator for the two-node exactness clause"]

TOL = 1e-8


def gen_cases(ctx):
    rng = ctx.rng
    cases = []
    # all root positions of chains and stars
    shapes = []
    for n in (2, 3, 4):
        chain = list(range(-1, n - 1))
        for r in range(n):
            shapes.append(gen.reroot(chain, r))
    for n in (4,):
        star = [-1] + [0] * (n - 1)
        for r in (0, 1):
            shapes.append(gen.reroot(star, r))
    for par in shapes:
        for v in ("tdvp1", "tdvp2"):
            cases.append({"kind": "step", "variant": v, "par": _normalise(par), "seed": rng.randrange(10 ** 9),
                          "steps": 2, "fullrank": True})
    for par in gen.HARD_SHAPES:
        for v in ("tdvp1", "tdvp2"):
            cases.append({"kind": "step", "variant": v, "par": par, "seed": rng.randrange(10 ** 9),
                          "steps": 2, "fullrank": True, "pregauge": None})
    for _ in range(ctx.n(40, 250)):
        for v in ("tdvp1", "tdvp2"):
            kind = rng.choice([None, None, "spider", "chain", "twig", "twig", "bush"])
            n = rng.choice([3, 4, 5, 5, 6, 7]) if kind else rng.choice([2, 3, 4, 5, 6])
            if kind == "twig":
                n = rng.choice([6, 7])
            cases.append({"kind": "step", "variant": v, "par": gen.random_parent_array(rng, n, kind),
                          "seed": rng.randrange(10 ** 9), "steps": rng.choice([2, 3]),
                          "fullrank": rng.random() < 0.5,
                          "pregauge": rng.choice([None, None, "KEEP", "REDUCED"])})
    for _ in range(ctx.n(15, 80)):
        for v in ("tdvp1", "tdvp2"):
            cases.append({"kind": "saturated", "variant": v, "seed": rng.randrange(10 ** 9),
                          "d": rng.choice([2, 3]), "rootfirst": rng.random() < 0.5,
                          "retime": rng.choice([None, None, 2, 3])})
    return cases


def _normalise(par):
    """Relabel an arbitrary parent map so that parent index < child index (what gen expects)."""
    n = len(par)
    root = par.index(-1)
    order, seen = [root], {root}
    i = 0
    while i < len(order):
        x = order[i]
        for y in range(n):
            if par[y] == x and y not in seen:
                order.append(y)
                seen.add(y)
        i += 1
    new = {old: k for k, old in enumerate(order)}
    out = [-1] * n
    for old in range(n):
        out[new[old]] = -1 if par[old] == -1 else new[par[old]]
    return out


def run(ctx):
    rec = c05.Recorder()
    rec.install()
    try:
        pend = []
        for c in gen_cases(ctx):
            if ctx.time_left() < 0:
                break
            o = _run_one(ctx, c, rec)
            if o:
                pend.append((c, o))
        outs = ctx.lean.batch([o["line"] for _, o in pend])
        for (c, o), mo in zip(pend, outs):
            _compare(ctx, c, o, mo)
    finally:
        rec.uninstall()


def run_case(ctx, case):
    rec = c05.Recorder()
    rec.install()
    try:
        o = _run_one(ctx, case, rec)
        if o:
            _compare(ctx, case, o, ctx.lean.batch([o["line"]])[0])
    finally:
        rec.uninstall()


def _compare(ctx, case, o, mo):
    ctx.corr_cases += 1
    if mo != o["impl"]:
        ctx.corr_fail(case, f"{case['variant']}: sweep end / centre: impl={o['impl']} model={mo}")


def _problem(case):
    rng = random.Random(case["seed"])
    nprng = np.random.default_rng(case["seed"])
    par = case["par"]
    n = len(par)
    if case.get("fullrank"):
        ttns, info = gen.random_fullrank_ttns(rng, nprng, par, phys=(2, 3) if n <= 5 else (2,), bonds=(2, 2, 3))
    else:
        ttns, info = gen.random_ttns(rng, nprng, par, phys=(2, 2, 3) if n <= 5 else (2,),
                                     bonds=tuple(case.get("bonds") or (1, 2, 3, 4)))
    names = info["names"]
    if case.get("pregauge"):
        # the caller hands over a state that is already canonical somewhere (KEEP keeps padded bonds)
        from pytreenet.util.tensor_splitting import SplitMode
        ttns.canonical_form(rng.choice(sorted(ttns.nodes)), mode=getattr(SplitMode, case["pregauge"]))
    phys = {i: info["open"][i][0] for i in range(n)}
    terms = []
    rich = case.get("rich")
    for _ in range(6 if rich else rng.randint(1, 3)):
        sites = rng.sample(range(n), rng.randint(1, min(3 if rich else 2, n)))
        terms.append({s: gen.rand_hermitian(nprng, phys[s]) for s in sites})
    H, Hm = algos.ttno_from_terms(par, phys, names, terms, rng, nprng)
    negterms = []
    for t in terms:
        t2 = dict(t)
        k = next(iter(t2))
        t2[k] = -t2[k]
        negterms.append(t2)
    Hneg, Hnegm = algos.ttno_from_terms(par, phys, names, negterms, rng, nprng)
    return rng, nprng, ttns, info, H, Hm, Hneg


def _shape_map(ttn):
    out = {}
    for nid, nd in ttn.nodes.items():
        sh = nd.shape
        m = {}
        k = 0
        if nd.parent is not None:
            m[("nb", nd.parent)] = sh[0]
            k = 1
        for c in nd.children:
            m[("nb", c)] = sh[k]
            k += 1
        m["open"] = tuple(sh[k:])
        out[nid] = m
    return out


def canonical_problems(ttn, centre, tol=1e-8):
    """All non-centre nodes are (partial) isometries toward the centre; centre norm = full norm."""
    probs = []
    for nid in ttn.nodes:
        if nid == centre:
            continue
        path = dense.path_between(ttn, nid, centre)
        m = dense.matricize_toward(ttn, nid, path[1])
        if not dense.is_partial_isometry(m, tol):
            probs.append(f"node {nid} is not a (partial) isometry toward the centre {centre}")
    v = dense.ttns_vector(ttn, sorted(ttn.nodes))
    cn = np.linalg.norm(ttn.tensors[centre])
    if abs(cn - np.linalg.norm(v)) > tol * max(1.0, np.linalg.norm(v)):
        probs.append(f"norm of the centre tensor {cn:.12g} != norm of the state {np.linalg.norm(v):.12g}")
    return probs


def _run_one(ctx, case, rec):
    if case["kind"] == "saturated":
        _saturated(ctx, case)
        return None
    rng, nprng, ttns, info, H, Hm, Hneg = _problem(case)
    variant = case["variant"]
    n = len(case["par"])
    names = info["names"]
    inv = {v: k for k, v in names.items()}
    order = sorted(ttns.nodes)
    root_single_child = len(ttns.nodes[ttns.root_id].children) == 1
    ctx.tally("variant", variant)
    ctx.tally("nodes", n)
    ctx.tally("root_single_child", root_single_child)
    ctx.sample(case, 3)
    # unnormalised on purpose in half of the cases
    dt = 0.02
    struct0, shapes0 = dense.structure(ttns), None
    try:
        algo = algos.make_algo(variant, ttns, H, dt, dt, [])
    except Exception as e:              # noqa: BLE001
        ctx.oracle_fail(case, f"{variant}: construction raised {type(e).__name__}: {str(e)[:200]}")
        return None
    shapes0 = _shape_map(algo.state)      # shapes after the initial KEEP-mode orthogonalisation = input shapes
    shapes_in = _shape_map(ttns)
    probs = []
    if shapes0 != shapes_in:
        probs.append("initial orthogonalisation changed tensor shapes")
    up = list(algo.update_path)
    segs = [(up[i], dense.path_between(ttns, up[i], up[i + 1])[1]) for i in range(len(up) - 1)]
    v_prev = dense.ttns_vector(algo.state, order)
    e_prev = algos.expval_dense(v_prev, Hm)
    v0 = v_prev.copy()
    rec.algo, rec.Hm, rec.order = algo, Hm, order
    last_targets = []
    for step in range(case["steps"]):
        rec.events, rec.problems, rec.contracts = [], [], []
        try:
            algo.run_one_time_step()
        except Exception as e:          # noqa: BLE001
            rec.algo = None
            ctx.oracle_fail(case, f"{variant}: step {step} did not complete: {type(e).__name__}: {str(e)[:200]}")
            return None
        ctx.count((variant, tuple(case["par"]), case["seed"], step), nontrivial=n >= 3)
        st = algo.state
        if dense.structure(st) != struct0:
            probs.append(f"step {step}: identifiers / parent-child relations changed")
            break
        if _shape_map(st) != shapes0:
            probs.append(f"step {step}: tensor shapes changed")
        wf = dense.well_formed(st)
        if wf:
            probs.append(f"step {step}: state not well-formed: {wf[:2]}")
            break
        if st.orthogonality_center_id != up[0]:
            probs.append(f"step {step}: recorded centre {st.orthogonality_center_id} != first node of the sweep {up[0]}")
        else:
            probs += [f"step {step}: " + p for p in canonical_problems(st, up[0])]
        v = dense.ttns_vector(st, order)
        nrm0 = np.linalg.norm(v_prev)
        if abs(np.linalg.norm(v) - nrm0) > TOL * max(1.0, nrm0):
            probs.append(f"step {step}: norm drift {abs(np.linalg.norm(v) - nrm0):.2e}")
        e = algos.expval_dense(v, Hm)
        if abs(e - e_prev) > TOL * max(1.0, abs(e_prev), np.linalg.norm(Hm) * nrm0 ** 2):
            probs.append(f"step {step}: energy drift {abs(e - e_prev):.2e}")
        v_prev, e_prev = v, e
        if rec.events:
            last_targets.append(rec.events[-1][1][0])
    rec.algo = None
    # reversibility (second order, generic full-rank states only: the flows are then well-defined)
    if not probs and variant == "tdvp2" and case.get("fullrank"):
        try:
            back = algos.make_algo(variant, algo.state, Hneg, dt, dt, [])
            for _ in range(case["steps"]):
                back.run_one_time_step()
            vb = dense.ttns_vector(back.state, order)
            err = np.linalg.norm(vb - v0) / max(1.0, np.linalg.norm(v0))
            ctx.tally("reversibility_checked", True)
            if err > 1e-7:
                probs.append(f"a step with -H does not undo a step with H (rel. err {err:.2e})")
        except Exception as e:          # noqa: BLE001
            probs.append(f"reverse step raised {type(e).__name__}: {str(e)[:120]}")
    if probs:
        ctx.oracle_fail(case, f"{variant}: " + "; ".join(probs[:4]))
        return None
    vname = "first" if variant == "tdvp1" else "second"
    line = f"C06 sweepend {vname} {inv[up[0]]} {inv[up[-1]]} " + " ".join(f"{inv[a]}:{inv[b]}" for a, b in segs)
    # implementation side: the node of the last local update (first order) / the recorded centre (second order)
    if variant == "tdvp1":
        impl = str(inv[last_targets[-1]]) if last_targets else "none"
    else:
        impl = str(inv[algo.state.orthogonality_center_id])
    return {"line": line, "impl": impl}


def _saturated(ctx, case):
    """Two nodes whose bond equals both physical dimensions: one step = exp(-iH dt) psi."""
    from pytreenet.ttns.ttns import TreeTensorNetworkState
    rng = random.Random(case["seed"])
    nprng = np.random.default_rng(case["seed"])
    d = case["d"]
    par = [-1, 0]
    bond = {(0, 1): d}
    open_dims = {0: [d], 1: [d]}
    names = {0: "a", 1: "b"} if case["rootfirst"] else {0: "b", 1: "a"}
    ttns, canon, att, nm = gen.build_network(TreeTensorNetworkState, par, bond, open_dims, rng, nprng, names=names)
    phys = {0: d, 1: d}
    terms = [{0: gen.rand_hermitian(nprng, d), 1: gen.rand_hermitian(nprng, d)},
             {rng.randrange(2): gen.rand_hermitian(nprng, d)}]
    H, Hm = algos.ttno_from_terms(par, phys, names, terms, rng, nprng)
    order = sorted(ttns.nodes)
    v0 = dense.ttns_vector(ttns, order)
    dt = 0.1
    variant = case["variant"]
    ctx.count(("sat", variant, case["seed"]), nontrivial=True)
    ctx.tally("variant", variant + "-saturated")
    try:
        algo = algos.make_algo(variant, ttns, H, dt, dt, [])
        if case.get("retime"):
            # "for all step sizes": the step size in force is the one set through the public setter
            algo.set_num_time_steps_constant_final_time(case["retime"])
            dt = algo.time_step_size
        algo.run_one_time_step()
        v1 = dense.ttns_vector(algo.state, order)
    except Exception as e:              # noqa: BLE001
        ctx.oracle_fail(case, f"{variant} saturated two-node: raised {type(e).__name__}: {str(e)[:200]}")
        return
    w, U = np.linalg.eigh(Hm)
    ref = (U * np.exp(-1j * w * dt)) @ (U.conj().T @ v0)
    err = np.linalg.norm(v1 - ref) / max(1.0, np.linalg.norm(ref))
    if err > 1e-9:
        ctx.oracle_fail(case, f"{variant} saturated two-node step differs from exp(-iH dt) psi (rel. err {err:.2e})")


def shrink(case):
    if case["kind"] != "step":
        return
    yield from c05.shrink(case)
