"""C06 — one-site TDVP runs on every tree, conserves norm/energy and is reversible.

Stage B: the model (Ptn.C06 on top of the C05 schedule) predicts completion, the node the sweep ends on
and the orthogonality centre at the end of a step; compared with the implementation.
Stage C: oracle on algo.state after each step: identifiers / parent-child relations / shapes kept,
canonical at the first node of the sweep (isometries toward the centre, centre norm = full norm),
norm and energy drift, second-order reversibility with -H, saturated two-node exactness.
Value level (stream `canonenv`): the hypotheses of Ptn.Ein.environment_is_identity / embedding_isometry_of_canonical /
centre_norm_eq_full_norm_value (lean/Ptn/Common/EinsumIso.lean) are validated on states the library brings into canonical
form (every mode): the isometry condition toward the centre in INDEX form on every node, the environment of the centre
(einsum over the real tensors) against the identity; on integer (+-1 / 0) exact isometries the Lean model itself evaluates
the environment and the norm network (`C04 einrec`, the function `netValue` the theorems are about) - compared exactly.
Gauge machine (Ptn.C06.Gauge, theorems tdvp_site_update_canonical / tdvp_gauge_invariant / tdvp_site_update_isometric):
`split_node_qr` / `split_node_svd` are wrapped from outside during the constructor, every time step and every reset; the
observed sequence (qr|svd, node, toward-neighbour) is compared exactly with the model (`C06 gauge ...`: constructor, one
time step, record after k steps); at every observed `time_evolve` call every other tensor of algo.state must be a
(partial) isometry toward the evolved tensor (1e-9) and a Python replica of the record, driven by the observed splits
only, must be canonical at the update position (site / link / merged pair) - the statement of the theorem on the real trace.
"""
from __future__ import annotations

import random

import numpy as np

from harness import gen, dense, algos
from harness.props import c05

RULE = ("cases: random rooted trees with 2..7 nodes incl. chains rooted at an end (root with a single child), "
        "spiders and stars, all root positions of small chains/stars; random (un)normalised states with generic "
        "full-rank bonds for reversibility and redundant bonds otherwise; Hermitian TTNOs; 2-3 consecutive steps; "
        "EXPM mode; plus saturated two-node cases; plus the input-space audit families shared with C05 (non-diagonal "
        "TTNOs, pre-gauged caller states, default configuration / builder function / Chebyshev / sparse exponential "
        "modes, real / integer / single-precision tensors, magnitudes 1e-8..1e8 with tolerances relative to the data, "
        "physical dimension 1, prefix identifiers, read-only tensors, reset / setter histories); plus the value-level "
        "stream canonenv: random trees 2..7 nodes, every centre, canonical_form in the modes REDUCED / FULL / KEEP on "
        "generic and on redundant (rank-deficient) bonds, and exactly canonical integer states (signed permutation-like "
        "isometries, bond dimension up to 3) evaluated by the Lean model; plus the stream gauge: all three TDVP classes "
        "(first / second order one-site, two-site with truncation disabled and with the default truncation) on random "
        "trees 2..7 nodes, states without centre and states canonical at a random node, 2 steps, some with a reset. "
        "non-trivial = distinct (shape, variant, seed) with >= 3 nodes or a saturated two-node case")
PARTIAL = ["conservation/reversibility are proved for abstract local flows (palindromic_reversible, runFlow_neg_reverse, "
           "runFlow_merge, runFlow_conserves, runFlow_monotone) and for one local update with an isometric or "
           "zero-padded partially isometric embedding (local_update_conserves_norm/energy/norm_padded, "
           "saturated_local_flow_is_full); that the library's local updates are such flows (E isometric by C03, gauge "
           "independence of the projectors) is decided by the oracle",
           "structure: proved on the C02 structural model under well-formedness and the label invariant "
           "(Ptn.C06.link_update_structure, centre_move_structure, tdvp_step_structure: root, identifiers, parents kept, "
           "children up to order with the exact child-order effect of each event, every node keeps exactly its open "
           "axes; the *_structure_partial versions are kept with the weaker statement without open legs); bond "
           "dimensions and temporary identifiers are inputs of that model, which is compared with the library in the "
           "comp stream of C02; here the oracle checks relations and shapes on algo.state",
           "value level: Ptn.C06.one_site_update_conserves_norm_of_canonical discharges the isometry hypothesis from "
           "canonical form (index-form isometry condition on every non-centre node, Ptn.Ein.Kids.Canon); that the "
           "state the library holds at an update is canonical at the update site is PROVED at the level of the gauge "
           "record (Ptn.C06.tdvp_site_update_canonical, tdvp_gauge_invariant) and, with the QR / SVD contract 'the "
           "factor left at the split node is an isometry toward the neighbour' as an explicit hypothesis, for abstract "
           "tensors (tdvp_site_update_isometric); the machine is tied to the code by the observed split sequence and "
           "the isometry of every other tensor at every time_evolve call; the translation of the record into the "
           "index-form condition Kids.Canon of the tree re-rooted at the update site is PROVED on valued networks "
           "(Ptn.C06.tdvp_update_site_kids_canon, tdvp_event_centre_kids_canon, tdvp_one_site_update_conserves_norm: "
           "hypotheses are the per-QR contracts of the value-level run VRun and the truth of the INITIAL record only); "
           "NOT proved: the doubled tree around the LINK tensor during a link update; VRun is a model of the events' "
           "effect on the tensors and is not compared with the library by a driver command; "
           "zero-padded bonds (KEEP mode: partial isometries) are outside "
           "the hypothesis (covered by local_update_conserves_norm_padded with the projector as a hypothesis)",
           "floating-point accuracy of expm/QR is by contract"]
ASSUMPTIONS = ["dense reference: eigh-based propagator for the two-node exactness clause"]

TOL = 1e-8

# Families that are switched off because the UNCHANGED /repo fails them.  `temporary-identifier-collision` is an
# observation outside the property's domain (the identifiers `link_<a>_with_<b>` are reserved for the temporary link
# nodes of one-site TDVP; see notes/C06.md and DESIGN.md section 7), so it stays off.
PENDING_FINDINGS = {
    "builder-default-config": c05.PENDING_FINDINGS.get("builder-default-config"),      # switched off in c05.make_algo
    "temporary-identifier-collision": {
        "inputs": "a tree with an edge a-b and a further node whose identifier is 'link_a_with_b' (the identifier "
                  "OneSiteTDVP.create_link_id gives the temporary link node), first- or second-order one-site TDVP",
        "message": "step 0 did not complete: ValueError: shape-mismatch for sum (the temporary link node overwrites / "
                   "is confused with the user's node of the same identifier)",
    },
}
if PENDING_FINDINGS["builder-default-config"] is None:
    del PENDING_FINDINGS["builder-default-config"]


def gen_cases(ctx):
    rng = ctx.rng
    cases = []
    # all root positions of chains and stars
    shapes = []
    for n in (2, 3, 4):
        chain = list(range(-1, n - 1))
        for r in range(n):
            shapes.append(gen.reroot(chain, r))
    for n in (4,):
        star = [-1] + [0] * (n - 1)
        for r in (0, 1):
            shapes.append(gen.reroot(star, r))
    for par in shapes:
        for v in ("tdvp1", "tdvp2"):
            cases.append({"kind": "step", "variant": v, "par": _normalise(par), "seed": rng.randrange(10 ** 9),
                          "steps": 2, "fullrank": True})
    for par in gen.HARD_SHAPES:
        for v in ("tdvp1", "tdvp2"):
            cases.append({"kind": "step", "variant": v, "par": par, "seed": rng.randrange(10 ** 9),
                          "steps": 2, "fullrank": True, "pregauge": None})
    for _ in range(ctx.n(40, 250)):
        for v in ("tdvp1", "tdvp2"):
            kind = rng.choice([None, None, "spider", "chain", "twig", "twig", "bush"])
            n = rng.choice([3, 4, 5, 5, 6, 7]) if kind else rng.choice([2, 3, 4, 5, 6])
            if kind == "twig":
                n = rng.choice([6, 7])
            cases.append({"kind": "step", "variant": v, "par": gen.random_parent_array(rng, n, kind),
                          "seed": rng.randrange(10 ** 9), "steps": rng.choice([2, 3]),
                          "fullrank": rng.random() < 0.5,
                          "pregauge": rng.choice([None, None, "KEEP", "REDUCED"])})
    for _ in range(ctx.n(15, 80)):
        for v in ("tdvp1", "tdvp2"):
            cases.append({"kind": "saturated", "variant": v, "seed": rng.randrange(10 ** 9),
                          "d": rng.choice([2, 3]), "rootfirst": rng.random() < 0.5,
                          "retime": rng.choice([None, None, 2, 3])})
    # value level: the environment of the centre of a canonical state is the identity
    vrng = ctx.subrng("canonenv")
    for k in range(ctx.n(36, 400)):
        kind = vrng.choice([None, None, "spider", "chain", "twig", "bush"])
        n = vrng.choice([6, 7]) if kind == "twig" else vrng.choice([2, 3, 4, 5, 5, 6, 7] if kind is None else [3, 4, 5, 6])
        par = gen.random_parent_array(vrng, n, kind)
        cases.append({"kind": "canonenv", "variant": "canonenv", "par": par, "seed": vrng.randrange(10 ** 9),
                      "centre": vrng.randrange(n), "mode": ["REDUCED", "FULL", "KEEP"][k % 3],
                      "fullrank": vrng.random() < 0.5, "exact": False})
    for k in range(ctx.n(16, 160)):
        n = vrng.choice([2, 3, 3, 4, 4, 5])
        par = gen.random_parent_array(vrng, n, vrng.choice([None, None, "spider", "bush"]) if n >= 4 else None)
        deg = [sum(1 for q in par if q == i) + (par[i] >= 0) for i in range(n)]
        centre = deg.index(max(deg)) if k % 2 == 0 else vrng.randrange(n)    # half of the cases: a centre of maximal degree
        cases.append({"kind": "canonenv", "variant": "canonenv", "par": par, "seed": vrng.randrange(10 ** 9),
                      "centre": centre, "exact": True})
    # gauge machine: all three classes, states without centre and states canonical somewhere, resets
    grng = ctx.subrng("gauge")
    for k in range(ctx.n(12, 100)):
        for v in ("tdvp1", "tdvp2", "tdvp2site"):
            kind = grng.choice([None, None, "spider", "chain", "twig", "bush"])
            n = grng.choice([6, 7]) if kind == "twig" else grng.choice([2, 3, 4, 5, 5, 6, 7] if kind is None else [3, 4, 5, 6])
            c = {"kind": "gauge", "variant": v, "par": gen.random_parent_array(grng, n, kind),
                 "seed": grng.randrange(10 ** 9), "steps": 2, "fullrank": grng.random() < 0.5,
                 "pregauge": grng.choice([None, None, "KEEP", "REDUCED"])}
            if grng.random() < 0.25:
                c["reset_after"] = 1
            if v == "tdvp2site" and grng.random() < 0.3:
                c["svd"] = "default"
            cases.append(c)
    # input-space audit (notes/C06.md): the families of C05 with the C06 oracle (all Hamiltonians Hermitian) ...
    arng = ctx.subrng("audit6")
    for c in c05.audit_cases(ctx, ("tdvp1", "tdvp2")):
        if c["fam"] == "one-node":
            continue                    # the property speaks about trees with at least two nodes
        # (reversibility needs generic full-rank tensors and one fixed step size: not for integer tensors / histories)
        c.update(kind="step", herm=True,
                 fullrank=c["fam"] != "history" and c.get("dtype") != "int" and not c.get("zero")
                 and arng.random() < 0.5)
        cases.append(c)
    # ... and the saturated two-node clause in the same regimes
    for v in ("tdvp1", "tdvp2"):
        for extra in [{"sscale": 1e-8}, {"sscale": 1e8}, {"hscale": 1e-6}, {"hscale": 1e3}, {"dtype": "real"},
                      {"dtype": "int"}, {"cfg": "none"}, {"cfg": "builder"}, {"cfg": "chebyshev"}, {"cfg": "sparse"},
                      {"steps": 3}, {"steps": 2, "reset_after": 1}, {"names": "prefix"}, {"pregauge": "KEEP"},
                      {"pregauge": "REDUCED"}, {"readonly": True}, {"ttno": "generic"}]:
            cases.append(dict({"kind": "saturated", "variant": v, "seed": arng.randrange(10 ** 9),
                               "d": arng.choice([2, 3]), "rootfirst": arng.random() < 0.5,
                               "retime": arng.choice([None, None, 3]), "fam": "saturated-audit"}, **extra))
    if "temporary-identifier-collision" not in PENDING_FINDINGS:
        for v in ("tdvp1", "tdvp2"):
            cases.append({"kind": "step", "variant": v, "par": [-1, 0, 0, 1], "seed": arng.randrange(10 ** 9),
                          "steps": 2, "fullrank": False, "herm": True, "fam": "reserved-names", "names": "reserved"})
    return cases


def _normalise(par):
    """Relabel an arbitrary parent map so that parent index < child index (what gen expects)."""
    n = len(par)
    root = par.index(-1)
    order, seen = [root], {root}
    i = 0
    while i < len(order):
        x = order[i]
        for y in range(n):
            if par[y] == x and y not in seen:
                order.append(y)
                seen.add(y)
        i += 1
    new = {old: k for k, old in enumerate(order)}
    out = [-1] * n
    for old in range(n):
        out[new[old]] = -1 if par[old] == -1 else new[par[old]]
    return out


def run(ctx):
    rec = GaugeRecorder()
    rec.install()
    try:
        pend = []
        for c in gen_cases(ctx):
            if ctx.time_left() < 0:
                break
            o = _run_one(ctx, c, rec)
            if o:
                pend.append((c, o))
        keys = [(i, k) for i, (_, o) in enumerate(pend) for k in ("line", "gline") if k in o]
        outs = ctx.lean.batch([pend[i][1][k] for i, k in keys])
        for (i, k), mo in zip(keys, outs):
            _compare(ctx, pend[i][0], pend[i][1], mo, k)
    finally:
        rec.uninstall()


def run_case(ctx, case):
    rec = GaugeRecorder()
    rec.install()
    try:
        o = _run_one(ctx, case, rec)
        if o:
            for k in ("line", "gline"):
                if k in o:
                    _compare(ctx, case, o, ctx.lean.batch([o[k]])[0], k)
    finally:
        rec.uninstall()


def _compare(ctx, case, o, mo, key="line"):
    ctx.corr_cases += 1
    if key == "gline":
        if _gauge_canon(mo) != o["gimpl"]:
            ctx.corr_fail(case, f"{case['variant']}: gauge machine: observed splits / record [{o['gimpl'][:300]}] != model "
                                f"[{_gauge_canon(mo)[:300]}]")
        return
    if mo != o["impl"]:
        ctx.corr_fail(case, f"{case['variant']}: sweep end / centre: impl={o['impl']} model={mo}")


def _problem(case):
    """Legacy keys: par, seed, fullrank, bonds, pregauge (without gauge_at), rich.  Audit keys (shared with
    harness/props/c05.py): names, phys, ttno, dtype, sscale, hscale, pregauge + gauge_at, readonly."""
    rng = random.Random(case["seed"])
    nprng = np.random.default_rng(case["seed"])
    par = case["par"]
    n = len(par)
    real = case.get("dtype") in ("real", "int", "single")
    realH = case.get("dtype") in ("int", "single")      # dtype "real": real state, complex Hamiltonian
    kw = {}
    if case.get("names"):
        kw["names"] = {i: c05.NAME_SETS[case["names"]][i] for i in range(n)}
    if real:
        kw["complex_"] = False
    if case.get("fullrank"):
        ttns, info = gen.random_fullrank_ttns(rng, nprng, par, phys=tuple(case.get("phys") or ((2, 3) if n <= 5 else (2,))),
                                              bonds=(2, 2, 3), **kw)
    else:
        ttns, info = gen.random_ttns(rng, nprng, par, phys=tuple(case.get("phys") or ((2, 2, 3) if n <= 5 else (2,))),
                                     bonds=tuple(case.get("bonds") or (1, 2, 3, 4)), **kw)
    names = info["names"]
    if case.get("pregauge") and not case.get("gauge_at"):
        # the caller hands over a state that is already canonical somewhere (KEEP keeps padded bonds)
        from pytreenet.util.tensor_splitting import SplitMode
        ttns.canonical_form(rng.choice(sorted(ttns.nodes)), mode=getattr(SplitMode, case["pregauge"]))
    phys = {i: info["open"][i][0] for i in range(n)}
    hs = case.get("hscale") or 1.0
    if case.get("ttno") == "generic":
        import copy
        H, Hm = c05.generic_ttno(rng, nprng, par, phys, names, True, real=realH, scale=hs)
        Hneg = copy.deepcopy(H)
        Hneg.replace_tensor(Hneg.root_id, -Hneg.tensors[Hneg.root_id])
    else:
        terms = []
        rich = case.get("rich")
        for _ in range(6 if rich else rng.randint(1, 3)):
            sites = rng.sample(range(n), rng.randint(1, min(3 if rich else 2, n)))
            terms.append({s: gen.rand_hermitian(nprng, phys[s]) for s in sites})
        if realH or hs != 1.0:
            for t in terms:
                k0 = next(iter(t))
                for k in t:
                    t[k] = (np.real(t[k]) if realH else t[k]) * (hs if k == k0 else 1.0)
        H, Hm = algos.ttno_from_terms(par, phys, names, terms, rng, nprng)
        negterms = []
        for t in terms:
            t2 = dict(t)
            k = next(iter(t2))
            t2[k] = -t2[k]
            negterms.append(t2)
        Hneg, Hnegm = algos.ttno_from_terms(par, phys, names, negterms, rng, nprng)
        if realH:
            for net in (H, Hneg):
                for nid in list(net.nodes):
                    net.replace_tensor(nid, np.real(net.tensors[nid]))
    if any(case.get(k) for k in ("dtype", "sscale", "readonly", "zero")) or \
            (case.get("pregauge") and case.get("gauge_at")):
        Hm, tolf = c05.specialise(case, rng, ttns, H, Hm)
        if case.get("dtype") in ("int", "single", "csingle"):
            for nid in list(Hneg.nodes):
                Hneg.replace_tensor(nid, c05._cast(Hneg.tensors[nid], case["dtype"]))
        info["tolf"] = tolf
    return rng, nprng, ttns, info, H, Hm, Hneg


def _shape_map(ttn):
    out = {}
    for nid, nd in ttn.nodes.items():
        sh = nd.shape
        m = {}
        k = 0
        if nd.parent is not None:
            m[("nb", nd.parent)] = sh[0]
            k = 1
        for c in nd.children:
            m[("nb", c)] = sh[k]
            k += 1
        m["open"] = tuple(sh[k:])
        out[nid] = m
    return out


def canonical_problems(ttn, centre, tol=1e-8):
    """All non-centre nodes are (partial) isometries toward the centre; centre norm = full norm."""
    probs = []
    empty = [nid for nid in ttn.nodes if 0 in ttn.tensors[nid].shape]
    if empty:
        return [f"node {empty[0]} has a leg of dimension 0 (shape {ttn.tensors[empty[0]].shape})"]
    for nid in ttn.nodes:
        if nid == centre:
            continue
        path = dense.path_between(ttn, nid, centre)
        m = dense.matricize_toward(ttn, nid, path[1])
        if not dense.is_partial_isometry(m, tol):
            probs.append(f"node {nid} is not a (partial) isometry toward the centre {centre}")
    v = dense.ttns_vector(ttn, sorted(ttn.nodes))
    cn = np.linalg.norm(ttn.tensors[centre])
    if abs(cn - np.linalg.norm(v)) > tol * np.linalg.norm(v):
        probs.append(f"norm of the centre tensor {cn:.12g} != norm of the state {np.linalg.norm(v):.12g}")
    return probs


# ------------------------------------------------------------------------------------------------------------------
# value level: the hypotheses and the conclusion of Ptn.Ein.environment_is_identity on real states

def _toward(ttn, centre):
    """toward[n] = the neighbour of n on the path to the centre (None for the centre); BFS order."""
    adj = {i: ([nd.parent] if nd.parent is not None else []) + list(nd.children) for i, nd in ttn.nodes.items()}
    toward, order = {centre: None}, [centre]
    k = 0
    while k < len(order):
        x = order[k]
        k += 1
        for y in adj[x]:
            if y not in toward:
                toward[y] = x
                order.append(y)
    return toward, order, adj


def _axis_of(ttn, nid, nb):
    nd = ttn.nodes[nid]
    if nd.parent == nb:
        return 0
    return (0 if nd.parent is None else 1) + list(nd.children).index(nb)


def iso_index_form(ttn, nid, nb):
    """G[x, y] = sum over ALL legs of `nid` except the one toward `nb` of T[..., x] * conj(T)[..., y]
    (the hypothesis `Sub.Canon` demands G = identity)."""
    t = np.asarray(ttn.tensors[nid])
    k = _axis_of(ttn, nid, nb)
    others = [a for a in range(t.ndim) if a != k]
    return np.tensordot(t, t.conj(), axes=(others, others))


def env_matrix(ttn, centre):
    """The contracted environment of the centre: all tensors and conjugated tensors of the other nodes, open legs paired,
    bonds not at the centre summed in each copy; rows = ket indices of the centre's bonds, columns = bra indices."""
    toward, order, adj = _toward(ttn, centre)
    items = []
    for nid in order[1:]:
        nd = ttn.nodes[nid]
        t = np.asarray(ttn.tensors[nid])
        nbs = ([nd.parent] if nd.parent is not None else []) + list(nd.children)
        nopen = t.ndim - len(nbs)
        for tag, arr in (("k", t), ("b", t.conj())):
            labs = [(tag, frozenset((nid, m))) for m in nbs] + [("o", nid, j) for j in range(nopen)]
            items.append((arr, labs))
    if not items:
        return np.ones((1, 1)), []
    arr, labs = dense.contract_labeled(items)
    nbrs = adj[centre]
    want = [("k", frozenset((m, centre))) for m in nbrs] + [("b", frozenset((m, centre))) for m in nbrs]
    arr = np.transpose(arr, [labs.index(l) for l in want])
    d = int(np.prod(arr.shape[:len(nbrs)]))
    return arr.reshape(d, d), nbrs


def env_problems(ctx, ttn, centre, tol, padded_ok):
    """Hypothesis (index-form isometry toward the centre on every node) and conclusion (environment = identity) of
    Ptn.Ein.environment_is_identity on a state.  With `padded_ok` (KEEP mode / TDVP states: zero-padded bonds) a node
    whose G is an orthogonal projector other than the identity is outside the hypothesis: tallied, nothing demanded
    beyond the projector property of the environment."""
    probs = []
    if any(0 in np.asarray(ttn.tensors[nid]).shape for nid in ttn.nodes):
        return probs
    toward, order, _ = _toward(ttn, centre)
    padded = False
    for nid in order[1:]:
        g = iso_index_form(ttn, nid, toward[nid])
        scale = 1.0
        if np.allclose(g, np.eye(g.shape[0]), atol=tol * scale, rtol=0):
            ctx.hyp_validated += 1
            continue
        proj = np.allclose(g @ g, g, atol=tol, rtol=0) and np.allclose(g, g.conj().T, atol=tol, rtol=0)
        if padded_ok and proj:
            padded = True
            continue
        probs.append(f"node {nid}: index-form isometry condition toward {toward[nid]} (centre {centre}) fails: "
                     f"|G - 1| = {np.abs(g - np.eye(g.shape[0])).max():.2e}")
    if probs:
        return probs
    env, nbrs = env_matrix(ttn, centre)
    ctx.tally("env_state", "padded bonds (projector)" if padded else "isometries (identity)")
    if padded:
        if not (np.allclose(env @ env, env, atol=10 * tol, rtol=0) and np.allclose(env, env.conj().T, atol=10 * tol, rtol=0)):
            probs.append(f"environment of the centre {centre} is not an orthogonal projector")
    elif not np.allclose(env, np.eye(env.shape[0]), atol=10 * tol, rtol=0):
        probs.append(f"environment of the centre {centre} (einsum over the tensors) is not the identity: "
                     f"|Env - 1| = {np.abs(env - np.eye(env.shape[0])).max():.2e}")
    return probs


def _exact_canonical_state(rng, nprng, par, centre):
    """A state that is EXACTLY canonical at `centre`, built through the library's public API: every other tensor is a
    signed permutation-like isometry toward the centre (entries 0, +1, -1: one per column, in distinct rows), the centre
    tensor has small integer entries."""
    from pytreenet.ttns.ttns import TreeTensorNetworkState
    n = len(par)
    adj = {i: [] for i in range(n)}
    for i, p in enumerate(par):
        if p >= 0:
            adj[i].append(p)
            adj[p].append(i)
    order = gen.insertion_order(rng, par)
    attach = {i: [] for i in range(n)}
    for x in order:
        if par[x] >= 0:
            attach[par[x]].append(x)
    toward, post, stack = {centre: None}, [], [centre]
    while stack:
        x = stack.pop()
        post.append(x)
        for y in adj[x]:
            if y not in toward:
                toward[y] = x
                stack.append(y)
    open_dims = {i: [rng.choice([1, 2, 2, 3])] for i in range(n)}
    bond, tensors = {}, {}

    def edge(a, b):
        return (a, b) if par[b] == a else (b, a)
    for x in reversed(post):
        legs = ([("p",)] if par[x] >= 0 else []) + [("c", c) for c in attach[x]] + [("o", 0)]

        def nb_of(l):
            return par[x] if l[0] == "p" else l[1]
        if x == centre:
            dims = [bond[edge(x, nb_of(l))] if l[0] != "o" else open_dims[x][0] for l in legs]
            tensors[x] = np.array([rng.randint(-2, 2) for _ in range(int(np.prod(dims)))], dtype=float).reshape(dims)
            continue
        out_leg = [l for l in legs if l[0] != "o" and nb_of(l) == toward[x]][0]
        in_legs = [l for l in legs if l != out_leg]
        in_dims = [bond[edge(x, nb_of(l))] if l[0] != "o" else open_dims[x][0] for l in in_legs]
        d_in = int(np.prod(in_dims))
        d_out = rng.randint(1, min(d_in, 3))
        bond[edge(x, toward[x])] = d_out
        m = np.zeros((d_in, d_out))
        for col, r in enumerate(rng.sample(range(d_in), d_out)):
            m[r, col] = rng.choice([1, 1, -1])
        cur = in_legs + [out_leg]
        tensors[x] = np.transpose(m.reshape(in_dims + [d_out]), [cur.index(l) for l in legs])
    ttns, canon, att, names = gen.build_network(TreeTensorNetworkState, par, bond, open_dims, rng, nprng,
                                                order=order, tensors=tensors)
    return ttns, names


def _norm_network(ttn, centre):
    """The doubled network in the vocabulary of Ptn.Ein.Sub / Kids / Centre: numbered legs, their dimensions, the leaves
    (legs, integer tensor) ket and bra per node, and the binding record in the order of `Kids.binds` (open-leg pairs of a
    node, then per sub-tree the two bonds `(d, u)`, `(d', u')` and the sub-tree's own record).
    Returns dims, leaf(nid) -> [(legs, arr) ket, (legs, arr) bra], in_binds, ups, link_binds, centre_phys."""
    toward, order, adj = _toward(ttn, centre)
    dims, num = [], {}

    def leg(tag, nid, what):
        key = (tag, nid, what)
        if key not in num:
            num[key] = len(dims)
            dims.append(None)
        return num[key]
    leaves = {}
    for nid in order:
        nd = ttn.nodes[nid]
        t = np.asarray(ttn.tensors[nid])
        nbs = ([nd.parent] if nd.parent is not None else []) + list(nd.children)
        out = []
        for tag in ("k", "b"):
            ll = [leg(tag, nid, ("nb", m)) for m in nbs] + [leg(tag, nid, ("o", j)) for j in range(t.ndim - len(nbs))]
            for l, d in zip(ll, t.shape):
                dims[l] = int(d)
            out.append((ll, np.round(t.real).astype(np.int64)))
        leaves[nid] = out
    kids_of = {nid: [m for m in adj[nid] if toward.get(m) == nid] for nid in order}

    def phys(nid):
        t = np.asarray(ttn.tensors[nid])
        nopen = t.ndim - len(adj[nid])
        return [(num[("k", nid, ("o", j))], num[("b", nid, ("o", j))]) for j in range(nopen)]

    def sub_binds(nid):
        return phys(nid) + kid_binds(nid)

    def kid_binds(nid):
        out = []
        for c in kids_of[nid]:
            out += [(num[("k", nid, ("nb", c))], num[("k", c, ("nb", nid))]),
                    (num[("b", nid, ("nb", c))], num[("b", c, ("nb", nid))])] + sub_binds(c)
        return out
    in_binds = [b for c in kids_of[centre] for b in sub_binds(c)]
    ups = [(num[("k", c, ("nb", centre))], num[("b", c, ("nb", centre))]) for c in kids_of[centre]]
    pairs = [(num[("k", centre, ("nb", c))], num[("b", centre, ("nb", c))]) for c in kids_of[centre]]
    return dims, leaves, order, in_binds, ups, phys(centre) + kid_binds(centre), phys(centre) + pairs


def _np_net(dims, free, pairs, leaves):
    sym = {}
    for k, (a, b) in enumerate(pairs):
        sym[a] = sym[b] = k
    for l in free:
        sym[l] = len(pairs) + free.index(l)
    args = []
    for legs, arr in leaves:
        args += [arr, [sym[l] for l in legs]]
    args.append([sym[l] for l in free])
    return np.einsum(*args)


def _canonenv(ctx, case):
    from harness import einsum_corr
    from pytreenet.util.tensor_splitting import SplitMode
    rng = random.Random(case["seed"])
    nprng = np.random.default_rng(case["seed"])
    par = case["par"]
    n = len(par)
    ctx.tally("variant", "canonenv-exact" if case["exact"] else "canonenv-" + case["mode"])
    ctx.tally("nodes", n)
    ctx.count(("canonenv", tuple(par), case["seed"], case["centre"], case.get("mode"), case["exact"]),
              nontrivial=n >= 3, corr=case["exact"])
    if not case["exact"]:
        if case.get("fullrank"):
            ttns, info = gen.random_fullrank_ttns(rng, nprng, par, phys=(2, 3) if n <= 5 else (2,), bonds=(2, 2, 3))
        else:
            ttns, info = gen.random_ttns(rng, nprng, par, phys=(2, 2, 3) if n <= 5 else (2,), bonds=(1, 2, 3, 4))
        centre = info["names"][case["centre"]]
        v0 = dense.ttns_vector(ttns, sorted(ttns.nodes))
        try:
            ttns.canonical_form(centre, mode=getattr(SplitMode, case["mode"]))
        except Exception as e:          # noqa: BLE001
            ctx.oracle_fail(case, f"canonical_form({case['mode']}) raised {type(e).__name__}: {str(e)[:160]}")
            return
        probs = env_problems(ctx, ttns, centre, 1e-10, padded_ok=case["mode"] == "KEEP")
        v1 = dense.ttns_vector(ttns, sorted(ttns.nodes))
        if v1.shape != v0.shape or np.linalg.norm(v1 - v0) > 1e-9 * max(1.0, float(np.linalg.norm(v0))):
            probs.append("canonical_form changed the represented state")
        cn = float(np.linalg.norm(ttns.tensors[centre]))
        if abs(cn - np.linalg.norm(v1)) > 1e-9 * max(1.0, float(np.linalg.norm(v1))):
            probs.append(f"norm of the centre tensor {cn:.12g} != norm of the state {np.linalg.norm(v1):.12g}")
        if probs:
            ctx.oracle_fail(case, f"canonenv {case['mode']} centre {centre}: " + "; ".join(probs[:3]))
        return
    # exact integer isometries: the Lean model evaluates the environment and the norm network
    ttns, names = _exact_canonical_state(rng, nprng, par, case["centre"])
    centre = names[case["centre"]]
    probs = env_problems(ctx, ttns, centre, 1e-12, padded_ok=False)
    if probs:
        ctx.oracle_fail(case, "canonenv exact: harness: the constructed state is not canonical: " + probs[0])
        return
    dims, leaves, order, in_binds, ups, norm_binds, centre_binds = _norm_network(ttns, centre)
    env_leaves = [lf for nid in order[1:] for lf in leaves[nid]]
    free = [l for p in ups for l in p]
    size = int(np.prod([dims[a] for a, _ in norm_binds])) if norm_binds else 1
    if size > 60000:
        ctx.tally("canonenv_exact", "skipped (too large)")
        return
    lines = [einsum_corr.einrec_line(dims, free, in_binds, env_leaves),
             einsum_corr.einrec_line(dims, [], norm_binds, leaves[centre] + env_leaves),
             einsum_corr.einrec_line(dims, [], centre_binds, leaves[centre])]
    outs = ctx.lean.batch(lines)
    tabs = [einsum_corr.parse_table(o, "full") for o in outs]
    if any(t is None for t in tabs):
        ctx.corr_fail(case, f"canonenv exact: the value-level model rejects the norm network of a canonical state: {outs}")
        return
    # (1) environment: model table = numpy einsum over the library's tensors = identity
    ref = _np_net(dims, free, in_binds, env_leaves) if env_leaves else np.array(1)
    want = [int(x) for x in np.asarray(ref).reshape(-1)]
    ident = np.ones(())
    for a, b in ups:
        ident = np.multiply.outer(ident, np.eye(dims[a], dims[b]))
    if [int(x) for x in np.asarray(ident).reshape(-1)] != want:
        ctx.oracle_fail(case, "canonenv exact: einsum environment of the centre is not the product of Kronecker deltas")
    if tabs[0] != want:
        ctx.corr_fail(case, f"canonenv exact: Lean model's environment table {tabs[0][:12]} != numpy einsum over the "
                            f"library's tensors {want[:12]}")
    # (2) norm network and centre-only network: equal (centre_norm_eq_full_norm_value), and equal to <psi|psi>
    v = dense.ttns_vector(ttns, sorted(ttns.nodes))
    nrm2 = int(round(float(np.vdot(v, v).real)))
    libs = {}
    for route in ("full contraction", "centre tensor alone"):
        try:
            if route == "centre tensor alone":
                ttns.orthogonality_center_id = centre         # the library now takes the norm from the centre tensor
                val = ttns.scalar_product()
            else:
                val = ttns.scalar_product(use_orthogonal_center=False)
            libs[route] = int(round(complex(val).real)) if abs(complex(val) - round(complex(val).real)) < 1e-9 else complex(val)
        except Exception as e:          # noqa: BLE001
            libs[route] = f"raised {type(e).__name__}"
    if tabs[1] != [nrm2] or tabs[2] != [nrm2]:
        ctx.corr_fail(case, f"canonenv exact: Lean model: norm network {tabs[1]}, centre tensor alone {tabs[2]}, dense "
                            f"<psi|psi> = {nrm2}")
    for route, k in (("full contraction", 1), ("centre tensor alone", 2)):
        if [libs[route]] != tabs[k]:
            ctx.corr_fail(case, f"canonenv exact: scalar_product() by {route} = {libs[route]}, the Lean model evaluates the "
                                f"same network on the same integer tensors to {tabs[k]}")
        if libs[route] != nrm2:
            ctx.oracle_fail(case, f"canonenv exact: scalar_product() by {route} of an exactly canonical integer state = "
                                  f"{libs[route]}, dense <psi|psi> = {nrm2}")
    ctx.tally("canonenv_exact", f"bonds at centre {len(ups)}")



# ------------------------------------------------------------------------------------------------------------------
# gauge machine (Ptn.C06.Gauge): observed factorisations, isometries at every local update, replica of the record

GAUGE_VARIANT = {"tdvp1": "first", "tdvp2": "second", "tdvp2site": "twosite"}


class GaugeRecorder(c05.Recorder):
    """c05.Recorder plus OPTIONAL observation points: `split_node_qr` / `split_node_svd` / `contract_nodes` wrapped from
    outside if they exist (log of (kind, node, toward)); a replica of the C03 record driven by that log alone (a split of
    `a` toward `b`: `rec[a] = b`; a contraction into `b`: `rec[b] = None`; a contraction of two nodes into a new one: both
    void); at every observed `time_evolve` call the numerical isometry of every other tensor toward the evolved one
    (oracle; independent of the observation points) and the canonical form of the replica at the update position
    (correspondence).  The wrappers only observe: an exception of the harness's own bookkeeping never reaches the library
    call - it switches the gauge comparison off for the run (`broken`)."""

    POINTS = ("split_node_qr", "split_node_svd", "contract_nodes")

    def __init__(self):
        super().__init__()
        self.splits = []
        self.rec = None           # node -> neighbour | None; None as a whole: not tracked
        self.ref = None           # a network with the ORIGINAL structure (first hops are taken there)
        self.gtol = 1e-9
        self.gprobs = []          # numerical: oracle
        self.rprobs = []          # record replayed from the observed splits: correspondence
        self.n_iso = 0
        self.n_updates = 0
        self.missing = []
        self.broken = None
        self._wrapped = []

    def _guard(self, fn, *a):
        try:
            fn(*a)
        except Exception as e:      # noqa: BLE001 - the harness's own bookkeeping must never disturb the library call
            self.broken = f"{type(e).__name__}: {str(e)[:80]}"

    def install(self):
        super().install()
        from pytreenet.core.ttn import TreeTensorNetwork
        me = self

        def arg(a, k, pos, name):
            return k[name] if name in k else a[pos]

        def make(name, orig):
            if name == "split_node_qr":
                def note(a, k):
                    r_legs = arg(a, k, 2, "r_legs")
                    tgt = r_legs.parent_leg if r_legs.parent_leg is not None else \
                        (r_legs.child_legs[0] if r_legs.child_legs else None)
                    me._split("qr", arg(a, k, 0, "node_id"), tgt)
            elif name == "split_node_svd":
                def note(a, k):
                    me._split("svd", arg(a, k, 3, "u_identifier"), arg(a, k, 4, "v_identifier"))
            else:
                def note(a, k):
                    me._contract(arg(a, k, 0, "node_id1"), arg(a, k, 1, "node_id2"), arg(a, k, 2, "new_identifier"))

            def wrapped(self_ttn, *a, **k):
                me._guard(note, a, k)
                return orig(self_ttn, *a, **k)
            return wrapped
        try:
            for name in self.POINTS:
                if not hasattr(TreeTensorNetwork, name):
                    self.missing.append(name)
                    continue
                orig = getattr(TreeTensorNetwork, name)
                setattr(TreeTensorNetwork, name, make(name, orig))
                self._wrapped.append((name, orig))
        except Exception:           # noqa: BLE001
            self.uninstall()
            raise

    def uninstall(self):
        try:
            from pytreenet.core.ttn import TreeTensorNetwork
            for name, orig in reversed(self._wrapped):
                setattr(TreeTensorNetwork, name, orig)
            self._wrapped = []
        finally:
            super().uninstall()

    def usable(self):
        return not self.missing and self.broken is None

    def _split(self, kind, a, b):
        self.splits.append((kind, a, b))
        if self.rec is not None:
            if a not in self.rec or b not in self.rec:
                self.rprobs.append(f"{kind} split of {a} toward {b}: not two nodes of the tree")
                return
            self.rec[a] = b
            if kind == "svd":
                self.rec[b] = None          # the factor S V stays at `b`

    def _contract(self, id1, id2, new_id):
        if self.rec is None:
            return
        if new_id in self.rec:
            self.rec[new_id] = None         # an R factor (or a link tensor) was absorbed into `new_id`
        else:
            for x in (id1, id2):
                if x in self.rec:
                    self.rec[x] = None      # two nodes merged into a temporary one

    def start(self, ref, centre):
        """New replica: a state without centre has no record; a state canonical at `centre` points there."""
        self.ref = ref
        self.splits = []
        if centre is None:
            self.rec = {x: None for x in ref.nodes}
        else:
            self.rec = {x: (None if x == centre else dense.path_between(ref, x, centre)[1]) for x in ref.nodes}

    def _hop(self, x, s):
        return dense.path_between(self.ref, x, s)[1]

    def observe(self, psi, heff, td, forward, mode):
        n0 = len(self.events)
        super().observe(psi, heff, td, forward, mode)
        if self.algo is None or len(self.events) == n0 or len(self.gprobs) + len(self.rprobs) > 4:
            return
        self._guard(self._observe_gauge, psi)

    def _observe_gauge(self, psi):
        kind, pos, _ = self.events[-1]
        state = self.algo.state
        target = None
        for nid in list(state.nodes.keys()):
            t = state.tensors[nid]
            if t.shape == psi.shape and np.shares_memory(t, psi):
                target = nid
                break
        if target is None:
            return
        self.n_updates += 1
        where = f"{kind}{pos}"
        # (1) numerically: every other tensor of the state is a (partial) isometry toward the evolved tensor
        if not any(0 in np.asarray(state.tensors[nid]).shape for nid in state.nodes):
            for nid in state.nodes:
                if nid == target:
                    continue
                path = dense.path_between(state, nid, target)
                m = dense.matricize_toward(state, nid, path[1])
                g = m.conj().T @ m
                # absolute test (rtol = 0; `dense.is_partial_isometry` uses numpy's default rtol of 1e-5): G = M^H M is an
                # orthogonal projector, i.e. M is an isometry, or a partial one where a shape-keeping split padded zeros
                if np.abs(g @ g - g).max() <= self.gtol and np.abs(g - g.conj().T).max() <= self.gtol:
                    self.n_iso += 1
                else:
                    self.gprobs.append(f"{where}: tensor of {nid} is not a (partial) isometry toward {path[1]} "
                                       f"(|G G - G| = {np.abs(g @ g - g).max():.2e})")
        # (2) the record replayed from the observed splits is canonical at the update position
        if self.rec is None or self.missing:
            return
        bad = []
        for x in self.rec:
            if kind == "S":
                want = [None] if x == pos[0] else [self._hop(x, pos[0])]
            elif kind == "L":
                want = [self._hop(x, s) for s in pos if s != x]
            else:
                want = [None] if x in pos else [self._hop(x, pos[0]), self._hop(x, pos[1])]
            if any(self.rec[x] != w for w in want):
                bad.append(f"{x}>{self.rec[x]} (first hop {want})")
        if bad:
            self.rprobs.append(f"{where}: record replayed from the observed splits is not canonical there: " + ", ".join(bad[:3]))


def _tree_tokens(ttn, inv):
    toks = ["-" if ttn.root_id is None else str(inv[ttn.root_id])]
    for k, nd in ttn.nodes.items():
        toks.append(f"{inv[k]}:{'-' if nd.parent is None else inv[nd.parent]}:{','.join(str(inv[c]) for c in nd.children)}")
    return " ".join(toks)


def _fmt_splits(splits, inv):
    return " ".join(f"{k} {inv.get(a, a)}>{inv.get(b, b)}" for k, a, b in splits)


def _gauge_begin(rec, ttns, inv):
    """Call right before the constructor: structure and centre of the caller's state, new replica."""
    c0 = ttns.orthogonality_center_id
    rec.gprobs, rec.rprobs, rec.broken = [], [], None
    rec.start(ttns, c0)
    return {"tree": _tree_tokens(ttns, inv), "init": "canon" if c0 is None else f"move:{inv[c0]}", "steps": [], "resets": []}


def _gauge_finish(ctx, case, g, rec, variant, inv, steps):
    """Model line and the implementation's answer in the model's format.  Returns None after an oracle failure, {} when
    the observation points are not available (nothing to compare)."""
    if rec.gprobs:
        ctx.oracle_fail(case, f"{variant}: gauge: " + "; ".join(rec.gprobs[:3]))
        return None
    ctx.hyp_validated += rec.n_iso
    rec.n_iso = 0
    if not rec.usable():
        ctx.tally("gauge_observation", "skipped: observation point missing" if rec.missing else
                  "skipped: the observer failed (" + str(rec.broken) + ")")
        return {}
    ctx.tally("gauge_observation", "observed")
    probs = list(rec.rprobs)
    for k, st in enumerate(g["steps"][1:]):
        if st != g["steps"][0]:
            probs.append(f"splits of step {k + 1} differ from those of step 0: {st[:80]} / {g['steps'][0][:80]}")
    for r in g["resets"]:
        if r != g["ctor"]:
            probs.append(f"splits of reset_to_initial_state [{r[:80]}] differ from those of the constructor [{g['ctor'][:80]}]")
    if probs:
        ctx.corr_fail(case, f"{variant}: gauge: " + "; ".join(probs[:3]))
        return {}
    recs = sorted(f"{inv[x]}>{'-' if y is None else inv[y]}" for x, y in rec.rec.items())
    line = f"C06 gauge {GAUGE_VARIANT[variant]} {steps} {g['init']} tree {g['tree']}"
    impl = ("ok init " + g["ctor"]).rstrip() + " | " + ("step " + (g["steps"][0] if g["steps"] else "")).rstrip() + \
        " | rec " + " ".join(recs) + " | good"
    return {"gline": line, "gimpl": impl}


def _gauge_canon(out):
    """The model's answer with the record sorted (the model lists it in its own node order)."""
    parts = out.split(" | ")
    if len(parts) != 4 or not parts[2].startswith("rec"):
        return out
    parts[2] = "rec " + " ".join(sorted(parts[2].split()[1:]))
    return " | ".join(parts)


def _gauge_case(ctx, case, rec):
    """Stream `gauge`: all three TDVP classes; only the gauge checks (splits, isometries, record) and completion."""
    rng, nprng, ttns, info, H, Hm, Hneg = _problem(case)
    variant = case["variant"]
    names = info["names"]
    inv = {v: k for k, v in names.items()}
    n = len(case["par"])
    ctx.tally("variant", "gauge-" + variant)
    ctx.tally("nodes", n)
    ctx.tally("gauge_init", "canonical_form" if ttns.orthogonality_center_id is None else "move_orthogonalization_center")
    g = _gauge_begin(rec, ttns, inv)
    rec.gtol = 1e-9
    rec.tol = 1e-8
    try:
        algo = c05.make_algo(case, variant, ttns, H, 0.02, 0.02)
    except Exception as e:              # noqa: BLE001
        ctx.oracle_fail(case, f"{variant}: construction raised {type(e).__name__}: {str(e)[:200]}")
        return None
    g["ctor"] = _fmt_splits(rec.splits, inv)
    rec.algo, rec.Hm, rec.order = algo, Hm, sorted(ttns.nodes)
    for step in range(case["steps"]):
        rec.events, rec.problems, rec.contracts = [], [], []
        try:
            if case.get("reset_after") == step:
                rec.algo = None
                rec.start(ttns, ttns.orthogonality_center_id)
                algo.reset_to_initial_state()
                g["resets"].append(_fmt_splits(rec.splits, inv))
                rec.algo = algo
            rec.splits = []
            algo.run_one_time_step()
            g["steps"].append(_fmt_splits(rec.splits, inv))
        except Exception as e:          # noqa: BLE001
            rec.algo = None
            ctx.oracle_fail(case, f"{variant}: step {step} did not complete: {type(e).__name__}: {str(e)[:200]}")
            return None
        ctx.count(("gauge", variant, tuple(case["par"]), case["seed"], step), nontrivial=n >= 3, corr=True)
    rec.algo = None
    ctx.tally("gauge_updates_checked", min(rec.n_updates, 40) // 10 * 10)
    rec.n_updates = 0
    return _gauge_finish(ctx, case, g, rec, variant, inv, case["steps"])

def _run_one(ctx, case, rec):
    if case["kind"] == "gauge":
        return _gauge_case(ctx, case, rec)
    if case["kind"] == "saturated":
        _saturated(ctx, case)
        return None
    if case["kind"] == "canonenv":
        _canonenv(ctx, case)
        return None
    rng, nprng, ttns, info, H, Hm, Hneg = _problem(case)
    variant = case["variant"]
    n = len(case["par"])
    names = info["names"]
    inv = {v: k for k, v in names.items()}
    order = sorted(ttns.nodes)
    root_single_child = len(ttns.nodes[ttns.root_id].children) == 1
    ctx.tally("variant", variant)
    ctx.tally("nodes", n)
    ctx.tally("root_single_child", root_single_child)
    ctx.tally("audit_family", case.get("fam", "-"))
    for key in ("ttno", "cfg", "dtype"):
        if case.get(key):
            ctx.tally("audit_" + key, case[key])
    ctx.sample(case, 3)
    # unnormalised on purpose in half of the cases
    dt = 0.02 / (case.get("hscale") or 1.0)       # |H| dt stays O(1): magnitude of H and step size are varied together
    tf = info.get("tolf", 1.0)              # element-type factor of all tolerances (single precision: 5e3)
    tol = TOL * tf
    struct0, shapes0 = dense.structure(ttns), None
    g = _gauge_begin(rec, ttns, inv)
    try:
        algo = c05.make_algo(case, variant, ttns, H, dt, dt)
    except Exception as e:              # noqa: BLE001
        ctx.oracle_fail(case, f"{variant}: construction raised {type(e).__name__}: {str(e)[:200]}")
        return None
    if algo is None:
        ctx.tally("pending_finding_skipped", case.get("cfg"))
        return None
    rec.tol = 1e-8 * tf
    rec.gtol = 1e-9 * tf
    g["ctor"] = _fmt_splits(rec.splits, inv)
    shapes0 = _shape_map(algo.state)      # shapes after the initial KEEP-mode orthogonalisation = input shapes
    shapes_in = _shape_map(ttns)
    probs = []
    if shapes0 != shapes_in:
        probs.append("initial orthogonalisation changed tensor shapes")
    up = list(algo.update_path)
    segs = [(up[i], dense.path_between(ttns, up[i], up[i + 1])[1]) for i in range(len(up) - 1)]
    v_prev = dense.ttns_vector(algo.state, order)
    e_prev = algos.expval_dense(v_prev, Hm)
    v0 = v_prev.copy()
    rec.algo, rec.Hm, rec.order = algo, Hm, order
    last_targets = []
    for step in range(case["steps"]):
        rec.events, rec.problems, rec.contracts = [], [], []
        try:
            if case.get("reset_after") == step:
                rec.algo = None
                rec.start(ttns, ttns.orthogonality_center_id)
                algo.reset_to_initial_state()
                g["resets"].append(_fmt_splits(rec.splits, inv))
                rec.algo = algo
                v_prev = dense.ttns_vector(algo.state, order)
                e_prev = algos.expval_dense(v_prev, Hm)
            if case.get("retime_after") == step:
                algo.set_num_time_steps_constant_final_time(case["retime_n"])
            if case.get("setn_after") == step:
                algo.set_num_time_steps(case["setn"])
            rec.splits = []
            algo.run_one_time_step()
            g["steps"].append(_fmt_splits(rec.splits, inv))
        except Exception as e:          # noqa: BLE001
            rec.algo = None
            ctx.oracle_fail(case, f"{variant}: step {step} did not complete: {type(e).__name__}: {str(e)[:200]}")
            return None
        ctx.count((variant, tuple(case["par"]), case["seed"], step, case.get("fam")), nontrivial=n >= 3)
        st = algo.state
        if dense.structure(st) != struct0:
            probs.append(f"step {step}: identifiers / parent-child relations changed")
            break
        if _shape_map(st) != shapes0:
            probs.append(f"step {step}: tensor shapes changed")
        wf = dense.well_formed(st)
        if wf:
            probs.append(f"step {step}: state not well-formed: {wf[:2]}")
            break
        if st.orthogonality_center_id != up[0]:
            probs.append(f"step {step}: recorded centre {st.orthogonality_center_id} != first node of the sweep {up[0]}")
        else:
            probs += [f"step {step}: " + p for p in canonical_problems(st, up[0], tol)]
        v = dense.ttns_vector(st, order)
        nrm0 = np.linalg.norm(v_prev)
        # tolerances relative to the data: |psi| for the norm, |H| |psi|^2 for the energy
        if abs(np.linalg.norm(v) - nrm0) > tol * nrm0:
            probs.append(f"step {step}: norm drift {abs(np.linalg.norm(v) - nrm0):.2e} (norm {nrm0:.3g})")
        e = algos.expval_dense(v, Hm)
        if abs(e - e_prev) > tol * np.linalg.norm(Hm) * nrm0 ** 2:
            probs.append(f"step {step}: energy drift {abs(e - e_prev):.2e} (|H| |psi|^2 = "
                         f"{np.linalg.norm(Hm) * nrm0 ** 2:.3g})")
        v_prev, e_prev = v, e
        if rec.events:
            last_targets.append(rec.events[-1][1][0])
    rec.algo = None
    if not probs:
        # value level: the state the algorithm holds is canonical at the first node of the sweep - index form + environment
        probs += env_problems(ctx, algo.state, up[0], 1e-10 if tf == 1.0 else 1e-8 * tf, padded_ok=True)
    # reversibility (second order, generic full-rank states only: the flows are then well-defined)
    if not probs and variant == "tdvp2" and case.get("fullrank"):
        try:
            back = c05.make_algo(case, variant, algo.state, Hneg, dt, dt)
            # "A step with -H undoes a step with H" is a statement about ONE scheme, i.e. one sweep order.  The sweep order
            # is computed at construction from the children ORDER of the state, which a step may permute (C02: children
            # up to order); a new object built from the evolved state can therefore sweep the siblings in another order,
            # and two different palindromic splittings undo each other only to O(dt^3) (false alarm of this oracle found
            # by the thorough tier, seed 1: 5-node tree, rel. err 5e-6 scaling as dt^3).  The reverse run is judged only
            # when it uses the same update path as the forward run.
            if list(back.update_path) != list(algo.update_path):
                ctx.tally("reversibility_checked", "skipped (new object sweeps the siblings in another order)")
            else:
                for _ in range(case["steps"]):
                    back.run_one_time_step()
                vb = dense.ttns_vector(back.state, order)
                err = np.linalg.norm(vb - v0) / np.linalg.norm(v0)
                ctx.tally("reversibility_checked", True)
                if err > 1e-7 * tf:
                    probs.append(f"a step with -H does not undo a step with H (rel. err {err:.2e})")
        except Exception as e:          # noqa: BLE001
            probs.append(f"reverse step raised {type(e).__name__}: {str(e)[:120]}")
    if probs:
        ctx.oracle_fail(case, f"{variant}: " + "; ".join(probs[:4]))
        return None
    gout = _gauge_finish(ctx, case, g, rec, variant, inv, case["steps"])
    rec.n_updates = 0
    if gout is None:
        return None
    vname = "first" if variant == "tdvp1" else "second"
    line = f"C06 sweepend {vname} {inv[up[0]]} {inv[up[-1]]} " + " ".join(f"{inv[a]}:{inv[b]}" for a, b in segs)
    # implementation side: the node of the last local update (first order) / the recorded centre (second order)
    if variant == "tdvp1":
        impl = str(inv[last_targets[-1]]) if last_targets else "none"
    else:
        impl = str(inv[algo.state.orthogonality_center_id])
    return dict(gout, line=line, impl=impl)


def _saturated(ctx, case):
    """Two nodes whose bond equals both physical dimensions: `steps` steps = exp(-iH steps*dt) psi.
    Audit keys: sscale, hscale, dtype, cfg, steps, reset_after, names, pregauge, readonly, ttno."""
    from pytreenet.ttns.ttns import TreeTensorNetworkState
    rng = random.Random(case["seed"])
    nprng = np.random.default_rng(case["seed"])
    d = case["d"]
    par = [-1, 0]
    bond = {(0, 1): d}
    open_dims = {0: [d], 1: [d]}
    names = {0: "a", 1: "b"} if case["rootfirst"] else {0: "b", 1: "a"}
    if case.get("names"):
        nm = c05.NAME_SETS[case["names"]]
        names = {0: nm[0], 1: nm[1]} if case["rootfirst"] else {0: nm[1], 1: nm[0]}
    real = case.get("dtype") in ("real", "int", "single")
    realH = case.get("dtype") in ("int", "single")      # dtype "real": real state, complex Hamiltonian
    ttns, canon, att, nm = gen.build_network(TreeTensorNetworkState, par, bond, open_dims, rng, nprng, names=names,
                                             complex_=not real)
    phys = {0: d, 1: d}
    hs = case.get("hscale") or 1.0
    if case.get("ttno") == "generic":
        H, Hm = c05.generic_ttno(rng, nprng, par, phys, names, True, real=realH, scale=hs)
    else:
        terms = [{0: gen.rand_hermitian(nprng, d) * hs, 1: gen.rand_hermitian(nprng, d)},
                 {rng.randrange(2): gen.rand_hermitian(nprng, d) * hs}]
        if realH:
            terms = [{k: np.real(o) for k, o in t.items()} for t in terms]
        H, Hm = algos.ttno_from_terms(par, phys, names, terms, rng, nprng)
        if realH:
            for nid in list(H.nodes):
                H.replace_tensor(nid, np.real(H.tensors[nid]))
    tf = 1.0
    if any(case.get(k) for k in ("dtype", "sscale", "readonly", "pregauge")):
        Hm, tf = c05.specialise(dict(case, gauge_at=case.get("gauge_at") or "random"), rng, ttns, H, Hm)
    order = sorted(ttns.nodes)
    v0 = dense.ttns_vector(ttns, order).astype(complex)
    dt = 0.1 / hs                           # |H| dt stays O(1): magnitude of H and step size are varied together
    variant = case["variant"]
    steps = case.get("steps", 1)
    ctx.count(("sat", variant, case["seed"], case.get("fam")), nontrivial=True)
    ctx.tally("variant", variant + "-saturated")
    if case.get("fam"):
        ctx.tally("saturated_audit", next(f"{k}={case[k]}" for k in ("sscale", "hscale", "dtype", "cfg", "steps", "names",
                                                                  "pregauge", "readonly", "ttno") if case.get(k)))
    try:
        algo = c05.make_algo(case, variant, ttns, H, dt, dt)
        if case.get("retime"):
            # "for all step sizes": the step size in force is the one set through the public setter
            algo.set_num_time_steps_constant_final_time(case["retime"])
            dt = algo.time_step_size
        done = 0
        for step in range(steps):
            if case.get("reset_after") == step:
                algo.reset_to_initial_state()
                done = 0
            algo.run_one_time_step()
            done += 1
        v1 = dense.ttns_vector(algo.state, order)
    except Exception as e:              # noqa: BLE001
        ctx.oracle_fail(case, f"{variant} saturated two-node: raised {type(e).__name__}: {str(e)[:200]}")
        return
    w, U = np.linalg.eigh(Hm)
    ref = (U * np.exp(-1j * w * dt * done)) @ (U.conj().T @ v0)
    err = np.linalg.norm(v1 - ref) / np.linalg.norm(ref)
    if err > 1e-9 * tf:
        ctx.oracle_fail(case, f"{variant} saturated two-node: {done} step(s) differ from exp(-iH t) psi (rel. err "
                              f"{err:.2e}, |psi| = {np.linalg.norm(ref):.3g})")


def shrink(case):
    if case["kind"] != "step":
        return
    yield from c05.shrink(case)
