"""C08 - a TEBD step equals the ordered product of its Trotter gates and SWAPs.

Stage B (correspondence with the Lean model Ptn.C08):
  * `splitting`  order of the operators produced by TrotterSplitting.exponentiate_splitting
                 (TEBD.exponents), identified by value, against the model's list function;
  * `swap d`     positions of the ones of common_operators.swap_gate(d), exactly;
  * `twosite`    leg bookkeeping of legs_before_combination / contract_nodes /
                 absorb_into_open_legs / split_node_svd on a pair of adjacent nodes (either
                 orientation, any number of further neighbours and open legs): recorded
                 LegSpecifications, parent / child order / shape of the contracted node, shape after
                 the absorption, parent / child order / shape of the two nodes after the split;
  * `seq`        child order of every node after whole TEBD steps (each two-site gate makes the
                 child the first child of its parent);
  * `expsites`   site identifiers of TEBD.exponents (swap pairs, TensorProduct keys in dict order) for
                 swaps given as SWAPlist / plain list / None;
  * `steprec`    the model's global binding record of all time steps (which physical leg every gate
                 input meets), evaluated densely, must reproduce the implementation's final state;
  * `value`      (theorems two_site_gate_value / single_site_gate_value / tebd_step_value) integer state, integer gate
                 tensors fed through TEBD._apply_one_trotter_step with truncation disabled: the LEAN MODEL evaluates the
                 flat network "old node tensors + gate tensors" over the old bonds and its own binding record (`netValue`,
                 line `C04 einrec`) and must reproduce the library's dense vector (exactly when only single-site gates
                 act - everything stays integer -, 1e-10 relative after an SVD) and the dense product of the gates.
Stage C (oracle): the state vector after every TEBD step against the product, in list order, of
  dense gates built here (expm of kron products embedded with kron + axis permutation; SWAP = exchange
  of two axes); identifiers and parent/child relations unchanged; bond bound under truncation;
  value and order of TEBD.exponents.  The library's gate construction, contraction and splitting
  routines are never called by the oracle.
"""
from __future__ import annotations

import json
import os
import random
import warnings
from typing import Any, Dict, List, Optional, Sequence, Tuple

import numpy as np

from harness import gen, dense, algos
from harness.common import CORPUS_DIR, HarnessError

RULE = ("tebd cases: random tree (1-6 nodes, physical dimensions from {1,2,3}, sometimes a node without "
        "physical leg), random TTNS with shuffled insertion-time legs, Trotter splitting of single-site "
        "and tree-adjacent two-site TensorProducts in either key order (Hermitian or not, A != B), real "
        "factors (int, 0, negative), SWAP lists before/after between adjacent equal-dimension sites (as "
        "SWAPlist, plain list of pairs, or None when empty), built through TrotterStep or from_lists, 1-3 steps, truncation off (vector compared after every step) "
        "or on (bond bound); legs cases: one pair of adjacent nodes with 0-2 further children on each "
        "side, optional grandparent, 0-2 open legs per node, both argument orders (all 1944 layouts in "
        "the thorough tier); swap cases: every dimension 0..7 (0..12 thorough). non-trivial = distinct "
        "tebd case with a two-site operator whose first-named site is the child, or a SWAP, or mixed "
        "dimensions with a two-site gate; legs case with child-first call, further neighbours or a number "
        "of open legs other than 1+1; swap case with d >= 2. "
        "input-space audit axes (tebd): histories after the regular steps (set_num_time_steps_constant_final_time, "
        "set_num_time_steps, reset_to_initial_state, run(), further steps; vector and exponents judged at the step "
        "size in force), from_lists with the splitting omitted / bare int entries / swap arguments omitted, "
        "TrotterStep with both swap arguments omitted, empty splittings, TEBD built with svd_parameters None / omitted "
        "and with a config, exponentiate_splitting(dim=...) on equal-dimension systems, state element types real / "
        "int64 / complex64 / read-only views, real and integer operator matrices, NumPy factors, magnitudes 1e-8..1e+8 "
        "(spread or on one tensor), canonical initial states, identifiers that are prefixes of each other or contain "
        "'contr'; swap_gate() with its default. value cases: tree of 1-4 nodes, one physical leg per node (dimensions "
        "1-3, mixed), bonds 1-3, small-integer tensors, 1-4 operators (single-site, two-site in either naming order, "
        "SWAP from swap_gate) with integer gate tensors in [-2, 2], 1-2 rounds, big sum of the model <= 30000 terms; "
        "non-trivial = a two-site operator occurs")
PARTIAL = [
    "value-level equality of the new state with the ordered product of the gates is PROVED for the labelled-network "
    "semantics (two_site_gate_value, single_site_gate_value, swap_gate_value, tebd_step_value, tebd_steps_value: any "
    "commutative semiring, all dimensions) GIVEN the tensordot identities of contract_nodes / absorb_into_open_legs and "
    "the exact factorisation of split_node_svd as hypotheses (truncation disabled); the *_loop_value theorems "
    "(two_site_gate_loop_value, single_site_gate_loop_value, tebd_step_loop_value) discharge the two tensordot "
    "identities: the model's own contract_nodes / absorb_into_open_legs sequence is proved to be the contraction "
    "program tensordot(tensordot(P, C), G) (relation Built) whose value is the sum, so only the exact split remains "
    "a hypothesis (the local program is renamed into the global labels by a relabelling theorem, for one two-site gate: "
    "two_site_gate_loop_value_global, and for the whole step: tebd_step_loop_value_global, where every contract of the "
    "chain is about the value of the model's own program renamed into the step labels SLeg by the injection stepGlob "
    "and the renamed pairs are proved to be the pairs of the specification fold); "
    "that NumPy's tensordot / the library's routines agree with the model, floating point, expm and the truncated "
    "case are decided per input by the dense oracle and the `value` correspondence",
    "an operator that names no site is skipped by _apply_one_trotter_step (`pass`); the value theorems state this "
    "(gateAct of [] is the identity).  Such an exponent cannot be produced through TensorProduct.exp (an empty "
    "product raises), so the property (single-site and nearest-neighbour terms) has no clause about it",
    "scipy.linalg.expm and numpy.linalg.svd are used by contract (expm validated against an own "
    "scaling-and-squaring Taylor series and, for Hermitian generators, eigh; SVD by the reproduced vector)",
    "the bond bound under truncation is decided by the oracle only (selection rule: property C10)",
    "the renaming of the pair in the neighbours' parent/children fields (replace_node_in_neighbours) and the "
    "root bookkeeping are not modelled: the tree-level model keeps the neighbours' entries fixed (theorems "
    "tebd_step_legs / tebd_steps_legs cover whole steps and several steps of that model; its tree and its "
    "global binding record are compared with whole TEBD runs by the `seq` / `steprec` correspondence)",
    "dimensions are not part of the model (shape checks of tensordot / reshape are exercised by the runs)",
]
ASSUMPTIONS = [
    "node identifiers are distinct and none of them is the temporary identifier 'contr'",
    "every node named by an operator has exactly one physical leg (TEBD's to_tensor reshapes to one "
    "leg per named node)",
    "int(i / d) in swap_gate (float division) equals the integer quotient (true for all indices < 2**53)",
    "swap lists are SWAPlist instances, plain lists of pairs (wrapped since the repair F-C08a) or None",
]

TOL = 1e-9
NOTRUNC = dict(max_bond_dim=float("inf"), rel_tol=float("-inf"), total_tol=float("-inf"))


# ===================================================================== dense helpers (oracle side)

def expm_taylor(x: np.ndarray) -> np.ndarray:
    """Own scaling-and-squaring Taylor series (independent of scipy)."""
    x = np.asarray(x, dtype=complex)
    nrm = np.linalg.norm(x, 1)
    s = 0
    while nrm / (2 ** s) > 0.25:
        s += 1
    y = x / (2 ** s)
    term = np.eye(x.shape[0], dtype=complex)
    out = term.copy()
    for k in range(1, 30):
        term = term @ y / k
        out = out + term
    for _ in range(s):
        out = out @ out
    return out


def small_gate(ctx, mats: List[np.ndarray], herm: bool, coeff: complex) -> np.ndarray:
    """exp(coeff * kron(mats)) built here; cross-checks the exponential routine used."""
    from scipy.linalg import expm
    g = np.array([[1.0 + 0j]])
    for m in mats:
        g = np.kron(g, m)
    ref = expm(coeff * g)
    if herm:
        # exp(c A(x)B) = sum exp(c a_i b_j) |a_i><a_i| (x) |b_j><b_j|
        lam = np.array([1.0])
        vec = np.array([[1.0 + 0j]])
        for m in mats:
            w, u = np.linalg.eigh(m)
            lam = np.kron(lam, w)
            vec = np.kron(vec, u)
        alt = (vec * np.exp(coeff * lam)) @ vec.conj().T
    else:
        alt = expm_taylor(coeff * g)
    scale = max(1.0, float(np.linalg.norm(ref)))
    if np.linalg.norm(ref - alt) <= 1e-10 * scale:
        if ctx is not None:
            ctx.hyp_validated += 1
        return ref
    raise _OracleInternal(f"two exponentials built by the oracle disagree by {np.linalg.norm(ref - alt):.3g}")


class _OracleInternal(Exception):
    pass


def embed(order: Sequence[str], dims: Sequence[int], sites: Sequence[str], g: np.ndarray) -> np.ndarray:
    """Matrix over `order` of the operator `g` (rows/cols: `sites` in this order) times identities:
    kron with the identity on the other sites, then an axis permutation into `order`."""
    n = len(order)
    pos = [order.index(s) for s in sites]
    rest = [i for i in range(n) if i not in pos]
    ds = [dims[p] for p in pos]
    dr = [dims[r] for r in rest]
    full = np.kron(g, np.eye(int(np.prod(dr)) if dr else 1))
    t = full.reshape(ds + dr + ds + dr)
    cur = pos + rest
    perm = [cur.index(i) for i in range(n)]
    t = t.transpose(perm + [n + p for p in perm])
    big = int(np.prod(dims)) if len(dims) else 1
    return t.reshape(big, big)


def swap_vector(vec: np.ndarray, order: Sequence[str], dims: Sequence[int], a: str, b: str) -> np.ndarray:
    t = vec.reshape(list(dims) if len(dims) else [1])
    return np.swapaxes(t, order.index(a), order.index(b)).reshape(-1)


def swap_tensor(d: int) -> np.ndarray:
    s = np.zeros((d, d, d, d), dtype=complex)
    for x in range(d):
        for y in range(d):
            s[x, y, y, x] = 1        # out1 = in2, out2 = in1
    return s


# ===================================================================== tebd cases

FACTORS = [1, 1, 0.5, -0.7, 2, 0.0, -1, 0.25]


def gen_tebd_case(rng: random.Random, trunc: bool) -> Dict[str, Any]:
    n = rng.choice([1, 2, 2, 3, 3, 3, 4, 4, 5, 6])
    par = gen.random_parent_array(rng, n)
    pool = rng.choice([(2, 3, 2, 3, 1), (2, 3), (2, 2, 2, 1), (3, 3, 2), (2,), (3,)])
    phys = [rng.choice(pool) for _ in range(n)]
    if n >= 3 and rng.random() < 0.2:
        phys[rng.randrange(n)] = 0          # a node without physical leg (never named by an operator)
    bond = [0] + [rng.choice([1, 2, 2, 3]) for _ in range(1, n)]
    perm = list(range(n))
    rng.shuffle(perm)
    sited = [i for i in range(n) if phys[i] > 0]
    pairs = [(i, par[i]) for i in range(1, n) if phys[i] > 0 and phys[par[i]] > 0]
    eqpairs = [p for p in pairs if phys[p[0]] == phys[p[1]]]

    def swaps():
        if not eqpairs or rng.random() < 0.55:
            return []
        out = []
        for _ in range(rng.choice([1, 1, 2, 3])):
            a, b = rng.choice(eqpairs)
            out.append([a, b] if rng.random() < 0.5 else [b, a])
        return out

    tps = []
    m = rng.randint(1, 4)
    for _ in range(m):
        if pairs and rng.random() < 0.75:
            a, b = rng.choice(pairs)                       # a is the child
            sites = [a, b] if rng.random() < 0.5 else [b, a]
        elif sited:
            sites = [rng.choice(sited)]
        else:
            continue
        tps.append({"sites": sites, "herm": rng.random() < 0.4, "mseed": rng.randrange(10 ** 9),
                    "before": swaps(), "after": swaps()})
    splitting = []
    if tps:
        idxs = list(range(len(tps)))
        rng.shuffle(idxs)
        idxs += [rng.randrange(len(tps)) for _ in range(rng.choice([0, 0, 1, 2]))]
        for i in idxs:
            f = rng.choice(FACTORS + [round(rng.uniform(-2, 2), 3)])
            splitting.append([i, f])
    case = {"kind": "tebd", "par": par, "phys": phys, "bond": bond, "perm": perm,
            "tseed": rng.randrange(10 ** 9), "tps": tps, "splitting": splitting,
            "dt": rng.choice([0.1, 0.05, 0.3, 0.01]), "steps": rng.choice([1, 1, 2, 3]),
            "via": rng.choice(["steps", "from_lists"]), "svd": None}
    # how swap lists are handed over: SWAPlist objects, plain lists of pairs (repair F-C08a), None when empty
    r = rng.random()
    if r < 0.2:
        case["plain"] = True
    elif r < 0.35:
        case["none_empty"] = True
    if trunc:
        case["svd"] = {"max_bond_dim": rng.randint(1, 4),
                       "rel_tol": rng.choice([float("-inf"), 0.0, 1e-15, 1e-6, 1e-2, 0.3]),
                       "total_tol": rng.choice([float("-inf"), 0.0, 1e-15, 1e-6, 1e-2, 0.3]),
                       "renorm": rng.random() < 0.3, "sum_trunc": rng.random() < 0.3}
    return case


PREFIX_NAMES = ["s1", "s10", "s11", "s100", "s101", "s110", "contr1", "s1contr"]
SINGLE_TOL = 2e-4


def _names(case) -> Dict[int, str]:
    if case.get("names") == "prefix":       # identifiers that are prefixes of each other / contain the temporary id
        return {i: PREFIX_NAMES[case["perm"][i]] for i in range(len(case["par"]))}
    return {i: f"s{case['perm'][i]}" for i in range(len(case["par"]))}


def _matrix(nprng, d: int, herm: bool, op_dtype: Optional[str] = None) -> np.ndarray:
    if op_dtype == "int":                   # integer matrices (int64), symmetric when `herm`
        m = nprng.integers(-2, 3, size=(d, d))
        return (m + m.T) if herm else m
    if op_dtype == "real":                  # real float64 matrices
        m = nprng.standard_normal((d, d))
        return (m + m.T) / 2 if herm else 0.4 * m
    if herm:
        return gen.rand_hermitian(nprng, d)
    return 0.4 * gen.rand_tensor(nprng, (d, d))


def build_tebd(case):
    """Returns (ttns, names, trotter_splitting, expected) where expected is the list of
    (kind, [site names], small matrix | None, factor) in the order the property demands."""
    from pytreenet.ttns.ttns import TreeTensorNetworkState
    from pytreenet.operators.tensorproduct import TensorProduct
    from pytreenet.time_evolution.trotter import TrotterSplitting, TrotterStep, SWAPlist
    par, phys = case["par"], case["phys"]
    n = len(par)
    names = _names(case)
    rng = random.Random(case["tseed"])
    nprng = np.random.default_rng(case["tseed"])
    bond = {(par[i], i): case["bond"][i] for i in range(1, n)}
    open_dims = {i: ([phys[i]] if phys[i] > 0 else []) for i in range(n)}
    sdt = case.get("dtype", "c128")
    ttns, _canon, _att, _ = gen.build_network(TreeTensorNetworkState, par, bond, open_dims, rng, nprng,
                                              names=names, complex_=sdt not in ("real", "int"),
                                              small_int=sdt == "int")
    if sdt in ("int", "single", "view"):
        from harness.props.c04 import _convert
        _convert(ttns, sdt)
    if case.get("gauge"):
        # an initial state that is already canonical (centre recorded, child orders permuted by canonical_form)
        ttns.canonical_form(rng.choice(sorted(ttns.nodes)))
    if case.get("mag"):
        # the magnitude sits on the recorded centre / on one random tensor (then the local singular values carry it
        # in full) or is spread evenly over all tensors
        c = ttns.orthogonality_center_id
        if c is None and case.get("mag_one"):
            c = rng.choice(sorted(ttns.nodes))
        f = 10.0 ** (case["mag"] / (1 if c is not None else n))
        for nid in ([c] if c is not None else list(ttns.nodes)):
            t = np.asarray(ttns.tensors[nid])
            ttns.replace_tensor(nid, (t * f).astype(t.dtype if t.dtype.kind != "i" else float))
    tp_objs, tp_mats = [], []
    for tp in case["tps"]:
        mrng = np.random.default_rng(tp["mseed"])
        mats = [_matrix(mrng, phys[s], tp["herm"], case.get("op_dtype")) for s in tp["sites"]]
        tp_mats.append(mats)
        tp_objs.append(TensorProduct({names[s]: m for s, m in zip(tp["sites"], mats)}))
    base = (lambda x: list(x)) if case.get("plain") else SWAPlist      # plain lists: see F-C08a
    if case.get("none_empty") and case["via"] == "steps":
        mk = lambda x: (base(x) if x else None)                        # noqa: E731
    else:
        mk = base
    before = [mk([(names[a], names[b]) for a, b in tp["before"]]) for tp in case["tps"]]
    after = [mk([(names[a], names[b]) for a, b in tp["after"]]) for tp in case["tps"]]
    def fac(f):                             # factor handed over as Python number or NumPy scalar
        return np.float64(f) if case.get("np_factor") else f
    if case["via"] == "from_lists":
        trotter = TrotterSplitting.from_lists(tp_objs, splitting=[(s[0], fac(s[1])) for s in case["splitting"]],
                                              swaps_before=before, swaps_after=after)
    elif case["via"] == "from_lists_forms":
        # the other documented spellings of from_lists: splitting omitted (= every product once, in list order,
        # factor 1), bare int entries (factor 1), swap lists omitted (None) when there is no swap at all
        kw = {}
        ident = [[i, 1] for i in range(len(tp_objs))]
        if [list(x) for x in case["splitting"]] != ident or case.get("fl_explicit"):
            kw["splitting"] = [(s[0] if s[1] == 1 and not isinstance(s[1], float) else (s[0], fac(s[1])))
                               for s in case["splitting"]]
        if any(tp["before"] for tp in case["tps"]) or case.get("fl_explicit"):
            kw["swaps_before"] = before
        if any(tp["after"] for tp in case["tps"]) or case.get("fl_explicit"):
            kw["swaps_after"] = after
        trotter = TrotterSplitting.from_lists(tp_objs, **kw)
    elif case["via"] == "empty":
        trotter = [TrotterSplitting(), TrotterSplitting(None), TrotterSplitting([]),
                   TrotterSplitting.from_lists([])][case.get("empty_form", 0)]
    else:
        def step(i, f):
            if not case["tps"][i]["before"] and not case["tps"][i]["after"] and case.get("step_defaults"):
                return TrotterStep(tp_objs[i], fac(f))          # both swap arguments omitted
            return TrotterStep(tp_objs[i], fac(f), swaps_before=before[i], swaps_after=after[i])
        trotter = TrotterSplitting([step(i, f) for i, f in case["splitting"]])
    expected = []
    uid = 0
    for pos, (i, f) in enumerate(case["splitting"]):
        tp = case["tps"][i]
        for a, b in tp["before"]:
            expected.append({"kind": "swap", "sites": [names[a], names[b]], "d": phys[a], "uid": uid, "slot": (pos, "b")})
            uid += 1
        expected.append({"kind": "gate", "sites": [names[s] for s in tp["sites"]], "mats": tp_mats[i],
                         "herm": tp["herm"], "f": f, "uid": uid, "slot": (pos, "g")})
        uid += 1
        for a, b in tp["after"]:
            expected.append({"kind": "swap", "sites": [names[a], names[b]], "d": phys[a], "uid": uid, "slot": (pos, "a")})
            uid += 1
    return ttns, names, trotter, expected


def _bond_dims(state) -> Dict[Tuple[str, str], int]:
    out = {}
    for nid, node in state.nodes.items():
        if node.parent is not None:
            out[(node.parent, nid)] = int(state.tensors[nid].shape[0])
    return out


def _tree_tokens(state, num: Dict[str, int]) -> List[str]:
    toks = []
    for nid in sorted(state.nodes, key=lambda s: num[s]):
        node = state.nodes[nid]
        p = "-" if node.parent is None else str(num[node.parent])
        kids = ",".join(str(num[c]) for c in node.children) or "-"
        toks.append(f"{num[nid]}:{p}:{kids}")
    return toks


def tebd_model_lines(case, expected, ttns, names) -> List[str]:
    """Requests to the model for one tebd case: the splitting order and the child orders after
    1..steps repetitions of the expected two-site sequence."""
    # splitting: steps encoded as before:gate:after with operator uids
    toks = []
    steps_enc: List[List[List[int]]] = []
    for e in expected:
        pos, slot = e["slot"]
        while len(steps_enc) <= pos:
            steps_enc.append([[], [], []])
        steps_enc[pos][{"b": 0, "g": 1, "a": 2}[slot]].append(e["uid"])
    for b, g, a in steps_enc:
        toks.append(f"{','.join(map(str, b))}:{g[0]}:{','.join(map(str, a))}")
    lines = ["C08 splitting " + " ".join(toks) if toks else "C08 splitting"]
    num = {names[i]: i for i in names}
    tree = _tree_tokens(ttns, num)
    pairs = [f"{num[e['sites'][0]]}-{num[e['sites'][1]]}" for e in expected if len(e["sites"]) == 2]
    for k in range(1, case["steps"] + 1):
        lines.append("C08 seq " + " ".join(tree) + " / " + " ".join(pairs * k))
    # site identifiers of TEBD.exponents
    def swaptok(pairs_):
        if not pairs_ and case.get("none_empty") and case["via"] == "steps":
            return "n"
        body = ",".join(f"{a}-{b}" for a, b in pairs_)
        return ("p:" if case.get("plain") else "s:") + body
    stoks = []
    for i, _f in case["splitting"]:
        tp = case["tps"][i]
        stoks.append(",".join(str(x) for x in tp["sites"]) + "/" + swaptok(tp["before"]) + "/" + swaptok(tp["after"]))
    lines.append("C08 expsites " + " ".join(stoks))
    # the global binding record of all time steps
    ops = ["-".join(str(num[x]) for x in e["sites"]) for e in expected]
    lines.append("C08 steprec " + " ".join(tree) + " / " + " ".join(ops * case["steps"]))
    return lines


def eval_record(record: str, expected, steps: int, v0: np.ndarray, order, dims, num) -> np.ndarray:
    """Dense evaluation of the model's binding record: gate number g (the (g mod len)-th operator of
    the step) has its input k contracted with the physical leg the record names; its output k takes the
    place of that leg.  Leg names: s<site> initial leg of a site, o<g>.<k> output k of gate g."""
    inv = {v: k for k, v in num.items()}
    axis_of: Dict[str, int] = {f"s{num[n]}": order.index(n) for n in order}
    by_gate: Dict[int, Dict[int, str]] = {}
    for tok in record.split():
        g, k, leg = tok.split(":")
        by_gate.setdefault(int(g), {})[int(k)] = leg
    vec = v0.reshape(list(dims) if len(dims) else [1])
    n_ops = len(expected)
    for g in range(n_ops * steps):
        e = expected[g % n_ops]
        ins = by_gate.get(g, {})
        if sorted(ins) != list(range(len(e["sites"]))):
            raise ValueError(f"gate {g}: record names inputs {sorted(ins)}")
        axes = [axis_of[ins[k]] for k in range(len(e["sites"]))]
        ds = [vec.shape[a] for a in axes]
        gate = e["small"].reshape(ds + ds)
        vec = np.tensordot(gate, vec, axes=(list(range(len(ds), 2 * len(ds))), axes))
        vec = np.moveaxis(vec, list(range(len(ds))), axes)
        for k, a in enumerate(axes):
            axis_of[f"o{g}.{k}"] = a
    del inv
    return vec.reshape(-1)


def _case_tebd(ctx, case, model_out: Optional[List[str]] = None):
    from pytreenet.util.tensor_splitting import SVDParameters  # noqa: F401  (import check)
    try:
        ttns, names, trotter, expected = build_tebd(case)
    except Exception as e:                      # noqa: BLE001
        ctx.oracle_fail(case, f"construction of state / splitting raised {type(e).__name__}: {str(e)[:200]}")
        return
    order = sorted(ttns.nodes)
    dims = dense.phys_dims(ttns, order)
    dt = case["dt"]
    steps = case["steps"]
    svd = case["svd"]
    two = [e for e in expected if len(e["sites"]) == 2]
    child_first = any(ttns.nodes[e["sites"][0]].parent == e["sites"][1] for e in two if e["kind"] == "gate")
    nonsym = any(e["kind"] == "gate" and len(e["sites"]) == 2 for e in expected)
    has_swap = any(e["kind"] == "swap" for e in expected)
    mixed = len({d for d in case["phys"] if d > 0}) > 1
    ctx.count(("tebd", json.dumps(case, sort_keys=True)),
              nontrivial=bool(child_first or has_swap or (nonsym and mixed)), corr=True)
    ctx.tally("n_nodes", len(order))
    ctx.tally("ops_per_step", len(expected))
    ctx.tally("features", "+".join(k for k, v in (("childfirst", child_first), ("swap", has_swap),
                                                  ("mixed", mixed), ("trunc", svd is not None),
                                                  ("two", bool(two))) if v) or "single-site only")
    ctx.tally("steps", steps)
    ctx.tally("splitting_built_via", case["via"])
    ctx.tally("state_element_type", case.get("dtype", "c128"))
    ctx.tally("operator_element_type", case.get("op_dtype", "complex"))
    ctx.tally("magnitude_exponent", case.get("mag", 0))
    ctx.tally("initial_state", "canonical (centre recorded)" if ttns.orthogonality_center_id is not None else "no centre")
    ctx.tally("identifier_scheme", case.get("names", "default"))
    ctx.tally("tebd_constructor", case.get("ctor", "svd_parameters given"))
    ctx.sample(case, 3)

    if model_out is None:
        model_out = ctx.lean.batch(tebd_model_lines(case, expected, ttns, names))

    # ---- dense gates of the oracle
    def set_gates(step_size):
        for e in expected:
            if e["kind"] == "gate":
                e["small"] = small_gate(ctx, e["mats"], e["herm"], -1j * e["f"] * step_size)
            else:
                e["small"] = swap_tensor(e["d"]).reshape(e["d"] ** 2, e["d"] ** 2)
    try:
        set_gates(dt)
    except _OracleInternal as ex:
        ctx.boundary_skipped += 1
        ctx.tally("skipped", str(ex)[:40])
        return

    tol = SINGLE_TOL if case.get("dtype") == "single" else TOL

    def close(a, b):
        """|a - b| within the tolerance, relative to |b| (with the historical floor 1 for O(1) data only)."""
        nb = float(np.linalg.norm(b))
        return bool(np.linalg.norm(a - b) <= tol * (nb if case.get("mag") else max(1.0, nb)))

    v0 = np.array(dense.ttns_vector(ttns, order))
    struct0 = dense.structure(ttns)
    bonds0 = _bond_dims(ttns)
    with warnings.catch_warnings():
        warnings.simplefilter("ignore")
        try:
            ctor = case.get("ctor")
            if ctor is None:
                algo = algos.make_algo("tebd", ttns, None, dt, steps * dt, [], svd=svd or NOTRUNC, trotter=trotter)
            else:
                # TEBD constructed directly: svd_parameters omitted (documented default SVDParameters(): cut-offs
                # 1e-15, at most 100) and / or the optional config (bond dimensions recorded during run())
                from pytreenet.time_evolution.tebd import TEBD
                from pytreenet.time_evolution.ttn_time_evolution import TTNTimeEvolutionConfig
                kw = {}
                if "config" in ctor:
                    kw["config"] = TTNTimeEvolutionConfig(record_bond_dim=True)
                if "svd_none" in ctor:
                    kw["svd_parameters"] = None
                algo = TEBD(ttns, trotter, dt, steps * dt, [], **kw)
        except Exception as e:                  # noqa: BLE001
            if case.get("plain") and isinstance(e, AttributeError) and "into_operators" in str(e):
                _report_plain(ctx, case, e)
                return
            ctx.oracle_fail(case, f"TEBD construction raised {type(e).__name__}: {str(e)[:200]}")
            return

        # ---- TEBD.exponents: order and values
        probs = []
        exps = algo.exponents
        impl_classes = None
        if len(exps) != len(expected):
            probs.append(f"TEBD.exponents has {len(exps)} operators, the splitting defines {len(expected)}")
        else:
            for k, (op, e) in enumerate(zip(exps, expected)):
                if list(op.node_identifiers) != e["sites"]:
                    probs.append(f"exponent {k}: acts on {list(op.node_identifiers)}, expected {e['sites']} "
                                 f"({e['kind']} of Trotter step {e['slot'][0]}, slot {e['slot'][1]})")
                    continue
                ds = [dims[order.index(s)] for s in e["sites"]]
                arr = np.asarray(op.operator)
                if arr.shape != tuple(ds + ds):
                    probs.append(f"exponent {k}: tensor shape {arr.shape}, expected {tuple(ds + ds)}")
                    continue
                dd = int(np.prod(ds))
                if np.linalg.norm(arr.reshape(dd, dd) - e["small"]) > 1e-10 * max(1.0, np.linalg.norm(e["small"])):
                    probs.append(f"exponent {k} ({e['kind']} on {e['sites']}): value differs from "
                                 f"{'SWAP' if e['kind'] == 'swap' else 'exp(-i f dt A(x)B)'}")
            impl_classes = _classify(exps, expected, dims, order)
        if probs:
            ctx.oracle_fail(case, "TEBD.exponents: " + "; ".join(probs[:3]))

        # ---- correspondence: list order of the splitting
        want_ids = model_out[0].split()
        if impl_classes is not None:
            cls = _uid_classes(expected)
            try:
                model_classes = [cls[int(t)] for t in want_ids]
            except (ValueError, KeyError):
                model_classes = None
            if model_classes != impl_classes:
                ctx.corr_fail(case, f"splitting order: model {model_out[0]!r} -> classes {model_classes}, "
                                    f"implementation classes {impl_classes}")

        # ---- steps
        vec = v0
        num = {names[i]: i for i in names}
        touched = {frozenset(e["sites"]) for e in two}
        big = {}
        for k in range(1, steps + 1):
            try:
                algo.run_one_time_step()
            except Exception as e:              # noqa: BLE001
                ctx.oracle_fail(case, f"run_one_time_step (step {k}) raised {type(e).__name__}: {str(e)[:200]}")
                return
            state = algo.state
            wf = dense.well_formed(state)
            if wf:
                ctx.oracle_fail(case, f"step {k}: state not well formed: {wf[:2]}")
                return
            if dense.structure(state) != struct0:
                ctx.oracle_fail(case, f"step {k}: identifiers / parent-child relations changed: "
                                      f"{dense.structure(state)} != {struct0}")
                return
            # child order against the model
            impl_tree = " ".join(_tree_tokens(state, num))
            if impl_tree != model_out[k]:
                ctx.corr_fail(case, f"child order after step {k}: model {model_out[k]!r}, implementation {impl_tree!r}")
            if svd is None:
                for j, e in enumerate(expected):
                    if e["kind"] == "swap":
                        vec = swap_vector(vec, order, dims, e["sites"][0], e["sites"][1])
                    else:
                        if j not in big:
                            big[j] = embed(order, dims, e["sites"], e["small"])
                        vec = big[j] @ vec
                got = dense.ttns_vector(state, order)
                err = np.linalg.norm(got - vec)
                if not close(got, vec):
                    ctx.oracle_fail(case, f"state after step {k} differs from the ordered product of the dense "
                                          f"gates applied to the old state: |diff| = {err:.3g} "
                                          f"(|ref| = {np.linalg.norm(vec):.3g}); operators "
                                          f"{[(e['kind'], e['sites']) for e in expected][:6]}")
                    return
            else:
                mb = svd["max_bond_dim"]
                for (p, c), d in _bond_dims(state).items():
                    lim = mb if frozenset((p, c)) in touched else max(mb, bonds0[(p, c)])
                    if d > lim:
                        ctx.oracle_fail(case, f"step {k}: bond {p}-{c} has dimension {d} > max_bond_dim {mb}")
                        return
        # ---- correspondence: site identifiers of the exponents
        if len(model_out) >= steps + 3:
            impl_sites = " ".join("-".join(str(num[x]) for x in op.node_identifiers) or "_" for op in exps)
            if impl_sites != model_out[steps + 1]:
                ctx.corr_fail(case, f"sites of TEBD.exponents: model {model_out[steps + 1]!r}, implementation {impl_sites!r}")
            # ---- correspondence: the model's global binding record, evaluated densely
            rec_out = model_out[steps + 2]
            if rec_out in ("error", "bad-op") or " | " not in rec_out + " ":
                ctx.corr_fail(case, f"model step record: {rec_out!r} for an admissible step")
            else:
                record, _, tree_out = rec_out.partition("|")
                final_tree = " ".join(_tree_tokens(algo.state, num))
                if tree_out.strip() != final_tree:
                    ctx.corr_fail(case, f"tree after {steps} steps: model {tree_out.strip()!r}, implementation {final_tree!r}")
                if svd is None:
                    try:
                        mvec = eval_record(record, expected, steps, v0, order, dims, num)
                        got = dense.ttns_vector(algo.state, order)
                        if not close(got, mvec):
                            ctx.corr_fail(case, f"the model's binding record of {steps} step(s) does not reproduce the "
                                                f"implementation's state (|diff| = {np.linalg.norm(mvec - got):.3g})")
                    except (ValueError, KeyError) as ex:
                        ctx.corr_fail(case, f"model binding record unreadable: {ex}")
        # ---- the documented `dim` argument of exponentiate_splitting / into_operators / to_tensor (never used by
        #      TEBD itself): with one common physical dimension it must give the same operators
        sited_dims = {d for d in case["phys"]}
        if len(sited_dims) == 1 and 0 not in sited_dims and expected:
            d = sited_dims.pop()
            for form in ("dim", "dim+ttn"):
                ctx.tally("exponentiate_splitting_form", form)
                try:
                    ops2 = (trotter.exponentiate_splitting(dt, dim=d) if form == "dim" else
                            trotter.exponentiate_splitting(dt, ttns, d))
                    bad = None
                    if len(ops2) != len(expected):
                        bad = f"{len(ops2)} operators, expected {len(expected)}"
                    else:
                        set_gates(dt)
                        for k, (op, e) in enumerate(zip(ops2, expected)):
                            arr = np.asarray(op.operator)
                            ds = [d] * len(e["sites"])
                            if list(op.node_identifiers) != e["sites"] or arr.shape != tuple(ds + ds):
                                bad = f"operator {k}: sites {list(op.node_identifiers)} shape {arr.shape}"
                                break
                            dd = d ** len(ds)
                            if np.linalg.norm(arr.reshape(dd, dd) - e["small"]) > 1e-10 * max(1.0, np.linalg.norm(e["small"])):
                                bad = f"operator {k} ({e['kind']} on {e['sites']}): value differs"
                                break
                    if bad:
                        ctx.oracle_fail(case, f"exponentiate_splitting({form} = {d}): {bad}")
                except _OracleInternal:
                    pass
                except Exception as e:          # noqa: BLE001
                    ctx.oracle_fail(case, f"exponentiate_splitting({form} = {d}) raised {type(e).__name__}: {str(e)[:160]}")
        # ---- histories: public setters / reset / run() interleaved with further steps (truncation off only)
        if case.get("hist") and svd is None:
            if _history(ctx, case, algo, expected, set_gates, close, v0, vec, struct0, order, dims, dt, steps):
                return
        # caller's object untouched (the algorithm works on its own copy)
        if not np.array_equal(dense.ttns_vector(ttns, order), v0):
            ctx.oracle_fail(case, "the initial state object handed to TEBD was modified")


def _history(ctx, case, algo, expected, set_gates, close, v0, vec, struct0, order, dims, dt, steps) -> bool:
    """Operations of case['hist'] after the regular steps; the state vector is compared after every operation with the
    ordered product of dense gates at the step size IN FORCE.  Returns True when a failure was reported.
      ["retime", m]  set_num_time_steps_constant_final_time(m): step size becomes final_time / m
      ["setn", n]    set_num_time_steps(n): final time becomes n * step size, the step size stays
      ["reset"]      reset_to_initial_state()
      ["step"]       run_one_time_step()
      ["run"]        run(pgbar=False): num_time_steps further steps from the current state"""
    dt_cur, t_final = dt, steps * dt
    big: Dict[int, np.ndarray] = {}

    def one_step(v):
        for j, e in enumerate(expected):
            if e["kind"] == "swap":
                v = swap_vector(v, order, dims, e["sites"][0], e["sites"][1])
            else:
                if j not in big:
                    big[j] = embed(order, dims, e["sites"], e["small"])
                v = big[j] @ v
        return v
    done = []
    for op in case["hist"]:
        if op[0] not in ("retime", "setn", "reset", "step", "run"):
            raise ValueError(op)
    for op in case["hist"]:
        kind = op[0]
        ctx.tally("history_op", kind)
        done.append(op)
        try:
            if kind == "retime":
                algo.set_num_time_steps_constant_final_time(op[1])
                dt_cur = t_final / op[1]
                try:
                    set_gates(dt_cur)
                except _OracleInternal:
                    ctx.boundary_skipped += 1
                    return False
                big.clear()
                exps = algo.exponents
                for k, (o, e) in enumerate(zip(exps, expected)):
                    arr = np.asarray(o.operator)
                    dd = e["small"].shape[0]
                    if arr.size != dd * dd or np.linalg.norm(arr.reshape(dd, dd) - e["small"]) > \
                            1e-10 * max(1.0, np.linalg.norm(e["small"])):
                        ctx.oracle_fail(case, f"history {done}: after set_num_time_steps_constant_final_time({op[1]}) "
                                              f"exponent {k} ({e['kind']} on {e['sites']}) is not the gate of the new "
                                              f"step size {dt_cur:.6g}")
                        return True
                if len(exps) != len(expected):
                    ctx.oracle_fail(case, f"history {done}: {len(exps)} exponents after the setter, expected {len(expected)}")
                    return True
                continue
            if kind == "setn":
                algo.set_num_time_steps(op[1])
                t_final = op[1] * dt_cur
                continue
            if kind == "reset":
                algo.reset_to_initial_state()
                vec = v0
            elif kind == "step":
                algo.run_one_time_step()
                vec = one_step(vec)
            else:       # run
                nrun = int(algo.num_time_steps)        # C18 judges this number; here: that many steps are applied
                if nrun > 6:
                    continue
                algo.run(pgbar=False)
                for _ in range(nrun):
                    vec = one_step(vec)
        except Exception as e:                  # noqa: BLE001
            ctx.oracle_fail(case, f"history {done}: {kind} raised {type(e).__name__}: {str(e)[:160]}")
            return True
        state = algo.state
        wf = dense.well_formed(state)
        if wf or dense.structure(state) != struct0:
            ctx.oracle_fail(case, f"history {done}: state not well formed / identifiers or relations changed: {wf[:2]}")
            return True
        got = dense.ttns_vector(state, order)
        if not close(got, vec):
            ctx.oracle_fail(case, f"history {done}: state differs from the ordered product of the dense gates at step "
                                  f"size {dt_cur:.6g} applied to the previous state: |diff| = "
                                  f"{np.linalg.norm(got - vec):.3g} (|ref| = {np.linalg.norm(vec):.3g})")
            return True
    return False


FINDING_PLAIN = "F-C08a"


def _report_plain(ctx, case, exc):
    """Swap lists handed over as plain lists of pairs (allowed by the signature of TrotterStep and used
    by tests/test_trotter.py) make exponentiate_splitting raise AttributeError.  Reported under the
    finding id only when the coordinator has recorded it; otherwise noted in the evidence."""
    from harness.common import load_known_findings
    known = load_known_findings("C08")
    detail = (f"swap lists given as plain lists of pairs: TEBD construction raised "
              f"{type(exc).__name__}: {str(exc)[:120]}")
    ctx.tally("plain_list_swaps", "AttributeError")
    if FINDING_PLAIN in known:
        status = known[FINDING_PLAIN].get("status")
        ctx.oracle_fail(case, detail, finding=FINDING_PLAIN if status == "open" else None)
    else:
        ctx.notes["candidate_finding_F-C08a"] = detail + " (not listed in known_findings.json: noted only)"


def _uid_classes(expected) -> Dict[int, int]:
    """Operators that are equal as (sites, value) are interchangeable: map uid -> smallest equal uid."""
    cls: Dict[int, int] = {}
    for e in expected:
        rep = e["uid"]
        for f in expected:
            if f["uid"] >= e["uid"]:
                break
            if f["sites"] == e["sites"] and f["small"].shape == e["small"].shape and \
                    np.allclose(f["small"], e["small"], rtol=0, atol=1e-12):
                rep = cls[f["uid"]]
                break
        cls[e["uid"]] = rep
    return cls


def _classify(exps, expected, dims, order) -> Optional[List[Any]]:
    """Identify every implementation operator by value among the expected operators."""
    cls = _uid_classes(expected)
    out = []
    for op in exps:
        hit = None
        arr = np.asarray(op.operator)
        for e in expected:
            if list(op.node_identifiers) != e["sites"]:
                continue
            dd = e["small"].shape[0]
            if arr.size == dd * dd and np.allclose(arr.reshape(dd, dd), e["small"], rtol=0,
                                                   atol=1e-10 * max(1.0, np.linalg.norm(e["small"]))):
                hit = cls[e["uid"]]
                break
        out.append(hit)
    return out


# ===================================================================== legs cases (TTN level)

OPEN_COMBOS = [(1, 1), (2, 1), (1, 2), (0, 1), (1, 0), (2, 2), (0, 2), (2, 0), (0, 0)]


def gen_legs_case(rng: random.Random) -> Dict[str, Any]:
    a, b, k = rng.choice([0, 0, 1, 2]), rng.choice([0, 0, 1, 2]), rng.choice([0, 1, 1, 2])
    op_, oc = rng.choice([(1, 1), (1, 1)] + OPEN_COMBOS)
    return {"kind": "legs", "orient": rng.choice(["p", "c"]), "hp": rng.random() < 0.6, "a": a, "b": b,
            "k": k, "oP": op_, "oC": oc, "distinct": rng.random() < 0.5, "seed": rng.randrange(10 ** 9)}


def build_legs(case):
    """The pair (P parent of C) with grandparent (optional), a children of P before C, b after, k children
    of C; all further nodes are leaves with one open leg."""
    from pytreenet.ttns.ttns import TreeTensorNetworkState
    rng = random.Random(case["seed"])
    nprng = np.random.default_rng(case["seed"])
    par: List[int] = []
    if case["hp"]:
        par.append(-1)            # 0 = grandparent
        P = 1
        par.append(0)
    else:
        P = 0
        par.append(-1)
    order = list(range(P + 1))
    nxt = P + 1
    A = list(range(nxt, nxt + case["a"])); nxt += case["a"]
    C = nxt; nxt += 1
    B = list(range(nxt, nxt + case["b"])); nxt += case["b"]
    K = list(range(nxt, nxt + case["k"])); nxt += case["k"]
    par += [P] * (case["a"] + 1 + case["b"]) + [C] * case["k"]
    order += A + [C] + B + K
    n = nxt
    perm = list(range(n))
    rng.shuffle(perm)
    num = {i: 10 + perm[i] for i in range(n)}               # model identifiers
    names = {i: f"x{num[i]}" for i in range(n)}
    if case["distinct"]:
        pool = [2, 3, 4, 5, 2, 3, 4, 5, 2, 3]
        bond = {(par[i], i): pool[i % len(pool)] for i in range(n) if par[i] >= 0}
        od = [2, 3, 4, 5]
        rng.shuffle(od)
    else:
        bond = {(par[i], i): rng.choice([1, 2, 2, 3]) for i in range(n) if par[i] >= 0}
        od = [rng.choice([2, 2, 3])] * 4
    open_dims = {i: [2] for i in range(n)}
    open_dims[P] = od[:case["oP"]]
    open_dims[C] = od[case["oP"]:case["oP"] + case["oC"]]
    ttn, _canon, _att, _ = gen.build_network(TreeTensorNetworkState, par, bond, open_dims, rng, nprng,
                                             names=names, order=order)
    return ttn, {"P": P, "C": C, "A": A, "B": B, "K": K, "par": par, "num": num, "names": names,
                 "bond": bond, "open": open_dims}


def legs_model_line(case, info) -> str:
    num, P, C = info["num"], info["P"], info["C"]
    pp = str(num[0]) if case["hp"] else "-"
    kp = ",".join(str(num[i]) for i in info["A"] + [C] + info["B"])
    kc = ",".join(str(num[i]) for i in info["K"]) or "-"
    return f"C08 twosite {case['orient']} {num[P]} {num[C]} {pp} {kp} {kc} {case['oP']} {case['oC']}"


def _parse_model_twosite(out: str) -> Optional[Dict[str, List[str]]]:
    if out in ("bad-op", "error"):
        return None
    res = {}
    for part in out.split(";"):
        key, _, val = part.partition("=")
        res[key] = val.split("|")
    return res


def _lst(s: str) -> List[str]:
    return [] if s == "-" else s.split(",")


def _case_legs(ctx, case, model_out: Optional[str] = None):
    from pytreenet.util.tensor_splitting import SVDParameters
    ttn, info = build_legs(case)
    if model_out is None:
        model_out = ctx.lean.batch([legs_model_line(case, info)])[0]
    num, names = info["num"], info["names"]
    back = {v: k for k, v in num.items()}
    P, C = info["P"], info["C"]
    n1, n2 = (P, C) if case["orient"] == "p" else (C, P)
    id1, id2 = names[n1], names[n2]
    ctx.count(("legs", json.dumps(case, sort_keys=True)),
              nontrivial=(case["orient"] == "c" or case["oP"] + case["oC"] != 2 or case["a"] + case["b"] + case["k"] > 0),
              corr=True)
    ctx.tally("legs_orient", case["orient"])
    ctx.tally("legs_open", f"{case['oP']}+{case['oC']}")
    ctx.sample(case, 5)
    model = _parse_model_twosite(model_out)
    if model is None:
        ctx.corr_fail(case, f"model answers {model_out!r} for an admissible pair")
        return

    # dimension of every open / gate label (labels as the model prints them)
    opendim: Dict[str, int] = {}
    kk = 0
    for nd in (n1, n2):
        for j, d in enumerate(info["open"][nd]):
            opendim[f"o{num[nd]}.{j}"] = d
            opendim[f"g{kk}"] = d
            opendim[f"i{kk}"] = d
            kk += 1

    def shape_of(labels: List[str], nodes: Sequence[int], bonddim=None) -> List[Optional[int]]:
        out = []
        for lb in labels:
            if lb[0] == "v":
                other = back[int(lb[1:])]
                d = None
                for nd in nodes:
                    if (nd, other) in info["bond"]:
                        d = info["bond"][(nd, other)]
                    if (other, nd) in info["bond"]:
                        d = info["bond"][(other, nd)]
                out.append(d)
            elif lb == "b":
                out.append(bonddim)
            else:
                out.append(opendim[lb])
        return out

    def ids(xs: Sequence[str]) -> List[str]:
        return [names[back[int(x)]] for x in xs]

    v_before, labels_before = dense.ttn_dense(ttn)
    struct_before = dense.structure(ttn)
    probs: List[str] = []
    # the gate: one leg pair per physical leg, in the order (legs of the first-named node, legs of the second)
    odims = list(info["open"][n1]) + list(info["open"][n2])
    nopen = len(odims)
    try:
        # 1. legs_before_combination
        s1, s2 = ttn.legs_before_combination(id1, id2)
        for tag, s in (("s1", s1), ("s2", s2)):
            m = model[tag]
            want = (None if m[0] == "-" else names[back[int(m[0])]], ids(_lst(m[1])), [int(x) for x in _lst(m[2])],
                    m[3] == "1")
            got = (s.parent_leg, list(s.child_legs), list(s.open_legs), bool(s.is_root))
            if want != got:
                probs.append(f"legs_before_combination {tag}: implementation {got}, model {want}")
        # 2. contract_nodes
        ttn.contract_nodes(id1, id2, new_identifier="contr")
        node = ttn.nodes["contr"]
        m = model["contr"]
        want = (None if m[0] == "-" else names[back[int(m[0])]], ids(_lst(m[1])), shape_of(_lst(m[2]), (P, C)))
        got = (node.parent, list(node.children), [int(x) for x in ttn.tensors["contr"].shape])
        if want != got:
            probs.append(f"contract_nodes: implementation (parent, children, shape) {got}, model {want}")
        # 3. absorb a generic operator (different matrix on every leg, so that binding order shows)
        nprng = np.random.default_rng(case["seed"] + 1)
        mats = [gen.rand_tensor(nprng, (d, d)) for d in odims]
        gate = gen.rand_tensor(nprng, tuple(odims + odims)) if nopen and case["seed"] % 2 else None
        if gate is None:
            gate = np.array(1.0 + 0j)
            for mm in mats:
                gate = np.multiply.outer(gate, mm)
            # legs (o0,i0,o1,i1,...) -> (o0,o1,...,i0,i1,...)
            gate = gate.transpose([2 * j for j in range(nopen)] + [2 * j + 1 for j in range(nopen)]) if nopen else gate
        ttn.absorb_into_open_legs("contr", gate)
        want = shape_of(model["abs"][0].split(",") if model["abs"][0] != "-" else [], (P, C))
        got = [int(x) for x in ttn.tensors["contr"].shape]
        if want != got:
            probs.append(f"absorb_into_open_legs: shape {got}, model {want}")
        # 4. split
        ttn.split_node_svd("contr", s1, s2, u_identifier=id1, v_identifier=id2,
                           svd_params=SVDParameters(**NOTRUNC))
        bd = int(ttn.tensors[names[C]].shape[0])
        for tag, nd in (("n1", n1), ("n2", n2)):
            m = model[tag]
            nid = names[nd]
            nodeobj = ttn.nodes[nid]
            want = (None if m[0] == "-" else names[back[int(m[0])]], ids(_lst(m[1])),
                    shape_of(_lst(m[2]), (nd,), bonddim=bd))
            got = (nodeobj.parent, list(nodeobj.children), [int(x) for x in ttn.tensors[nid].shape])
            if want != got:
                probs.append(f"after split, node {tag}: implementation (parent, children, shape) {got}, model {want}")
    except Exception as e:                      # noqa: BLE001
        ctx.oracle_fail(case, f"two-site application on an adjacent pair raised {type(e).__name__}: {str(e)[:200]}")
        return
    if probs:
        ctx.corr_fail(case, "; ".join(probs[:3]))
    # ---- oracle: dense value.  The gate's k-th input leg must be contracted with the k-th physical leg
    # in the order (open legs of the first-named node, open legs of the second-named node).
    wf = dense.well_formed(ttn)
    if wf:
        ctx.oracle_fail(case, f"network not well formed after contract/absorb/split: {wf[:2]}")
        return
    if dense.structure(ttn) != struct_before:
        ctx.oracle_fail(case, f"identifiers / parent-child relations changed: {dense.structure(ttn)} != {struct_before}")
        return
    v_after, labels_after = dense.ttn_dense(ttn)
    if labels_after != labels_before:
        ctx.oracle_fail(case, f"open legs changed: {labels_before} -> {labels_after}")
        return
    tgt = [("o", "", names[nd], j) for nd in (n1, n2) for j in range(len(info["open"][nd]))]
    axes = [labels_before.index(t) for t in tgt]
    ref = np.tensordot(gate, v_before, axes=(list(range(nopen, 2 * nopen)), axes)) if nopen else gate * v_before
    # outputs come first now: move them back to the places of the physical legs
    ref = np.moveaxis(ref, list(range(nopen)), axes) if nopen else ref
    # correspondence of the model's binding and output placement: evaluate what the model says
    try:
        in_axes: Dict[int, int] = {}
        for pair in _lst(model["bind"][0]):
            lab, _, inp = pair.partition("~")
            nd_s, _, j = lab[1:].partition(".")
            in_axes[int(inp[1:])] = labels_before.index(("o", "", names[back[int(nd_s)]], int(j)))
        out_axes: Dict[int, int] = {}
        for tag, nd in (("n1", n1), ("n2", n2)):
            outs = [lb for lb in _lst(model[tag][2]) if lb[0] == "g"]
            for j, lb in enumerate(outs):
                out_axes[int(lb[1:])] = labels_before.index(("o", "", names[nd], j))
        if sorted(in_axes) != list(range(nopen)) or sorted(out_axes) != list(range(nopen)):
            raise ValueError("binding does not cover the gate legs")
        mref = np.tensordot(gate, v_before, axes=(list(range(nopen, 2 * nopen)),
                                                  [in_axes[k] for k in range(nopen)])) if nopen else gate * v_before
        mref = np.moveaxis(mref, list(range(nopen)), [out_axes[k] for k in range(nopen)]) if nopen else mref
        if not np.linalg.norm(mref - v_after) <= TOL * max(1.0, np.linalg.norm(mref)):
            ctx.corr_fail(case, f"the model's binding {model['bind'][0]} / output placement does not reproduce the "
                                f"implementation's tensor (|diff| = {np.linalg.norm(mref - v_after):.3g})")
    except (ValueError, KeyError, IndexError) as ex:
        ctx.corr_fail(case, f"model binding unreadable: {model.get('bind')} ({ex})")
    err = np.linalg.norm(ref - v_after)
    if not err <= TOL * max(1.0, np.linalg.norm(ref)):
        bind = model.get("bind", ["?"])[0]
        ctx.oracle_fail(case, f"contract/absorb/split on ({id1},{id2}) [{case['orient']}-first]: result differs from the gate "
                              f"applied to the physical legs in named order, |diff| = {err:.3g}; model binding {bind}")


# ===================================================================== swap cases

def _case_swap(ctx, case, model_out: Optional[str] = None):
    from pytreenet.operators.common_operators import swap_gate
    d = case["d"]
    if model_out is None:
        model_out = ctx.lean.batch([f"C08 swap {d}"])[0]
    ctx.count(("swap", d, bool(case.get("default"))), nontrivial=d >= 2, corr=True)
    ctx.tally("swap_d", "default argument" if case.get("default") else d)
    try:
        mat = swap_gate() if case.get("default") else swap_gate(d)
    except Exception as e:                      # noqa: BLE001
        impl = "error"
        mat = None
        if d >= 1:
            ctx.oracle_fail(case, f"swap_gate({d}) raised {type(e).__name__}: {e}")
            return
    if mat is not None:
        mat = np.asarray(mat)
        ones = np.argwhere(mat == 1)
        impl = " ".join(f"{i},{j}" for i, j in ones.tolist())
        impl = f"{mat.shape[0]};{impl}"
        # oracle: exchange of two tensor factors
        probs = []
        if mat.shape != (d * d, d * d):
            probs.append(f"shape {mat.shape}")
        else:
            if np.count_nonzero(mat) != len(ones):
                probs.append("entries other than 0 and 1")
            nprng = np.random.default_rng(d)
            x, y = gen.rand_tensor(nprng, (d,)), gen.rand_tensor(nprng, (d,))
            if not np.allclose(mat @ np.kron(x, y), np.kron(y, x)):
                probs.append("SWAP (x (x) y) != y (x) x")
            if not np.array_equal(mat @ mat, np.eye(d * d)):
                probs.append("SWAP is not an involution")
        if probs:
            ctx.oracle_fail(case, f"swap_gate({d}): " + "; ".join(probs))
    if impl != model_out:
        ctx.corr_fail(case, f"swap_gate({d}): implementation {impl[:120]!r}, model {model_out[:120]!r}")


# ===================================================================== driver

# ===================================================================== value cases (Lean model evaluates its own record)
#
# Theorems `two_site_gate_value`, `single_site_gate_value`, `tebd_step_value` (lean/Ptn/C08/Props.lean) say that the flat
# network "old node tensors + gate tensors" over the model's binding record evaluates to the ordered product of the gates
# applied to the old state.  Here that evaluation is done BY THE LEAN MODEL (`netValue`, line `C04 einrec …`) on the
# library's integer node tensors and integer gate tensors, and compared with the dense vector of the state after the gates
# went through the library's own gate-application path (`TEBD._apply_one_trotter_step`, truncation disabled).

VALUE_SIZE_LIMIT = 30000


def gen_value_case(rng: random.Random) -> Dict[str, Any]:
    n = rng.choice([1, 2, 2, 3, 3, 4])
    par = gen.random_parent_array(rng, n)
    pool = rng.choice([(2, 3), (2, 2, 3), (2,), (2, 1, 3), (3, 2)])
    phys = [rng.choice(pool) for _ in range(n)]
    bond = [0] + [rng.choice([1, 2, 2, 3]) for _ in range(1, n)]
    pairs = [(i, par[i]) for i in range(1, n)]
    ops = []
    for _ in range(rng.randint(1, 4)):
        if pairs and rng.random() < 0.7:
            a, b = rng.choice(pairs)                       # a is the child
            sites = [a, b] if rng.random() < 0.5 else [b, a]
            swap = phys[a] == phys[b] and rng.random() < 0.3
        else:
            sites, swap = [rng.randrange(n)], False
        ops.append({"sites": sites, "gseed": rng.randrange(10 ** 9), "swap": swap})
    case = {"kind": "value", "par": par, "phys": phys, "bond": bond, "tseed": rng.randrange(10 ** 9), "ops": ops,
            "steps": rng.choice([1, 1, 2])}
    # keep the big sum of the model small: bonds x gate inputs x open legs
    while _value_size(case) > VALUE_SIZE_LIMIT and (case["steps"] > 1 or len(case["ops"]) > 1):
        if case["steps"] > 1:
            case["steps"] -= 1
        else:
            case["ops"].pop()
    return case


def _value_size(case) -> int:
    size = 1
    for d in case["phys"]:
        size *= d
    for b in case["bond"][1:]:
        size *= b
    for _ in range(case["steps"]):
        for op in case["ops"]:
            for s_ in op["sites"]:
                size *= case["phys"][s_]
    return size


def build_value(case):
    """(ttns, names, gates): integer state, integer gate tensors (shape outputs + inputs) with their site names."""
    from pytreenet.ttns.ttns import TreeTensorNetworkState
    from pytreenet.operators.common_operators import swap_gate
    from harness.props.c04 import _convert
    par, phys = case["par"], case["phys"]
    n = len(par)
    names = {i: gen.node_name(i) for i in range(n)}
    rng = random.Random(case["tseed"])
    nprng = np.random.default_rng(case["tseed"])
    bond = {(par[i], i): case["bond"][i] for i in range(1, n)}
    open_dims = {i: [phys[i]] for i in range(n)}
    ttns, _c, _a, _ = gen.build_network(TreeTensorNetworkState, par, bond, open_dims, rng, nprng, names=names,
                                        complex_=False, small_int=True)
    _convert(ttns, "int")
    gates = []
    for op in case["ops"]:
        ds = [phys[s_] for s_ in op["sites"]]
        if op["swap"]:
            g = np.rint(np.asarray(swap_gate(ds[0])).real).astype(np.int64).reshape(ds + ds)
        else:
            g = np.random.default_rng(op["gseed"]).integers(-2, 3, size=tuple(ds + ds)).astype(np.int64)
        gates.append(([names[s_] for s_ in op["sites"]], g))
    return ttns, names, gates


def value_model_lines(case) -> List[str]:
    ttns, names, gates = build_value(case)
    num = {names[i]: i for i in names}
    ops = ["-".join(str(num[x]) for x in sites) for sites, _g in gates]
    return ["C08 steprec " + " ".join(_tree_tokens(ttns, num)) + " / " + " ".join(ops * case["steps"])]


def value_einrec_line(case, record_out: str, ttns, names, gates) -> Optional[str]:
    """The flat network of `tebd_step_value`: old node tensors + one tensor per gate, over the old bonds and the model's
    record; free legs: the final physical leg of every site in sorted identifier order."""
    from harness import einsum_corr
    if " | " not in record_out:
        return None
    record = record_out.split(" | ")[0]
    num = {names[i]: i for i in names}
    label: Dict[str, int] = {}
    dims: List[int] = []

    def lab(name, d):
        if name not in label:
            label[name] = len(dims)
            dims.append(int(d))
        return label[name]

    leaves, pairs = [], []
    for nid in sorted(ttns.nodes):
        node = ttns.nodes[nid]
        t = np.asarray(ttns.tensors[nid])
        legs = []
        ax = 0
        if node.parent is not None:
            legs.append(lab(f"e{num[nid]}>{num[node.parent]}", t.shape[ax]))
            ax += 1
        for c in node.children:
            legs.append(lab(f"e{num[nid]}>{num[c]}", t.shape[ax]))
            ax += 1
        legs.append(lab(f"s{num[nid]}", t.shape[ax]))
        leaves.append((legs, t))
        if node.parent is not None:
            pairs.append((f"e{num[node.parent]}>{num[nid]}", f"e{num[nid]}>{num[node.parent]}"))
    cur = {num[nid]: f"s{num[nid]}" for nid in ttns.nodes}
    by_gate: Dict[int, Dict[int, str]] = {}
    for tok in record.split():
        g, k, leg = tok.split(":")
        by_gate.setdefault(int(g), {})[int(k)] = leg
    for g in range(len(gates) * case["steps"]):
        sites, gt = gates[g % len(gates)]
        ins = by_gate.get(g, {})
        if sorted(ins) != list(range(len(sites))):
            return None
        k = len(sites)
        legs = [lab(f"o{g}.{j}", gt.shape[j]) for j in range(k)] + [lab(f"i{g}.{j}", gt.shape[k + j]) for j in range(k)]
        leaves.append((legs, gt))
        for j in range(k):
            if ins[j] not in label:
                return None
            pairs.append((ins[j], f"i{g}.{j}"))
            cur[num[sites[j]]] = f"o{g}.{j}"
    free = [label[cur[num[nid]]] for nid in sorted(ttns.nodes)]
    return einsum_corr.einrec_line(dims, free, [(label[a], label[b]) for a, b in pairs], leaves)


def _case_value(ctx, case, model_out: Optional[List[str]] = None):
    from harness import einsum_corr
    from pytreenet.util.tensor_splitting import SVDParameters
    from pytreenet.time_evolution.tebd import TEBD
    from pytreenet.time_evolution.trotter import TrotterSplitting
    from pytreenet.operators.operator import NumericOperator
    try:
        ttns, names, gates = build_value(case)
    except Exception as e:                      # noqa: BLE001
        ctx.oracle_fail(case, f"value: construction raised {type(e).__name__}: {str(e)[:200]}")
        return
    order = sorted(ttns.nodes)
    dims = dense.phys_dims(ttns, order)
    two = [sites for sites, _g in gates if len(sites) == 2]
    child_first = any(ttns.nodes[s_[0]].parent == s_[1] for s_ in two)
    ctx.count(("value", json.dumps(case, sort_keys=True)), nontrivial=bool(two), corr=True)
    ctx.tally("value_nodes", len(order))
    ctx.tally("value_features", "+".join(k for k, v in (("two", bool(two)), ("childfirst", child_first),
                                                        ("swap", any(o["swap"] for o in case["ops"])),
                                                        ("mixed", len(set(dims)) > 1),
                                                        ("steps>1", case["steps"] > 1)) if v) or "single-site only")
    ctx.sample(case, 2)
    if model_out is None or len(model_out) < 2:
        rec = ctx.lean.batch(value_model_lines(case))[0]
        line = value_einrec_line(case, rec, ttns, names, gates)
        model_out = [rec, ctx.lean.batch([line])[0] if line else "no-record"]
    rec, ans = model_out[0], model_out[1]
    tab = einsum_corr.parse_table(ans, "full")
    if tab is None:
        ctx.corr_fail(case, f"value: the model has no value for its own binding record: record [{rec[:120]}] "
                            f"einrec [{ans[:80]}]")
        return
    v0 = np.array(dense.ttns_vector(ttns, order))
    struct0 = dense.structure(ttns)
    # independent dense reference: ordered product of the embedded gates
    ref = v0.astype(complex)
    for _ in range(case["steps"]):
        for sites, gt in gates:
            dd = int(np.prod(gt.shape[:len(sites)]))
            ref = embed(order, dims, sites, gt.reshape(dd, dd).astype(complex)) @ ref
    with warnings.catch_warnings():
        warnings.simplefilter("ignore")
        try:
            algo = TEBD(ttns, TrotterSplitting(), 0.1, 0.1, [], svd_parameters=SVDParameters(**NOTRUNC))
            for _ in range(case["steps"]):
                for sites, gt in gates:
                    algo._apply_one_trotter_step(NumericOperator(gt, list(sites)))
            state = algo.state
            got = np.array(dense.ttns_vector(state, order))
        except Exception as e:                  # noqa: BLE001
            ctx.oracle_fail(case, f"value: applying the gates raised {type(e).__name__}: {str(e)[:200]}")
            return
    if dense.structure(state) != struct0:
        ctx.oracle_fail(case, f"value: identifiers / parent-child relations changed: {dense.structure(state)}")
        return
    want = np.array(tab, dtype=float)
    if want.shape != got.shape:
        ctx.corr_fail(case, f"value: model table has {want.shape} entries, the state vector {got.shape}")
        return
    exact = not two and np.asarray(got).dtype.kind in "iu"
    ctx.tally("value_compare", "exact (integers)" if exact else "1e-10 relative")
    scale = max(1.0, float(np.linalg.norm(want)))
    if (exact and any(int(a) != int(b) for a, b in zip(got, tab))) or \
            (not exact and np.linalg.norm(got - want) > 1e-10 * scale):
        if np.linalg.norm(ref - want) <= 1e-10 * scale:
            ctx.oracle_fail(case, f"value: state after the gates {np.round(got[:6], 6)} is not the ordered product of the "
                                  f"gates applied to the old state {want[:6]} (Lean evaluation of the record = dense reference)")
        else:
            ctx.corr_fail(case, f"value: library {np.round(got[:6], 6)} differs from the Lean model's evaluation of its "
                                f"binding record on the same integer tensors {want[:6]}")
        return
    if np.linalg.norm(ref - want) > 1e-10 * scale:
        ctx.corr_fail(case, f"value: Lean evaluation of the record {want[:6]} differs from the dense product of gates "
                            f"{np.round(ref[:6], 6)}")


def all_legs_cases(rng: random.Random) -> List[Dict[str, Any]]:
    """The whole parameter space of the legs cases (1944 layouts), one tensor seed each."""
    out = []
    for orient in ("p", "c"):
        for hp in (False, True):
            for a in range(3):
                for b in range(3):
                    for k in range(3):
                        for op_, oc in OPEN_COMBOS:
                            for distinct in (False, True):
                                out.append({"kind": "legs", "orient": orient, "hp": hp, "a": a, "b": b, "k": k,
                                            "oP": op_, "oC": oc, "distinct": distinct,
                                            "seed": rng.randrange(10 ** 9)})
    return out


def _audit_axes(case, arng):
    """Input-space audit axes of a tebd case, drawn from a separate generator stream."""
    n = len(case["par"])
    trunc = case["svd"] is not None
    if arng.random() < 0.22:
        case["dtype"] = arng.choice(["real", "real", "int", "single", "view"])
    if arng.random() < 0.15:
        case["op_dtype"] = arng.choice(["real", "int"])
    if arng.random() < 0.15:
        case["gauge"] = 1
    if not trunc and case.get("dtype") != "int" and arng.random() < 0.15:
        case["mag"] = arng.choice([8, 6, -6, -8])
        case["mag_one"] = arng.randint(0, 1)
    if arng.random() < 0.2 and n <= len(PREFIX_NAMES):
        case["names"] = "prefix"
    if arng.random() < 0.1:
        case["np_factor"] = 1
    if case["via"] == "steps" and arng.random() < 0.3:
        case["step_defaults"] = 1
    if not trunc and arng.random() < 0.12 and not case.get("mag"):
        # svd_parameters passed as None / omitted altogether (both: the documented default SVDParameters()), with or
        # without the optional config
        case["ctor"] = arng.choice(["svd_none", "svd_none+config", "svd_omitted+config", "svd_omitted"])
    if not trunc and arng.random() < 0.3:
        hist = []
        for _ in range(arng.randint(1, 4)):
            k = arng.choice(["retime", "retime", "step", "step", "reset", "setn", "run"])
            hist.append([k, arng.randint(1, 4)] if k in ("retime", "setn") else [k])
        if hist[-1][0] in ("retime", "setn"):
            hist.append(["step"])
        case["hist"] = hist


def gen_audit_forms(arng) -> List[Dict[str, Any]]:
    """Dedicated cases for the spellings the random generator cannot hit by chance: from_lists with the splitting
    omitted / bare int entries / swap lists omitted, and empty splittings."""
    out = []
    while len(out) < 1:
        c = gen_tebd_case(arng, trunc=False)
        if not c["tps"]:
            continue
        c["via"] = "from_lists_forms"
        r = arng.random()
        if r < 0.5:                         # every product once, in list order, factor 1: `splitting` omitted
            c["splitting"] = [[i, 1] for i in range(len(c["tps"]))]
            if arng.random() < 0.3:
                c["fl_explicit"] = 1
        else:                               # some entries with factor 1 -> bare ints
            c["splitting"] = [[i, (1 if arng.random() < 0.6 else f)] for i, f in c["splitting"]]
        if arng.random() < 0.5:
            for tp in c["tps"]:
                tp["before"], tp["after"] = [], []
        c.pop("plain", None)
        c.pop("none_empty", None)
        out.append(c)
    return out


def gen_empty_case(arng) -> Dict[str, Any]:
    c = gen_tebd_case(arng, trunc=False)
    c["tps"], c["splitting"], c["via"], c["empty_form"] = [], [], "empty", arng.randrange(4)
    c.pop("plain", None)
    c.pop("none_empty", None)
    return c


def gen_cases(ctx) -> List[Dict[str, Any]]:
    rng = ctx.rng
    arng = ctx.subrng("audit")
    cases: List[Dict[str, Any]] = []
    for d in range(0, ctx.n(8, 13) if ctx.scale == 1 else 16):
        cases.append({"kind": "swap", "d": d})
    if ctx.tier == "thorough" or ctx.scale > 1:
        cases.extend(all_legs_cases(rng))
        ctx.notes["legs_space_exhaustive"] = True
    else:
        for _ in range(ctx.n(1000, 0)):
            cases.append(gen_legs_case(rng))
    cases.append({"kind": "swap", "d": 2, "default": True})        # swap_gate() with its documented default
    for _ in range(ctx.n(2500, 30000)):
        cases.append(gen_tebd_case(rng, trunc=False))
        _audit_axes(cases[-1], arng)
    for _ in range(ctx.n(500, 6000)):
        cases.append(gen_tebd_case(rng, trunc=True))
        _audit_axes(cases[-1], arng)
    for _ in range(ctx.n(150, 1500)):
        c = gen_audit_forms(arng)[0]
        _audit_axes(c, arng)
        cases.append(c)
    for _ in range(ctx.n(20, 100)):
        c = gen_empty_case(arng)
        _audit_axes(c, arng)
        cases.append(c)
    vrng = ctx.subrng("value")
    for _ in range(ctx.n(120, 1500)):
        cases.append(gen_value_case(vrng))
    # probe: swap lists as plain Python lists (see _report_plain)
    probes = 0
    while probes < 3:
        c = gen_tebd_case(rng, trunc=False)
        if any(tp["before"] or tp["after"] for tp in c["tps"]):
            c["plain"] = True
            cases.append(c)
            probes += 1
    return cases


def model_lines_for(case) -> List[str]:
    if case["kind"] == "swap":
        return [f"C08 swap {case['d']}"]
    if case["kind"] == "legs":
        _ttn, info = build_legs(case)
        return [legs_model_line(case, info)]
    if case["kind"] == "value":
        return value_model_lines(case)
    ttns, names, _tr, expected = build_tebd(case)
    return tebd_model_lines(case, expected, ttns, names)


def run(ctx):
    corpus = []
    cdir = os.path.join(CORPUS_DIR, "C08")
    if os.path.isdir(cdir):
        for f in sorted(os.listdir(cdir)):
            if f.endswith(".json"):
                payload = json.load(open(os.path.join(cdir, f)))
                corpus.append(payload.get("case", payload))
    cases = corpus + gen_cases(ctx)
    lines: List[str] = []
    spans: List[Tuple[int, int]] = []
    for c in cases:
        try:
            ls = model_lines_for(c)
        except Exception:                       # noqa: BLE001   (construction problems are reported by run_case)
            ls = []
        spans.append((len(lines), len(lines) + len(ls)))
        lines.extend(ls)
    outs = ctx.lean.batch(lines)
    # second round: the value cases hand the model's record back to the model for evaluation (`C04 einrec`)
    vlines: List[str] = []
    vidx: Dict[int, int] = {}
    for k, (c, (lo, hi)) in enumerate(zip(cases, spans)):
        if c.get("kind") == "value" and hi > lo:
            try:
                line = value_einrec_line(c, outs[lo], *build_value(c))
            except Exception:                   # noqa: BLE001
                line = None
            if line:
                vidx[k] = len(vlines)
                vlines.append(line)
    vouts = ctx.lean.batch(vlines) if vlines else []
    bad = ["C08 swap", "C08 swap x", "C08 splitting 1:2", "C08 splitting a:1:", "C08 twosite q 1 2 - 2 - 1 1",
           "C08 twosite p 1 2 - 2 -", "C08 seq 0:-:1 1:0:-", "C08 seq 0:-:1 / 0+1", "C08 frobnicate",
           "C08 steprec 0:-:1 1:0:-", "C08 steprec 0:-:1 / a", "C08 expsites 5/x/n", "C08 expsites 5/n"]
    answers = ctx.lean.batch(bad)
    if any(a != "bad-op" for a in answers):
        raise HarnessError(f"model driver accepts malformed requests: {list(zip(bad, answers))}")
    for k, (c, (lo, hi)) in enumerate(zip(cases, spans)):
        if ctx.time_left() < 0:
            break
        if c.get("kind") == "value":
            run_case(ctx, c, [outs[lo], vouts[vidx[k]] if k in vidx else "no-record"] if hi > lo else None)
            continue
        run_case(ctx, c, outs[lo:hi] if hi > lo else None)


def run_case(ctx, case, model_out=None):
    kind = case.get("kind")
    if kind == "swap":
        _case_swap(ctx, case, model_out[0] if model_out else None)
    elif kind == "legs":
        _case_legs(ctx, case, model_out[0] if model_out else None)
    elif kind == "tebd":
        _case_tebd(ctx, case, model_out)
    elif kind == "value":
        _case_value(ctx, case, model_out)
    else:
        raise ValueError(f"unknown case kind {kind!r}")


def shrink(case):
    if case.get("kind") == "tebd":
        # drop a Trotter step of the splitting
        sp = case["splitting"]
        for i in range(len(sp)):
            if len(sp) > 1:
                yield dict(case, splitting=sp[:i] + sp[i + 1:])
        if case["steps"] > 1:
            yield dict(case, steps=case["steps"] - 1)
        # drop swaps
        for t, tp in enumerate(case["tps"]):
            for key in ("before", "after"):
                for j in range(len(tp[key])):
                    tps = [dict(x) for x in case["tps"]]
                    tps[t][key] = tp[key][:j] + tp[key][j + 1:]
                    yield dict(case, tps=tps)
        # remove a leaf that no operator names
        par = case["par"]
        n = len(par)
        used = set()
        for i, _f in sp:
            tp = case["tps"][i]
            used.update(tp["sites"])
            for key in ("before", "after"):
                for a, b in tp[key]:
                    used.update((a, b))
        for leaf in range(n - 1, 0, -1):
            if leaf in used or any(p == leaf for p in par):
                continue
            ren = {i: (i if i < leaf else i - 1) for i in range(n) if i != leaf}
            tps = []
            ok = True
            for tp in case["tps"]:
                if any(s == leaf for s in tp["sites"]) or any(leaf in sw for key in ("before", "after") for sw in tp[key]):
                    ok = False
                    break
                tps.append(dict(tp, sites=[ren[s] for s in tp["sites"]],
                                before=[[ren[a], ren[b]] for a, b in tp["before"]],
                                after=[[ren[a], ren[b]] for a, b in tp["after"]]))
            if not ok:
                continue
            newpar = [(-1 if par[i] < 0 else ren[par[i]]) for i in range(n) if i != leaf]
            perm = [case["perm"][i] for i in range(n) if i != leaf]
            rank = {v: r for r, v in enumerate(sorted(perm))}
            yield dict(case, par=newpar, phys=[case["phys"][i] for i in range(n) if i != leaf],
                       bond=[case["bond"][i] for i in range(n) if i != leaf], perm=[rank[v] for v in perm], tps=tps)
        if case["via"] != "steps":
            yield dict(case, via="steps")
    elif case.get("kind") == "legs":
        for key in ("a", "b", "k"):
            if case[key] > 0:
                yield dict(case, **{key: case[key] - 1})
        if case["hp"]:
            yield dict(case, hp=False)
