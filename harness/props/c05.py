"""C05 — every TDVP local update uses E^dagger H E and the right duration.

Stage B: the sequence of local-propagator calls (kind, position, signed duration) of one time step is
compared exactly with the Lean model Ptn.C05 (first / second / twoSite schedules on the segments of the
update path).  Stage C: at every observed call the embedding E of the local tensor is built densely from
all other tensors of `algo.state` at that instant and E^H H E is compared with the matrix handed to
`time_evolve`; per step the signed durations are summed per node and per edge.
"""
from __future__ import annotations

import random

import numpy as np

from harness import gen, dense, algos
from harness.common import HarnessError

RULE = ("cases: random rooted trees with 2..6 nodes (all ordered trees up to 5 nodes in the thorough tier), "
        "physical dims from {2,3}, bonds from {1,2,3} (so zero-padded/redundant bonds occur), TTNO with its own "
        "child order, Hermitian or not, 2 consecutive steps, three TDVP variants; every time_evolve call is one "
        "evaluation; plus real TTNS/TTNO pairs on random trees with 2..7 nodes whose observed event sequence of one "
        "whole time step (site / link / two-site updates, centre moves, cache rebuilds; three TDVP classes) is "
        "compared with the discipline machine; plus the input-space audit families (one-node trees, non-diagonal TTNOs "
        "with per-edge bond dimensions, caller states that are already canonical, two-site truncation switched on, default "
        "configuration / builder function / other exponential modes, real / integer / single-precision tensors, state and "
        "Hamiltonian magnitudes 1e-8..1e8, physical dimension 1, identifiers that are prefixes of each other, read-only "
        "tensors, setter / reset histories); plus 'heffval' cases: the effective-Hamiltonian functions on hand-built nodes "
        "(0..4 neighbours, every neighbour order, both link orientations, two-site arrangements) with INTEGER tensors, the "
        "library's matrix against the Lean model's own evaluation of the proved record (exact); plus 'treeval' cases: "
        "every site (root, child of the root, deeper) of every ordered tree with 2..4 nodes, integer TTNS / TTNO, the "
        "library's single-site effective Hamiltonian built with its own SandwichCache toward the site against the Lean "
        "model's evaluation of the projected-Hamiltonian specification record (exact), and the same for EVERY edge "
        "(link Hamiltonian, both sweep orientations, cache as the sweep leaves it) and EVERY adjacent pair (two-site "
        "Hamiltonian, both orders of target / next, state after the library's own contract_nodes); "
        "non-trivial = distinct (tree shape, variant, seed) with at least 3 nodes or a redundant bond")
PARTIAL = ["the local propagator itself (time_evolve) is property C20",
           "durations: proved for arbitrary segment lists (first_*/second_*/twoSite_* totals) and, with the C17 segment "
           "theorems (segs_edges_perm, segs_point_to_last, segs_degree), unconditionally for every well-formed tree "
           "(first_order_tree, second_order_tree, two_site_tree: every node and every edge of the tree); the totals "
           "are re-checked here per run",
           "cache freshness: proved on an abstract machine (Ptn.C05.Disc.discipline_init, reads_fresh_first/second/"
           "two_site, discipline_invariant: no event of a whole time step reads a stale block, on every well-formed "
           "tree); init_cache_but_one is one atomic event of that machine (its internal build order is checked per run "
           "in C17); the machine is tied to the real classes by the event comparison run here on real networks "
           "(whole time step of the three TDVP classes against the model's `events` answer; observation code shared "
           "with harness/props/c17.py) and, per call, by the dense E^H H E oracle",
           "effective Hamiltonians: proved as leg graphs in the C04 leg-label calculus (Ptn.C05.Heff.site_heff_graph, "
           "link_heff_graph, two_site_heff_graph: rows / columns / bound pairs for every neighbour order), compared with "
           "the real functions by the 'heff' cases of harness/props/c04.py; VALUE level (Ptn.C05.Heff.site_heff_value, "
           "link_heff_value, two_site_heff_value and the _blocks forms, over every commutative semiring): every strongly "
           "well-formed contraction program with the proved record evaluates to sum_{operator legs} W * prod_n Blk_n; "
           "site_heff_is_projected_hamiltonian: with block records that are sandwich records of their components the "
           "record of H_eff is the record of (bra network without the site) * TTNO * (ket network without the site) and the "
           "value is sum_phys' (sum_phys E*H)*conj-E, for every site; link_heff_is_projected_hamiltonian / "
           "two_site_heff_is_projected_hamiltonian: the same for the link and the two-site Hamiltonian; the hypothesis "
           "about the block records is discharged from the tree model for EVERY site of every tree "
           "(site_heff_projected_tree with Ctx.exists_ctx: blocks of child subtrees = C04 soKidBlock, parent-direction "
           "block = the top-down contract_any recursion, Ctx.ctx_block_is_model, whose record is the sandwich record of "
           "the complement of the site's subtree, Ctx.block_record_is_component_sandwich) and likewise for EVERY edge "
           "(link_heff_projected_tree, both sweep orientations, Ctx.exists_ctx_edge) and EVERY adjacent pair, both orders "
           "of target / next (two_site_heff_projected_tree, two_site_heff_projected_tree_up); ONE program "
           "(site_heff_whole_program with Ctx.ctx_block_built, soBlock_built_free): the matrix of the single-site "
           "function is built by the model's complete tensordot sequence from the operator tensors of all nodes and the "
           "ket / bra tensors of all nodes except the site, and every such program evaluates to E^H H E; the same whole-program "
           "form for the link function (link_heff_whole_program: built from the tensors of ALL nodes, bond opened, both "
           "sweep orientations) and the two-site function (two_site_heff_whole_program, two_site_heff_whole_program_up: "
           "all operator tensors, ket / bra tensors of all nodes except the pair); E, H, B in these value clauses are ANY "
           "admissible split of the leaves; for the SINGLE-SITE function the split is no longer quantified "
           "(site_heff_eq_projected, every site of every tree: canonical envKet / envBra = seqExpr over the ket / bra "
           "tensors of all other nodes and the bonds not at the site, opAll = the C04 whole-TTNO program; SWF, leaves = "
           "wholeLeaves, records and free physical legs proved), for the link and the two-site function a canonical split "
           "is NOT instantiated (existence of a split is shown on examples only); the value-level "
           "semantics is tied to the code by the 'heffval' cases (integer tensors, the Lean model evaluates the proved "
           "record with netValue and must reproduce the library's matrix exactly) and the 'treeval' cases (every site, "
           "every edge in both orientations, every adjacent pair in both orders of every ordered tree with 2..4 nodes: "
           "library matrix with its own cache = netValue of the specification record of site_heff_projected_tree / "
           "link_heff_projected_tree / two_site_heff_projected_tree(_up), exactly); provenance (C04 `Built`): site_heff_built, "
           "link_heff_built, two_site_heff_built and the unconditional site/link/two_site_heff_loop_value - the model "
           "function's own tensordot sequence is a strongly well-formed program with the proved record and value; that "
           "the MODEL's tensordot is NumPy's is C11 + correspondence; the "
           "leg order of the contracted two-site tensor (C02) and E^H H E on whole runs are decided by the dense oracle",
           "step / reset / step histories are decided by the oracle only"]
ASSUMPTIONS = ["dense embedding built from algo.state by tensordot over labelled legs (harness/dense.py)",
               "numpy tensordot / reshape semantics"]


# Families that are switched off because the UNCHANGED /repo fails them (possible genuine defects, reported to the
# coordinator; delete an entry once /repo is repaired or the finding is recorded in known_findings.json).
PENDING_FINDINGS = {}       # builder-default-config: repaired in /repo (known_findings.json F-C06b)


class Recorder:
    """Observes time_evolve (guarded hook) and contract_nodes (wrapped from outside)."""

    def __init__(self):
        self.tol = 1e-8
        self.events = []
        self.contracts = []
        self.algo = None
        self.Hm = None
        self.order = None
        self.problems = []
        self.max_err = 0.0
        self._orig_contract = None

    def install(self):
        from pytreenet.time_evolution import time_evolution as te
        from pytreenet.core.ttn import TreeTensorNetwork
        if not hasattr(te, "_verif_register_observer"):
            raise HarnessError("hook _verif_register_observer missing in time_evolution.py")
        te._verif_register_observer(self.observe)
        if te._VERIF_OBSERVER is None:
            raise HarnessError("observer not registered (PYTREENET_VERIF != 1?)")
        rec = self
        self._orig_contract = TreeTensorNetwork.contract_nodes

        def wrapped(self_ttn, node_id1, node_id2, new_identifier=""):
            rec.contracts.append((node_id1, node_id2, new_identifier))
            return rec._orig_contract(self_ttn, node_id1, node_id2, new_identifier=new_identifier)
        TreeTensorNetwork.contract_nodes = wrapped

    def uninstall(self):
        from pytreenet.time_evolution import time_evolution as te
        from pytreenet.core.ttn import TreeTensorNetwork
        te._verif_register_observer(None)
        if self._orig_contract is not None:
            TreeTensorNetwork.contract_nodes = self._orig_contract

    # ------------------------------------------------------------
    def observe(self, psi, heff, td, forward, mode):
        algo = self.algo
        if algo is None:
            return
        state = algo.state
        target = None
        for nid in list(state.nodes.keys()):
            t = state.tensors[nid]
            if t.shape == psi.shape and np.shares_memory(t, psi):
                target = nid
                break
        if target is None:
            self.problems.append("time_evolve called with a tensor that is not a tensor of algo.state")
            return
        node = state.nodes[target]
        nopen = node.nopen_legs()
        originals = set(self.order)
        site_of = {}
        for nid, nd in state.nodes.items():
            if nid in originals:
                for k in range(nd.nopen_legs()):
                    site_of[(nid, k)] = nid
        if target in originals:
            kind, pos = "S", (target,)
        elif nopen == 0:
            nb = ([node.parent] if node.parent is not None else []) + list(node.children)
            kind, pos = "L", tuple(nb)
        else:
            two = [c for c in self.contracts if c[2] == target]
            if not two:
                self.problems.append(f"cannot attribute node {target} to a contraction")
                return
            a, b = two[-1][0], two[-1][1]
            kind, pos = "T", (a, b)
            site_of[(target, 0)] = a
            site_of[(target, 1)] = b
        signed = td * (1.0 if forward else -1.0)
        self.events.append((kind, pos, signed))
        # ---- E^H H E
        try:
            E = embedding(state, target, site_of, self.order)
        except Exception as e:        # noqa: BLE001
            self.problems.append(f"embedding of {target} could not be built: {type(e).__name__}: {e}")
            return
        want = E.conj().T @ self.Hm @ E
        heff = np.asarray(heff)
        if heff.shape != want.shape:
            self.problems.append(f"{kind}{pos}: effective Hamiltonian has shape {heff.shape}, E^H H E has {want.shape}")
            return
        # relative to the data: E is a partial isometry (all other tensors are isometries toward the local tensor),
        # so |E^H H E| <= |H|; an absolute floor would hide every error for Hamiltonians of small magnitude
        scale = max(np.linalg.norm(want), np.linalg.norm(self.Hm)) or 1.0
        err = np.linalg.norm(heff - want) / scale
        self.max_err = max(self.max_err, err)
        if err > self.tol:
            self.problems.append(f"{kind}{pos}: effective Hamiltonian differs from E^H H E (rel. err {err:.2e})")


def embedding(state, target, site_of, order):
    """E: (local tensor, flattened in its own leg order) -> full state vector over `order`."""
    items = [(state.tensors[n], dense.node_labels(state, n)) for n in state.nodes if n != target]
    lt = dense.node_labels(state, target)
    tshape = state.tensors[target].shape
    bonds = [l for l in lt if l[0] == "e"]
    opens = [l for l in lt if l[0] == "o"]
    bdims = [tshape[lt.index(l)] for l in bonds]
    pdims = [tshape[lt.index(l)] for l in opens]
    if items:
        env, el = dense.contract_labeled(items)
    else:
        env, el = np.array(1.0 + 0j), []
    others = [l for l in el if l[0] == "o"]
    perm = [el.index(l) for l in others] + [el.index(l) for l in bonds]
    assert len(perm) == len(el), "environment has an unexpected free leg"
    env = np.transpose(env, perm) if perm else env
    odims = [env.shape[i] for i in range(len(others))]
    O = int(np.prod(odims)) if odims else 1
    B = int(np.prod(bdims)) if bdims else 1
    P = int(np.prod(pdims)) if pdims else 1
    E = np.einsum("ob,pq->opbq", env.reshape(O, B), np.eye(P)).reshape(O * P, B * P)
    # reorder rows: (others' open legs, target's open legs) -> sites in `order`
    row_labels = others + opens
    sites = [site_of[(l[2], l[3])] for l in row_labels]
    if sorted(sites) != sorted(order):
        raise ValueError(f"open legs {sites} do not match sites {order}")
    rdims = odims + pdims
    Et = E.reshape(rdims + [B * P])
    permr = [sites.index(s) for s in order]
    Et = np.transpose(Et, permr + [len(rdims)])
    return Et.reshape(-1, B * P)


# ------------------------------------------------------------------ cases

def gen_cases(ctx):
    rng = ctx.rng
    cases = []
    variants = ["tdvp1", "tdvp2", "tdvp2site"]
    if ctx.tier == "thorough":
        for n in range(2, 6):
            for par in gen.all_ordered_trees(n):
                for v in variants:
                    cases.append({"variant": v, "par": par, "seed": rng.randrange(10 ** 9), "herm": True, "steps": 1})
    for par in gen.HARD_SHAPES:
        for v in variants:
            cases.append({"variant": v, "par": par, "seed": rng.randrange(10 ** 9), "herm": True, "steps": 2})
    # histories: step, reset_to_initial_state(), more steps (derived data must be rebuilt for the new state)
    for par in gen.HARD_SHAPES[:4] + [[-1, 0, 1, 2]]:
        for v in variants:
            cases.append({"variant": v, "par": par, "seed": rng.randrange(10 ** 9), "herm": rng.random() < 0.5,
                          "steps": 3, "reset_after": 1})
    # histories: the step size is changed through the public setter between two steps
    for par in gen.HARD_SHAPES[:3] + [[-1, 0], [-1, 0, 0]]:
        for v in variants:
            cases.append({"variant": v, "par": par, "seed": rng.randrange(10 ** 9), "herm": rng.random() < 0.5,
                          "steps": 2, "retime_after": rng.choice([0, 1]), "retime_n": rng.choice([2, 3, 4])})
    cases += audit_cases(ctx, variants)
    for _ in range(ctx.n(40, 200)):
        for v in variants:
            n = rng.choice([2, 3, 3, 4, 4, 5, 5, 6])
            kind = rng.choice([None, None, "spider", "twig", "bush"])
            if kind == "spider":
                n = rng.choice([5, 6, 7])
            elif kind == "twig":
                n = rng.choice([6, 7])
            elif kind == "bush":
                n = rng.choice([5, 6])
            par = gen.random_parent_array(rng, n, kind)
            cases.append({"variant": v, "par": par, "seed": rng.randrange(10 ** 9),
                          "herm": rng.random() < 0.6, "steps": 2})
    return cases


PREFIX_NAMES = ["n1", "n10", "n1_", "n", "n100", "n11", "1"]     # identifiers that are prefixes / substrings of each other
NAME_SETS = {"prefix": PREFIX_NAMES,
             # an identifier equal to the temporary link identifier of the edge a-b (see c06.PENDING_FINDINGS)
             "reserved": ["a", "link_a_with_b", "b", "a_with_b"]}


def audit_cases(ctx, variants, steps=2):
    """Input-space audit families (notes/C05.md): every case carries 'fam' and the keys `_problem` / `make_algo`
    interpret; shared with C06 / C07 (same keys)."""
    rng = ctx.subrng("audit")
    out = []

    def shape(nmax=5):
        n = rng.choice([m for m in (2, 3, 3, 4, 4, 5) if m <= nmax])
        return gen.random_parent_array(rng, n)

    def add(fam, v, par, **kw):
        out.append(dict({"variant": v, "par": par, "seed": rng.randrange(10 ** 9), "herm": rng.random() < 0.5,
                         "steps": steps, "fam": fam}, **kw))

    for v in variants:
        for _ in range(ctx.n(2, 6)):
            add("one-node", v, [-1], steps=1, phys=[rng.choice([2, 3, 5])])
        for _ in range(ctx.n(6, 30)):
            add("generic-ttno", v, rng.choice(gen.HARD_SHAPES[:3] + [shape(), shape(), shape()]), ttno="generic")
        for _ in range(ctx.n(5, 25)):
            add("pregauged", v, shape(), pregauge=rng.choice(["KEEP", "REDUCED"]),
                gauge_at=rng.choice(["start", "random", "random"]), ttno=rng.choice([None, "generic"]))
        for cfg in ["none", "builder", "chebyshev", "sparse", "builder-default"]:
            for _ in range(ctx.n(1, 4)):
                add("config", v, shape(4), cfg=cfg)
        for dtype in ["real", "int", "single", "csingle"]:
            for _ in range(ctx.n(1, 4)):
                add("dtype", v, shape(4), dtype=dtype, herm=True)
        for ss, hs in [(1e-8, 1.0), (1e8, 1.0), (1.0, 1e-6), (1.0, 1e4), (1e-8, 1e-6), (1e8, 1e4), (1e-150, 1.0)]:
            # (a non-Hermitian generator of large magnitude makes exp(-iH dt) overflow: the large one is Hermitian)
            add("magnitude", v, shape(4), sscale=ss, hscale=hs, **({"herm": True} if hs > 1 else {}))
        add("magnitude", v, shape(4), zero=True)
        for _ in range(ctx.n(3, 12)):
            add("phys1-names", v, shape(), phys=[1, 2, 1, 3], names="prefix")
        for _ in range(ctx.n(2, 8)):
            add("read-only", v, shape(4), readonly=True, ttno=rng.choice([None, "generic"]))
        for hist in [{"reset_after": 1, "retime_after": 1, "retime_n": 3}, {"setn_after": 1, "setn": 7},
                     {"retime_after": 0, "retime_n": 2, "reset_after": 2}, {"reset_after": 1, "pregauge": "KEEP",
                                                                            "gauge_at": "random"}]:
            add("history", v, shape(4), steps=3, **hist)
    for _ in range(ctx.n(10, 40)):
        svd = dict(max_bond_dim=rng.choice([1, 2, 2, 3]), rel_tol=rng.choice([float("-inf"), 1e-3, 0.2]),
                   total_tol=rng.choice([float("-inf"), 1e-3, 0.1]), renorm=rng.random() < 0.3,
                   sum_trunc=rng.random() < 0.3)
        if "tdvp2site" in variants:
            add("two-site-truncation", "tdvp2site", shape(), svd=svd, ttno=rng.choice([None, "generic"]))
    return out


def run(ctx):
    cases = gen_cases(ctx)
    rec = Recorder()
    rec.install()
    try:
        pending = []
        for c in cases:
            if ctx.time_left() < 0:
                break
            out = _run_impl(ctx, c, rec)
            if out is not None:
                pending.append((c, out))
        # model comparison in one batch
        lines = [o["model_line"] for _, o in pending]
        outs = ctx.lean.batch(lines)
        for (c, o), mo in zip(pending, outs):
            _compare_model(ctx, c, o, mo)
    finally:
        rec.uninstall()
    # tie of the cache-freshness discipline machine (Ptn.C05.Disc) to the code: the event sequence of a whole time
    # step of the three TDVP classes, observed on real networks, against the model (harness shared with C17)
    from harness.props import c17, c04
    c17.run_real_parts(ctx, ["events"], ctx.n(12, 120))
    # tie of the effective-Hamiltonian leg graphs (Ptn.C05.Heff) to the code (harness shared with C04)
    c04.run_heff(ctx)
    # value level (Ptn.C05.Heff.site_heff_value / link_heff_value / two_site_heff_value): the Lean model evaluates the
    # proved record on the library's INTEGER tensors (`netValue`) and must reproduce the library's matrix exactly
    run_heff_values(ctx)
    # `site_heff_projected_tree` for sites at every position of the tree: library matrix (own cache toward the site) =
    # the Lean model's evaluation of the projected-Hamiltonian specification record, exactly, on integer tensors
    run_site_projected(ctx)


def _int_rand_tensor(nprng, shape, complex_=True, small_int=False):
    """stand-in for gen.rand_tensor while the effective-Hamiltonian functions are run on integer tensors"""
    shape = tuple(int(s) for s in shape)
    return nprng.integers(-2, 3, size=shape).astype(float)


def _case_heff_value(ctx, case, model_out=None):
    """One `heff` case of harness/props/c04.py on integer tensors: the matrix returned by the real function against the
    Lean model's own evaluation (`C04 einrec`, i.e. `Ptn.Ein.netValue`) of the record it predicts (rows, columns, bound
    pairs) on the same tensors - exact comparison."""
    from harness.props import c04
    if model_out is None:
        model_out = ctx.lean.batch([c04.heff_line(case)])[0]
    saved = c04.gen.rand_tensor
    c04.gen.rand_tensor = _int_rand_tensor
    try:
        res = c04._run_heff_impl(case)
    finally:
        c04.gen.rand_tensor = saved
    fn = case["fn"]
    ctx.tally("heffval_fn", fn)
    ctx.tally("heffval_outcome", res[0])
    if model_out == "bad-op":
        ctx.corr_fail(case, f"model rejects {c04.heff_line(case)!r}")
        return
    if res[0] == "error" or model_out == "error":
        # exception behaviour is compared by the `heff` cases themselves
        if (res[0] == "error") != (model_out == "error"):
            ctx.corr_fail(case, f"{fn}: library outcome {res[0]} but the model answers [{model_out[:120]}]")
        return
    _, _ten, mat, operands = res
    parts = model_out.split(" | ")
    if len(parts) != 3 or not parts[2].startswith("binds"):
        ctx.corr_fail(case, f"{fn}: unparsable model answer [{model_out[:200]}]")
        return
    rows, cols = parts[0].split()[1:], parts[1].split()[1:]
    dim_of = {l: int(d) for arr, labs in operands for l, d in zip(labs, np.asarray(arr).shape)}
    try:
        want_shape = (int(np.prod([dim_of[l] for l in rows])), int(np.prod([dim_of[l] for l in cols])))
    except KeyError as e:
        ctx.corr_fail(case, f"{fn}: the model names a leg {e} that no operand has")
        return
    mat = np.asarray(mat)
    if mat.shape != want_shape:
        ctx.corr_fail(case, f"{fn}: H_eff has shape {mat.shape}, the rows / columns of the model give {want_shape}")
        return
    ctx.count(("heffval", c04.heff_line(case), case["seed"]), nontrivial=case.get("nontrivial", True), corr=True)
    c04._model_value(ctx, case, "legs " + " ".join(rows + cols) + " | " + parts[2], operands,
                     [complex(v) for v in mat.reshape(-1)])


def run_heff_values(ctx):
    from harness.props import c04
    rng = ctx.subrng("heffval")
    cases = c04.gen_heff_cases(ctx)
    rng.shuffle(cases)
    cases = cases[:ctx.n(90, 900)]
    for c in cases:
        c["via"] = "c05val"
        c["seed"] = rng.randrange(10 ** 9)
        if rng.random() < 0.7:
            c["distinct"] = False           # small dimensions incl. 1: more neighbours fit the size cap
    outs = ctx.lean.batch([c04.heff_line(c) for c in cases])
    for c, mo in zip(cases, outs):
        if ctx.time_left() < 0:
            break
        _case_heff_value(ctx, c, mo)


def _prep_tree_projected(ctx, case):
    """`site_heff_projected_tree`, `link_heff_projected_tree`, `two_site_heff_projected_tree(_up)` (Ptn/C05/
    ProjectedTreeAll.lean, ProjectedTreeLink.lean, ProjectedTreeTwo.lean) against the library, on integer tensors, for
    * kind "site": a site at ANY position of the tree - `get_effective_single_site_hamiltonian` with the library's own
      cache toward the site (`SandwichCache.init_cache_but_one`: leaf-to-root blocks for the children, the top-down
      `contract_any` recursion for the parent-direction block);
    * kind "link": EVERY edge, both sweep orientations - `OneSiteTDVP._get_effective_link_hamiltonian(node, next)` with the
      cache the sweep has at that moment: all blocks toward `node` (`init_cache_but_one(node)`) and the block
      `(node, next)` built by the library's `update_tree_cache` (what `_update_cache_after_split` stores); the link node
      is the only stand-in (parent side = the upper node, one child = the lower node);
    * kind "pair": EVERY adjacent pair, both orders of (target, next) - `TwoSiteTDVP._get_effective_two_site_hamiltonian`
      with the cache toward the target and the state after the library's own `contract_nodes(target, next)`.
    The matrix must equal, exactly, the Lean model's evaluation (`C04 einrec`, i.e. `Ptn.Ein.netValue`) of the
    SPECIFICATION record of the theorem: the physical pairs of all nodes not updated, ALL operator bonds, the ket / bra
    bonds that do not touch an updated node (site, pair) resp. all of them except the opened bond (link) - over the ket /
    bra tensors of those nodes and the whole TTNO.  Returns what `_judge_tree_projected` needs (None: case finished)."""
    import random
    import types
    from copy import deepcopy
    from harness import gen, einsum_corr
    from pytreenet.contractions.sandwich_caching import SandwichCache
    from pytreenet.contractions.effective_hamiltonians import get_effective_single_site_hamiltonian
    kind = case.get("kind", "site")
    par = list(case["par"])
    n = len(par)
    rng = random.Random(case["seed"])
    nprng = np.random.default_rng(case["seed"])
    saved = gen.rand_tensor
    gen.rand_tensor = _int_rand_tensor          # dense integer entries -2..2
    try:
        ttns, si = gen.random_ttns(rng, nprng, par, phys=(2, 2, 1), bonds=(1, 2, 2), complex_=False)
        phys = {i: si["open"][i][0] for i in range(n)}
        ttno, oi = gen.random_ttno_like(rng, nprng, par, phys, bonds=(1, 2, 2), complex_=False)
    finally:
        gen.rand_tensor = saved
    names = si["names"]

    def depth_of(j):
        d = 0
        while par[j] >= 0:
            d, j = d + 1, par[j]
        return d

    if kind == "site":
        site = case["site"]
        sname = names[site]
        depth = depth_of(site)
        what = f"H_eff of site {sname} (depth {depth})"
        drop, open_edge = {sname}, None
    else:
        c = case["edge"]
        pn, cn = names[par[c]], names[c]
        first, second = (pn, cn) if case["dir"] == 0 else (cn, pn)
        depth = depth_of(c)
        if kind == "link":
            what = f"H_link of the edge {pn} - {cn} (node {first}, next {second}; lower node at depth {depth})"
            drop, open_edge = set(), (pn, cn)
        else:
            what = f"two-site H_eff of the pair target {first}, next {second} (lower node at depth {depth})"
            drop, open_edge = {pn, cn}, None
    ctx.tally("treeval_kind", kind if kind == "site" else f"{kind} dir={case['dir']}")
    ctx.tally("treeval_site_depth", depth)
    ctx.tally("treeval_nodes", n)
    two_nbrs = None
    try:
        if kind == "site":
            cache = SandwichCache.init_cache_but_one(ttns, ttno, sname)
            mat = np.asarray(get_effective_single_site_hamiltonian(sname, ttns, ttno, cache))
        elif kind == "link":
            from pytreenet.time_evolution.tdvp_algorithms.onesitetdvp import OneSiteTDVP
            from pytreenet.core.node import Node
            cache = SandwichCache.init_cache_but_one(ttns, ttno, first)
            cache.update_tree_cache(first, second)
            link_id = OneSiteTDVP.create_link_id(first, second)
            ln = Node(identifier=link_id)
            ln.add_parent(pn)
            ln.add_children([cn])
            fake = types.SimpleNamespace(state=types.SimpleNamespace(nodes={link_id: ln}), partial_tree_cache=cache,
                                         create_link_id=OneSiteTDVP.create_link_id)
            mat = np.asarray(OneSiteTDVP._get_effective_link_hamiltonian(fake, first, second))
        else:
            from pytreenet.time_evolution.tdvp_algorithms.twositetdvp import TwoSiteTDVP
            cache = SandwichCache.init_cache_but_one(ttns, ttno, first)
            st = deepcopy(ttns)
            two_id = TwoSiteTDVP.create_two_site_id(first, second)
            st.contract_nodes(first, second, new_identifier=two_id)
            two_nbrs = list(st.nodes[two_id].neighbouring_nodes())
            fake = types.SimpleNamespace(hamiltonian=ttno, partial_tree_cache=cache, state=st,
                                         create_two_site_id=TwoSiteTDVP.create_two_site_id)
            for name in ("_find_block_leg_target_node", "_find_block_leg_next_node",
                         "_determine_two_site_leg_permutation", "_contract_all_except_two_nodes"):
                setattr(fake, name, types.MethodType(getattr(TwoSiteTDVP, name), fake))
            mat = np.asarray(TwoSiteTDVP._get_effective_two_site_hamiltonian(fake, first, second))
    except Exception as e:      # noqa: BLE001
        ctx.oracle_fail(case, f"treeval: {what} raised {type(e).__name__}: {str(e)[:120]}")
        return None
    num, dims, leaves = {}, [], []

    def lab(key, d):
        if key not in num:
            num[key] = len(dims)
            dims.append(int(d))
        elif dims[num[key]] != int(d):
            raise ValueError(f"leg {key} seen with dimensions {dims[num[key]]} and {d}")
        return num[key]

    pairs = []
    try:
        for a in names.values():
            knode, kt = ttns[a]
            onode, ot = ttno[a]
            kt, ot = np.asarray(kt), np.asarray(ot)
            knb, onb = list(knode.neighbouring_nodes()), list(onode.neighbouring_nodes())
            ol = [lab(("o", a, b), d) for b, d in zip(onb, ot.shape)] + \
                 [lab(("oo", a), ot.shape[-2]), lab(("oi", a), ot.shape[-1])]
            leaves.append((ol, np.round(ot.real).astype(np.int64)))
            if a in drop:
                continue
            kl = [lab(("k", a, b), d) for b, d in zip(knb, kt.shape)] + [lab(("kp", a), kt.shape[-1])]
            bl = [lab(("b", a, b), d) for b, d in zip(knb, kt.shape)] + [lab(("bp", a), kt.shape[-1])]
            leaves.append((kl, np.round(kt.real).astype(np.int64)))
            leaves.append((bl, np.round(np.conj(kt).real).astype(np.int64)))
            pairs.append((num[("kp", a)], num[("oi", a)]))
            pairs.append((num[("oo", a)], num[("bp", a)]))
        for c, p in enumerate(par):
            if p < 0:
                continue
            a, b = names[p], names[c]
            pairs.append((num[("o", a, b)], num[("o", b, a)]))
            if a not in drop and b not in drop and (a, b) != open_edge:
                pairs.append((num[("k", a, b)], num[("k", b, a)]))
                pairs.append((num[("b", a, b)], num[("b", b, a)]))
        if kind == "site":
            snb = list(ttns.nodes[sname].neighbouring_nodes())
            rows_l = [num[("b", b, sname)] for b in snb] + [num[("oo", sname)]]
            cols_l = [num[("k", b, sname)] for b in snb] + [num[("oi", sname)]]
        elif kind == "link":
            # rows / columns of `link_heff_graph`: the link tensor's own leg order (upper side, lower side)
            rows_l = [num[("b", pn, cn)], num[("b", cn, pn)]]
            cols_l = [num[("k", pn, cn)], num[("k", cn, pn)]]
        else:
            # rows / columns of `two_site_heff_graph`: the two-site node's own neighbour order, then target, next
            t_nb = list(ttno.nodes[first].neighbouring_nodes())
            side = [(b, first if b in t_nb else second) for b in two_nbrs]
            rows_l = [num[("b", b, s)] for b, s in side] + [num[("oo", first)], num[("oo", second)]]
            cols_l = [num[("k", b, s)] for b, s in side] + [num[("oi", first)], num[("oi", second)]]
        free = rows_l + cols_l
    except (KeyError, ValueError) as e:
        ctx.oracle_fail(case, f"treeval: the library's tensors do not fit the tree ({type(e).__name__}: {e})")
        return None
    for x, y in pairs:
        if dims[x] != dims[y]:
            ctx.oracle_fail(case, f"treeval: bound legs of dimensions {dims[x]} and {dims[y]}")
            return None
    size = 1
    for x, _ in pairs:
        size *= dims[x]
    for l in free:
        size *= dims[l]
    if size > 140000:
        ctx.tally("treeval", "skipped (too large)")
        return None
    rows = int(np.prod([dims[l] for l in rows_l]))
    if mat.shape != (rows, rows):
        ctx.oracle_fail(case, f"treeval: {what} has shape {mat.shape}, the updated tensor has {rows} entries")
        return None
    return {"line": einsum_corr.einrec_line(dims, free, pairs, leaves), "mat": mat, "what": what, "depth": depth,
            "kind": kind, "n": n}


def _judge_tree_projected(ctx, case, prep, ans):
    from harness import einsum_corr
    tab = einsum_corr.parse_table(ans, "full")
    depth, kind, n = prep["depth"], prep["kind"], prep["n"]
    if kind == "site":
        ctx.tally("treeval", "root site" if depth == 0 else ("child of the root" if depth == 1 else "deeper site"))
        ctx.count(("treeval", tuple(case["par"]), case["site"], case["seed"]), nontrivial=depth >= 1 and n >= 3,
                  corr=True)
    else:
        ctx.tally("treeval", f"{kind}, lower node " + ("child of the root" if depth == 1 else "deeper"))
        ctx.count(("treeval", kind, tuple(case["par"]), case["edge"], case["dir"], case["seed"]), nontrivial=n >= 3,
                  corr=True)
    if tab is None:
        ctx.corr_fail(case, f"treeval: the value-level model rejects the specification record: [{ans[:120]}]")
        return
    got = [complex(v) for v in prep["mat"].reshape(-1)]
    if len(tab) != len(got) or any(complex(t) != g for t, g in zip(tab, got)):
        ctx.oracle_fail(case, f"treeval: {prep['what']} {got[:6]} differs from the Lean model's "
                              f"evaluation of the projected-Hamiltonian record on the same integer tensors {tab[:6]}")


def _case_site_projected(ctx, case):
    prep = _prep_tree_projected(ctx, case)
    if prep is not None:
        _judge_tree_projected(ctx, case, prep, ctx.lean.batch([prep["line"]])[0])


def run_site_projected(ctx):
    from harness import gen
    rng = ctx.subrng("treeval")
    rng2 = ctx.subrng("treeval-link-pair")
    shapes = [p for k in (2, 3, 4) for p in gen.all_ordered_trees(k)]
    cases = [{"via": "c05tree", "par": list(p), "site": s} for p in shapes for s in range(len(p))]
    # every edge (= every adjacent pair) of every tree, both orientations, link and two-site
    cases2 = [{"via": "c05tree", "kind": k, "par": list(p), "edge": c, "dir": d}
              for p in shapes for c in range(len(p)) if p[c] >= 0 for d in (0, 1) for k in ("link", "pair")]
    reps = ctx.n(2, 20)
    for _ in range(reps):
        if ctx.time_left() < 0:
            return
        todo = []
        for c in cases:
            c = dict(c)
            c["seed"] = rng.randrange(10 ** 9)
            todo.append(c)
        for c in cases2:
            c = dict(c)
            c["seed"] = rng2.randrange(10 ** 9)
            todo.append(c)
        preps = [(c, _prep_tree_projected(ctx, c)) for c in todo]
        preps = [(c, pr) for c, pr in preps if pr is not None]
        outs = ctx.lean.batch([pr["line"] for _, pr in preps]) if preps else []
        for (c, pr), ans in zip(preps, outs):
            _judge_tree_projected(ctx, c, pr, ans)


def run_case(ctx, case):
    if case.get("via") == "c05val":
        case = dict(case)
        for k in ("state", "ham", "link", "hamt", "hamx", "two"):
            if k in case:
                case[k] = (case[k][0], list(case[k][1]))
        return _case_heff_value(ctx, case)
    if case.get("via") == "c05tree":
        return _case_site_projected(ctx, case)
    if case.get("via") == "c17":
        from harness.props import c17
        return c17.run_case(ctx, case)
    if case.get("via") == "c04":
        from harness.props import c04
        return c04.run_case(ctx, case)
    rec = Recorder()
    rec.install()
    try:
        o = _run_impl(ctx, case, rec)
        if o is not None:
            mo = ctx.lean.batch([o["model_line"]])[0]
            _compare_model(ctx, case, o, mo)
    finally:
        rec.uninstall()


NO_TRUNC = dict(max_bond_dim=float("inf"), rel_tol=float("-inf"), total_tol=float("-inf"))
AUDIT_KEYS = ("fam", "names", "phys", "ttno", "dtype", "sscale", "hscale", "pregauge", "readonly", "svd", "cfg",
              "setn_after", "zero")


def generic_ttno(rng, nprng, par, phys, names, hermitian, real=False, scale=1.0):
    """A TTNO whose tensors are NOT diagonal in the bond indices and whose bond dimension differs from edge to edge:
    a generic TTNO A (random dense tensors), or for hermitian=True the direct sum A + A^dagger (bond 2*b per edge,
    block-diagonal over the two summands).  Its own child order.  Returns (ttno, dense matrix over sorted names), the
    matrix being read off the tensors by the independent dense contraction."""
    from pytreenet.ttno.ttno_class import TreeTensorNetworkOperator
    n = len(par)
    b = {(p, i): rng.choice((1, 2, 3)) for i, p in enumerate(par) if p >= 0}
    order = gen.insertion_order(rng, par)
    attach = {i: [] for i in range(n)}
    for x in order:
        if par[x] >= 0:
            attach[par[x]].append(x)
    tensors = {}
    for i in range(n):
        vd = ([b[(par[i], i)]] if par[i] >= 0 else []) + [b[(i, c)] for c in attach[i]]
        d = phys[i]
        A = gen.rand_tensor(nprng, vd + [d, d], complex_=not real)
        if not hermitian:
            tensors[i] = A
            continue
        Ad = np.conj(np.swapaxes(A, -1, -2))
        if not vd:
            tensors[i] = A + Ad
            continue
        T = np.zeros([2 * x for x in vd] + [d, d], dtype=A.dtype)
        T[tuple(slice(0, x) for x in vd)] = A
        T[tuple(slice(x, 2 * x) for x in vd)] = Ad
        tensors[i] = T
    bond = {e: (2 if hermitian else 1) * v for e, v in b.items()}
    open_dims = {i: [phys[i], phys[i]] for i in range(n)}
    ttno, *_ = gen.build_network(TreeTensorNetworkOperator, par, bond, open_dims, rng, nprng, names=names,
                                 order=order, tensors=tensors)
    Hm = dense.ttno_matrix(ttno, sorted(names.values())).astype(complex)
    # root-mean-square eigenvalue scale*1.5 (spectral norm of a few units): products of random dense tensors have norms of
    # several hundred, which would turn the conservation / reversibility clauses of C06-C09 into statements about
    # ill-conditioned local flows
    nrm = np.linalg.norm(Hm) / np.sqrt(Hm.shape[0])
    if nrm > 0:
        f = 1.5 * scale / nrm
        ttno.replace_tensor(ttno.root_id, ttno.tensors[ttno.root_id] * f)
        Hm = Hm * f
    return ttno, Hm


def _cast(x, dtype):
    if dtype == "int":
        return np.round(3 * np.real(x)).astype(np.int64)
    if dtype == "single":
        return np.real(x).astype(np.float32)
    if dtype == "csingle":
        return x.astype(np.complex64)
    return x


def specialise(case, rng, ttns, H, Hm):
    """Applies the audit keys that act on an already built (state, Hamiltonian) pair. Returns the dense Hamiltonian
    matching the (possibly cast) TTNO and the tolerance factor of the element type."""
    order = sorted(ttns.nodes)
    dtype = case.get("dtype")
    if dtype in ("int", "single", "csingle"):
        for net in (ttns, H):
            for nid in list(net.nodes):
                net.replace_tensor(nid, _cast(net.tensors[nid], dtype))
        Hm = dense.ttno_matrix(H, order).astype(complex)
    if case.get("sscale") or case.get("zero"):
        # one tensor multiplied by the factor; zero=True: an all-zero tensor (the zero state; every relative tolerance
        # then demands exactly zero, which linear algebra on exact zeros delivers)
        nid = order[case["seed"] % len(order)]
        ttns.replace_tensor(nid, ttns.tensors[nid] * (0.0 if case.get("zero") else case["sscale"]))
    if case.get("pregauge") and case.get("gauge_at"):
        from pytreenet.util.tensor_splitting import SplitMode
        from pytreenet.time_evolution.time_evo_util.update_path import TDVPUpdatePathFinder
        centre = {"start": lambda: TDVPUpdatePathFinder(ttns).find_path()[0],
                  "root": lambda: ttns.root_id,
                  "nonroot": lambda: rng.choice([x for x in order if x != ttns.root_id] or order)
                  }.get(case["gauge_at"], lambda: rng.choice(order))()
        ttns.canonical_form(centre, mode=getattr(SplitMode, case["pregauge"]))
    if case.get("readonly"):
        for net in (ttns, H):
            for nid in list(net.nodes):
                x = np.array(net.tensors[nid])
                x.setflags(write=False)
                net.replace_tensor(nid, x)
    return Hm, (5e3 if dtype in ("single", "csingle") else 1.0)


def _problem(case):
    rng = random.Random(case["seed"])
    nprng = np.random.default_rng(case["seed"])
    par = case["par"]
    n = len(par)
    real = case.get("dtype") in ("real", "int", "single")
    realH = case.get("dtype") in ("int", "single")      # dtype "real": real state, complex Hamiltonian
    kw = {}
    if case.get("names"):
        kw["names"] = {i: NAME_SETS[case["names"]][i] for i in range(n)}
    if real:
        kw["complex_"] = False
    phys_choices = tuple(case["phys"]) if case.get("phys") else ((2, 2, 3) if n <= 5 else (2,))
    ttns, info = gen.random_ttns(rng, nprng, par, phys=phys_choices, bonds=(1, 2, 2, 3), **kw)
    names = info["names"]
    phys = {i: info["open"][i][0] for i in range(n)}
    hs = case.get("hscale") or 1.0
    if case.get("ttno") == "generic":
        H, Hm = generic_ttno(rng, nprng, par, phys, names, case["herm"], real=realH, scale=hs)
    else:
        terms = []
        for _ in range(rng.randint(1, 3)):
            sites = rng.sample(range(n), rng.randint(1, min(2, n)))
            terms.append({s: (gen.rand_hermitian(nprng, phys[s]) if case["herm"]
                              else gen.rand_tensor(nprng, (phys[s], phys[s]))) for s in sites})
        if realH or hs != 1.0:
            for t in terms:
                k0 = next(iter(t))
                for k in t:
                    t[k] = (np.real(t[k]) if realH else t[k]) * (hs if k == k0 else 1.0)
        H, Hm = algos.ttno_from_terms(par, phys, names, terms, rng, nprng)
        if realH:
            for nid in list(H.nodes):
                H.replace_tensor(nid, np.real(H.tensors[nid]))
    Hm, tolf = specialise(case, rng, ttns, H, Hm)
    info["tolf"] = tolf
    return rng, nprng, ttns, info, H, Hm


def make_algo(case, variant, ttns, H, dt, T):
    """The algorithm object through the entry point / configuration the case asks for (default: explicit EXPM config,
    truncation disabled).  Returns None for a family that is switched off in PENDING_FINDINGS."""
    cfg, svd = case.get("cfg"), case.get("svd")
    if cfg is None and svd != "default":
        return algos.make_algo(variant, ttns, H, dt, T, [], svd=dict(svd) if svd else None)
    from pytreenet.time_evolution.time_evolution import TimeEvoMode
    from pytreenet.time_evolution.tdvp_algorithms.tdvp_algorithm import TDVPConfig
    from pytreenet.util.tensor_splitting import SVDParameters
    # svd == "default": the documented default of the optional truncation argument (None -> SVDParameters())
    svdp = None if svd == "default" else SVDParameters(**(dict(svd) if svd else NO_TRUNC))
    cfg = cfg or "expm"
    if cfg in ("builder", "builder-default"):
        if cfg == "builder-default" and "builder-default-config" in PENDING_FINDINGS:
            return None
        from pytreenet.time_evolution.tdvp import tdvp, TDVPConfig as BuilderConfig
        order, sites = {"tdvp1": (1, 1), "tdvp2": (2, 1), "tdvp2site": (2, 2)}[variant]
        if cfg == "builder":
            bc = BuilderConfig(order=order, sites=sites, svd_params=svdp,
                               time_evo_config=TDVPConfig(time_evo_mode=TimeEvoMode.EXPM))
        else:
            bc = BuilderConfig(order=order, sites=sites, svd_params=svdp)
        return tdvp(ttns, H, dt, T, [], bc)
    config = None if cfg == "none" else TDVPConfig(time_evo_mode={"chebyshev": TimeEvoMode.CHEBYSHEV,
                                                                  "sparse": TimeEvoMode.SPARSE,
                                                                  "fastest": TimeEvoMode.FASTEST,
                                                                  "expm": TimeEvoMode.EXPM}[cfg])
    cls = algos.tdvp_classes()[variant]
    if variant == "tdvp2site":
        return cls(ttns, H, dt, T, [], svdp, config=config)
    return cls(ttns, H, dt, T, [], config=config)


def _run_impl(ctx, case, rec):
    rng, nprng, ttns, info, H, Hm = _problem(case)
    names = info["names"]
    n = len(case["par"])
    order = sorted(ttns.nodes)
    variant = case["variant"]
    dt = 0.01
    redundant = any(_redundant(ttns, nid) for nid in ttns.nodes)
    special = any(case.get(k) for k in AUDIT_KEYS)
    ctx.tally("variant", variant)
    ctx.tally("nodes", n)
    ctx.tally("hermitian", case["herm"])
    ctx.tally("redundant_bond", redundant)
    ctx.tally("audit_family", case.get("fam", "-"))
    for k in ("ttno", "cfg", "dtype", "pregauge"):
        if case.get(k):
            ctx.tally("audit_" + k, case[k])
    if case.get("sscale") or case.get("hscale") or case.get("zero"):
        ctx.tally("audit_magnitude", f"state {0.0 if case.get('zero') else case.get('sscale') or 1.0:g} "
                                     f"H {case.get('hscale') or 1.0:g}")
    ctx.sample(case, 3)
    try:
        algo = make_algo(case, variant, ttns, H, dt, dt)
    except Exception as e:          # noqa: BLE001
        ctx.oracle_fail(case, f"{variant}: construction raised {type(e).__name__}: {str(e)[:200]}")
        return None
    if algo is None:
        ctx.tally("pending_finding_skipped", case.get("cfg"))
        return None
    rec.tol = 1e-8 * info["tolf"]
    rec.max_err = 0.0
    inv = {v: k for k, v in names.items()}
    adj = {nid: ([nd.parent] if nd.parent is not None else []) + list(nd.children)
           for nid, nd in ttns.nodes.items()}
    up = list(algo.update_path)
    segs = []
    for i in range(len(up) - 1):
        path = dense.path_between(ttns, up[i], up[i + 1])
        segs.append((up[i], path[1]))
    model_line = (f"C05 trace {'first' if variant == 'tdvp1' else 'second' if variant == 'tdvp2' else 'twosite'} "
                  f"{inv[up[-1]]} " + " ".join(f"{inv[a]}:{inv[b]}" for a, b in segs)).strip()
    per_step = []
    rec.algo, rec.Hm, rec.order = algo, Hm, order
    for step in range(case["steps"]):
        rec.events, rec.problems, rec.contracts = [], [], []
        try:
            if case.get("reset_after") == step:
                rec.algo = None          # the reset itself performs no local propagation
                algo.reset_to_initial_state()
                rec.algo = algo
            if case.get("retime_after") == step:
                # the public setter changes the step size of an existing object: every later local update has to
                # use the new value (durations are stated in terms of the step size in force)
                algo.set_num_time_steps_constant_final_time(case["retime_n"])
                dt = algo.time_step_size
            if case.get("setn_after") == step:
                # changes the number of steps and the final time, NOT the step size: durations stay multiples of dt
                algo.set_num_time_steps(case["setn"])
            algo.run_one_time_step()
        except Exception as e:      # noqa: BLE001
            rec.algo = None
            if n == 1 and variant != "tdvp1":
                # the second-order schedules are undefined on a single node (the model answers `none`); the property
                # promises nothing there, the correspondence demands that model and code agree on "no step"
                ctx.count((variant, "one-node", case["seed"]), nontrivial=True)
                return {"model_line": model_line, "per_step": None, "inv": inv}
            ctx.oracle_fail(case, f"{variant}: step {step} raised {type(e).__name__}: {str(e)[:200]}")
            return None
        ctx.count((variant, tuple(case["par"]), case["seed"], step, case.get("fam")),
                  nontrivial=(n >= 3 or redundant or special))
        ctx.evaluations += max(0, len(rec.events) - 1)
        ctx.hyp_validated += len(rec.events)
        if rec.problems:
            rec.algo = None
            ctx.oracle_fail(case, f"{variant} step {step}: " + "; ".join(rec.problems[:3]))
            return None
        ev = []
        for kind, pos, signed in rec.events:
            h = signed / dt * 2.0
            if abs(h - round(h)) > 1e-9:
                ctx.oracle_fail(case, f"{variant}: duration {signed} is not a multiple of dt/2")
                rec.algo = None
                return None
            ev.append((kind, pos, int(round(h))))
        per_step.append(ev)
        # ---- oracle: totals per node / per edge
        probs = _totals_oracle(variant, ev, adj)
        if probs:
            rec.algo = None
            ctx.oracle_fail(case, f"{variant} step {step}: " + "; ".join(probs[:3]))
            return None
    rec.algo = None
    key = "max_heff_rel_err" if info["tolf"] == 1.0 else "max_heff_rel_err_single_precision"
    ctx.notes[key] = max(ctx.notes.get(key, 0.0), rec.max_err)
    return {"model_line": model_line, "per_step": per_step, "inv": inv}


def _redundant(ttns, nid):
    node = ttns.nodes[nid]
    sh = node.shape
    for k in range(node.nneighbours()):
        rest = int(np.prod(sh)) // sh[k]
        if sh[k] > rest:
            return True
    return False


def _totals_oracle(variant, ev, adj):
    probs = []
    node_tot = {v: 0 for v in adj}
    edge_tot = {}
    for v in adj:
        for w in adj[v]:
            edge_tot[frozenset((v, w))] = 0
    total = 0
    for kind, pos, h in ev:
        total += h
        if kind == "S":
            node_tot[pos[0]] += h
        else:
            e = frozenset(pos)
            if len(pos) != 2 or e not in edge_tot:
                probs.append(f"{kind} update on {pos}, which is not a tree edge")
                continue
            edge_tot[e] += h
            if (kind == "L") != (variant != "tdvp2site"):
                probs.append(f"update kind {kind} in variant {variant}")
    if total != 2:
        probs.append(f"signed durations sum to {total / 2} dt instead of dt")
    for v, t in node_tot.items():
        want = 2 if variant != "tdvp2site" else -2 * (len(adj[v]) - 1)
        if t != want:
            probs.append(f"node {v}: total duration {t / 2} dt, expected {want / 2} dt")
    for e, t in edge_tot.items():
        want = -2 if variant != "tdvp2site" else 2
        if t != want:
            probs.append(f"edge {sorted(e)}: total duration {t / 2} dt, expected {want / 2} dt")
    return probs


def _canon(ev_list):
    out = []
    for kind, pos, h in ev_list:
        if kind == "S":
            out.append(f"S:{pos[0]}:{h}")
        elif kind == "L":
            a, b = sorted(pos)
            out.append(f"L:{a}:{b}:{h}")
        else:
            out.append(f"T:{pos[0]}:{pos[1]}:{h}")
    return " ".join(out)


def _compare_model(ctx, case, o, model_out):
    inv = o["inv"]
    ctx.corr_cases += 1
    if o["per_step"] is None:
        if model_out != "none":
            ctx.corr_fail(case, f"{case['variant']}: the implementation completes no step, the model answers [{model_out}]")
        return
    # canonicalise the model's link orientation
    toks = []
    for tok in model_out.split():
        f = tok.split(":")
        if f[0] == "L":
            a, b = sorted((int(f[1]), int(f[2])))
            toks.append(f"L:{a}:{b}:{f[3]}")
        else:
            toks.append(tok)
    model = " ".join(toks)
    for step, ev in enumerate(o["per_step"]):
        impl = _canon([(k, tuple(inv[p] for p in pos), h) for k, pos, h in ev])
        if impl != model:
            ctx.corr_fail(case, f"{case['variant']} step {step}: schedule impl=[{impl}] model=[{model}]")
            return


def shrink(case):
    par = case["par"]
    n = len(par)
    if n > 2:
        # remove a leaf (highest index that is nobody's parent)
        for leaf in range(n - 1, 0, -1):
            if leaf not in par:
                newpar = [p if p < leaf else p - 1 for i, p in enumerate(par) if i != leaf]
                yield dict(case, par=newpar)
                break
    if case["steps"] > 1:
        yield dict(case, steps=1)
