"""C07 — two-site TDVP: conservation, two-node exactness and bounded bonds.

Stage B: model (Ptn.C07 / C05 two-site schedule): completion, centre at the end of a step, kept-count bound.
Stage C: oracle on algo.state: truncation disabled -> norm/energy conserved, two-node exact for any initial
bond dimension; always -> identifiers and parent/child relations kept, canonical at the recorded centre;
truncation enabled -> 1 <= every bond <= max_bond_dim.
"""
from __future__ import annotations

import random

import numpy as np

from harness import gen, dense, algos
from harness.props import c05, c06

RULE = ("cases: random rooted trees 2..6 nodes (chains/stars/spiders/uniform), random states incl. redundant bonds, "
        "Hermitian TTNOs, 2 consecutive steps, truncation grid (max_bond_dim in {1,2,3,inf} x rel_tol x total_tol x "
        "sum mode x renorm) plus truncation disabled; two-node cases with initial bond 1..4; plus the input-space audit "
        "families shared with C05/C06 (non-diagonal TTNOs, pre-gauged caller states, default configuration and default "
        "truncation argument, builder function, Chebyshev / sparse modes, real / integer / single-precision tensors, "
        "magnitudes 1e-8..1e8 with tolerances relative to the data, physical dimension 1, prefix identifiers, read-only "
        "tensors, reset / setter histories). "
        "non-trivial = distinct (shape, settings, seed) with >= 3 nodes, or a two-node exactness case")
PARTIAL = ["conservation is decided per run by the dense oracle; proved are the schedule facts (twoSite_defined_iff, "
           "twoSite_final_centre, two_node_trace, two_node_exact, Ptn.C05.twoSite_edge_total / twoSite_site_total / "
           "twoSite_sum), the kept-count bounds (kept_bounded, kept_unbounded) and the abstract flow algebra "
           "(two_half_steps_are_full_step, two_site_update_conserves_norm for an isometric embedding, Ptn.C06.runFlow_*); "
           "that the library's updates are such flows is not proved; value level: "
           "Ptn.C07.two_site_update_conserves_norm_of_canonical discharges the isometry hypothesis from canonical form "
           "(index-form isometry condition on every node outside the updated pair, Ptn.Ein.Kids.Canon); that the state "
           "held by the algorithm is in that form is validated after the last step of every case (index form on every "
           "node 1e-10, einsum environment of the centre = identity; zero-padded bonds: projector); proved on valued "
           "networks only around the node a before every two a b event (Ptn.C07.two_site_update_kids_canon_partial: "
           "Kids.Canon of the tree re-rooted at a from the per-split contracts of the run), the doubled tree around the "
           "merged pair is not assembled and truncating SVDs are outside the value-level step",
           "structure: proved on the C02 structural model under well-formedness and the label invariant "
           "(Ptn.C06.two_site_update_structure, tdvp_step_structure: root, identifiers, parents kept, the lower node "
           "becomes the first child of the upper one, every node keeps exactly its open axes for any truncated bond; "
           "*_structure_partial = the weaker statements without open legs); bond dimensions are inputs of that model "
           "(compared with the library in the comp stream of C02); bond <= max_bond_dim on the real state is oracle only",
           "SVD contract (isometries, descending non-negative spectrum) is assumed and validated on the resulting tensors"]
ASSUMPTIONS = ["eigh-based dense propagator as reference for the two-node case"]

NO_TRUNC = dict(max_bond_dim=float("inf"), rel_tol=float("-inf"), total_tol=float("-inf"))


def gen_cases(ctx):
    rng = ctx.rng
    cases = []
    for par in gen.HARD_SHAPES:
        cases.append({"kind": "notrunc", "par": par, "seed": rng.randrange(10 ** 9), "steps": 3})
        # product initial states: bonds grow during the sweep, so stale environments cannot cancel
        cases.append({"kind": "notrunc", "par": par, "seed": rng.randrange(10 ** 9), "steps": 2, "bonds": [1],
                      "rich": True})
    # histories with a reset between steps on trees whose bonds are not saturated in the first sweep (>= 5 nodes): a stale
    # environment cache after reset_to_initial_state shows as an energy jump only there (round-4 seed C07-R4A)
    hrng = ctx.subrng("reset-history")
    for par in list(gen.HARD_SHAPES) + [[-1, 0, 1, 2, 3, 4], [-1, 0, 1, 1, 2, 2]]:
        if len(par) >= 5:
            cases.append({"kind": "notrunc", "par": par, "seed": hrng.randrange(10 ** 9), "steps": 3, "reset_after": 1,
                          "fam": "reset-history"})
    for _ in range(ctx.n(40, 300)):
        kind = rng.choice([None, "spider", "chain", "star", "bush", "bush", "twig"])
        n = rng.choice([4, 5, 6]) if kind else rng.choice([2, 3, 4, 5])
        if kind == "twig":
            n = rng.choice([6, 7])
        cases.append({"kind": "notrunc", "par": gen.random_parent_array(rng, n, kind),
                      "seed": rng.randrange(10 ** 9), "steps": 3})
    for _ in range(ctx.n(50, 300)):
        kind = rng.choice([None, "spider", "chain"])
        n = rng.choice([3, 4, 5, 6]) if kind else rng.choice([2, 3, 4, 5])
        svd = dict(max_bond_dim=rng.choice([1, 2, 3, float("inf")]),
                   rel_tol=rng.choice([float("-inf"), 0.0, 1e-3, 0.3, 1.0]),
                   total_tol=rng.choice([float("-inf"), 0.0, 1e-3, 0.2, 1e3]),
                   renorm=rng.random() < 0.3, sum_trunc=rng.random() < 0.3, sum_renorm=rng.random() < 0.5)
        cases.append({"kind": "trunc", "par": gen.random_parent_array(rng, n, kind),
                      "seed": rng.randrange(10 ** 9), "steps": 2, "svd": svd})
    for _ in range(ctx.n(30, 120)):
        cases.append({"kind": "twonode", "seed": rng.randrange(10 ** 9), "bond": rng.choice([1, 2, 3, 4]),
                      "d": rng.choice([(2, 2), (2, 3), (3, 2)]), "rootfirst": rng.random() < 0.5})
    # input-space audit (notes/C07.md): the families of C05 with the C07 oracle (Hermitian Hamiltonians) ...
    arng = ctx.subrng("audit7")
    for c in c05.audit_cases(ctx, ("tdvp2site",)):
        if c["fam"] == "one-node":
            continue                    # the property speaks about trees with at least two nodes
        c.update(kind="trunc" if c.get("svd") else "notrunc", herm=True)
        cases.append(c)
    for _ in range(ctx.n(6, 30)):       # the documented default of the optional truncation argument
        n = arng.choice([2, 3, 4, 5])
        cases.append({"kind": "notrunc", "par": gen.random_parent_array(arng, n), "seed": arng.randrange(10 ** 9),
                      "steps": 2, "svd": "default", "fam": "default-truncation", "herm": True,
                      "cfg": arng.choice([None, "none"])})
    # ... and the two-node exactness clause in the same regimes
    for extra in [{"sscale": 1e-8}, {"sscale": 1e8}, {"hscale": 1e-6}, {"hscale": 1e3}, {"dtype": "real"},
                  {"dtype": "int"}, {"cfg": "none"}, {"cfg": "builder"}, {"cfg": "chebyshev"}, {"cfg": "sparse"},
                  {"steps": 3}, {"steps": 2, "reset_after": 1}, {"names": "prefix"}, {"pregauge": "KEEP"},
                  {"pregauge": "REDUCED"}, {"readonly": True}, {"ttno": "generic"}, {"retime": 2}, {"retime": 3},
                  {"svd": "default"}]:
        for _ in range(ctx.n(2, 6)):
            cases.append(dict({"kind": "twonode", "seed": arng.randrange(10 ** 9), "bond": arng.choice([1, 2, 3, 4]),
                               "d": arng.choice([(2, 2), (2, 3), (3, 2)]), "rootfirst": arng.random() < 0.5,
                               "fam": "twonode-audit"}, **extra))
    return cases


def run(ctx):
    pend = []
    for c in gen_cases(ctx):
        if ctx.time_left() < 0:
            break
        o = run_impl(ctx, c)
        if o:
            pend.append((c, o))
    outs = ctx.lean.batch([o["line"] for _, o in pend])
    for (c, o), mo in zip(pend, outs):
        ctx.corr_cases += 1
        if mo != o["impl"]:
            ctx.corr_fail(c, f"two-site: centre at the end of the step: impl={o['impl']} model={mo}")
    # kept-count model vs the library's truncation on synthetic spectra
    from pytreenet.util.tensor_splitting import truncate_singular_values, SVDParameters
    lines, want = [], []
    rng = ctx.subrng("kept")
    for _ in range(ctx.n(40, 400)):
        m = rng.randint(1, 7)
        s = np.sort(np.array([rng.choice([0.0, 0.125, 0.25, 0.5, 1.0, 2.0]) for _ in range(m)]))[::-1]
        if s[0] == 0.0:
            s[0] = 0.5          # all-zero spectra (cut-off -inf*0 = nan) belong to C10's exact model, not to this count
        D = rng.choice([1, 2, 3, 5, float("inf")])
        tot = rng.choice([float("-inf"), 0.0, 0.125, 0.3])
        k = int(np.sum(s > max(tot, float("-inf"))))
        try:
            kept, _ = truncate_singular_values(s, SVDParameters(max_bond_dim=D, rel_tol=float("-inf"), total_tol=tot))
        except Exception as e:      # noqa: BLE001
            ctx.oracle_fail({"kind": "kept", "s": s.tolist(), "D": str(D), "tot": tot},
                            f"truncate_singular_values raised {type(e).__name__}: {e}")
            continue
        lines.append(f"C07 kept {k} {'inf' if D == float('inf') else D}")
        want.append((len(kept), s.tolist(), D, tot))
    for mo, (got, s, D, tot) in zip(ctx.lean.batch(lines), want):
        ctx.count(("kept", tuple(s), str(D), tot), nontrivial=True, corr=True)
        if mo != str(got):
            ctx.corr_fail({"kind": "kept", "s": s, "D": str(D), "tot": tot},
                          f"kept count impl={got} model={mo} for s={s} D={D} total_tol={tot}")


def run_case(ctx, case):
    if case["kind"] == "kept":
        return
    o = run_impl(ctx, case)
    if o:
        mo = ctx.lean.batch([o["line"]])[0]
        if mo != o["impl"]:
            ctx.corr_fail(case, f"two-site: centre at the end of the step: impl={o['impl']} model={mo}")


def run_impl(ctx, case):
    if case["kind"] == "twonode":
        _twonode(ctx, case)
        return None
    rng, nprng, ttns, info, H, Hm, Hneg = c06._problem(dict(case, fullrank=False))
    n = len(case["par"])
    names = info["names"]
    inv = {v: k for k, v in names.items()}
    order = sorted(ttns.nodes)
    svd = case.get("svd")
    if svd == "default":
        svd = dict(max_bond_dim=100)        # SVDParameters(): bonds <= 100, tolerances 1e-15 (nothing of weight is cut)
    ctx.tally("kind", case["kind"])
    ctx.tally("nodes", n)
    ctx.tally("audit_family", case.get("fam", "-"))
    ctx.sample(case, 3)
    dt = 0.02 / (case.get("hscale") or 1.0)       # |H| dt stays O(1): magnitude of H and step size are varied together
    tf = info.get("tolf", 1.0)              # element-type factor of all tolerances (single precision: 5e3)
    struct0 = dense.structure(ttns)
    try:
        algo = c05.make_algo(case, "tdvp2site", ttns, H, dt, dt)
    except Exception as e:              # noqa: BLE001
        ctx.oracle_fail(case, f"two-site: construction raised {type(e).__name__}: {str(e)[:200]}")
        return None
    if algo is None:
        ctx.tally("pending_finding_skipped", case.get("cfg"))
        return None
    up = list(algo.update_path)
    segs = [(up[i], dense.path_between(ttns, up[i], up[i + 1])[1]) for i in range(len(up) - 1)]
    v_prev = dense.ttns_vector(algo.state, order)
    e_prev = algos.expval_dense(v_prev, Hm)
    probs = []
    for step in range(case["steps"]):
        try:
            if case.get("reset_after") == step:
                algo.reset_to_initial_state()
                v_prev = dense.ttns_vector(algo.state, order)
                e_prev = algos.expval_dense(v_prev, Hm)
            if case.get("retime_after") == step:
                algo.set_num_time_steps_constant_final_time(case["retime_n"])
            if case.get("setn_after") == step:
                algo.set_num_time_steps(case["setn"])
            algo.run_one_time_step()
        except Exception as e:          # noqa: BLE001
            ctx.oracle_fail(case, f"two-site: step {step} did not complete: {type(e).__name__}: {str(e)[:200]}")
            return None
        ctx.count(("2s", case["kind"], tuple(case["par"]), case["seed"], step, case.get("fam")), nontrivial=n >= 3)
        st = algo.state
        if dense.structure(st) != struct0:
            probs.append(f"step {step}: identifiers / parent-child relations changed")
            break
        wf = dense.well_formed(st)
        if wf:
            probs.append(f"step {step}: state not well-formed: {wf[:2]}")
            break
        centre = st.orthogonality_center_id
        if centre is None or centre not in st.nodes:
            probs.append(f"step {step}: no valid recorded centre ({centre})")
        else:
            probs += [f"step {step}: " + p for p in c06.canonical_problems(st, centre, 1e-8 * tf)]
        bd = st.bond_dims()
        if svd:
            D = svd["max_bond_dim"]
            for edge, b in bd.items():
                if b > D:
                    probs.append(f"step {step}: bond {edge} has dimension {b} > max_bond_dim {D}")
                if b < 1:
                    probs.append(f"step {step}: bond {edge} has dimension {b} < 1")
        if case["kind"] == "notrunc":
            v = dense.ttns_vector(st, order)
            nrm0 = np.linalg.norm(v_prev)
            # tolerances relative to the data: |psi| for the norm, |H| |psi|^2 for the energy
            if abs(np.linalg.norm(v) - nrm0) > 1e-8 * tf * nrm0:
                probs.append(f"step {step}: norm drift {abs(np.linalg.norm(v) - nrm0):.2e} (norm {nrm0:.3g})")
            e = algos.expval_dense(v, Hm)
            if abs(e - e_prev) > 1e-8 * tf * np.linalg.norm(Hm) * nrm0 ** 2:
                probs.append(f"step {step}: energy drift {abs(e - e_prev):.2e} (|H| |psi|^2 = "
                             f"{np.linalg.norm(Hm) * nrm0 ** 2:.3g})")
            v_prev, e_prev = v, e
    if not probs and algo.state.orthogonality_center_id in algo.state.nodes:
        # value level: hypotheses (index-form isometry toward the centre on every node) and conclusion (environment of the
        # centre = identity) of Ptn.Ein.environment_is_identity on the state the algorithm holds
        probs += c06.env_problems(ctx, algo.state, algo.state.orthogonality_center_id,
                                  1e-10 if tf == 1.0 else 1e-8 * tf, padded_ok=True)
    if probs:
        ctx.oracle_fail(case, "two-site: " + "; ".join(probs[:4]))
        return None
    line = f"C07 sweepend twosite {inv[up[0]]} {inv[up[-1]]} " + " ".join(f"{inv[a]}:{inv[b]}" for a, b in segs)
    return {"line": line, "impl": str(inv[algo.state.orthogonality_center_id])}


def _twonode(ctx, case):
    """Two-node tree, any initial bond, truncation disabled (or the default truncation argument): `steps` steps =
    exp(-iH steps*dt) psi.  Audit keys: sscale, hscale, dtype, cfg, steps, reset_after, names, pregauge, readonly, ttno,
    retime, svd='default'."""
    from pytreenet.ttns.ttns import TreeTensorNetworkState
    rng = random.Random(case["seed"])
    nprng = np.random.default_rng(case["seed"])
    d0, d1 = case["d"]
    par = [-1, 0]
    names = {0: "a", 1: "b"} if case["rootfirst"] else {0: "b", 1: "a"}
    if case.get("names"):
        nm = c05.NAME_SETS[case["names"]]
        names = {0: nm[0], 1: nm[1]} if case["rootfirst"] else {0: nm[1], 1: nm[0]}
    real = case.get("dtype") in ("real", "int", "single")
    realH = case.get("dtype") in ("int", "single")      # dtype "real": real state, complex Hamiltonian
    ttns, *_ = gen.build_network(TreeTensorNetworkState, par, {(0, 1): case["bond"]}, {0: [d0], 1: [d1]},
                                 rng, nprng, names=names, complex_=not real)
    phys = {0: d0, 1: d1}
    hs = case.get("hscale") or 1.0
    terms = [{0: gen.rand_hermitian(nprng, d0), 1: gen.rand_hermitian(nprng, d1)},
             {rng.randrange(2): gen.rand_hermitian(nprng, phys[0] if False else (d0 if True else d1))}]
    # second term on site 0 only (keeps dims consistent)
    terms[1] = {0: gen.rand_hermitian(nprng, d0)}
    if case.get("ttno") == "generic":
        H, Hm = c05.generic_ttno(rng, nprng, par, phys, names, True, real=realH, scale=hs)
    else:
        if realH or hs != 1.0:
            terms = [{k: (np.real(o) if realH else o) * (hs if k == 0 else 1.0) for k, o in t.items()} for t in terms]
        H, Hm = algos.ttno_from_terms(par, phys, names, terms, rng, nprng)
        if realH:
            for nid in list(H.nodes):
                H.replace_tensor(nid, np.real(H.tensors[nid]))
    tf = 1.0
    if any(case.get(k) for k in ("dtype", "sscale", "readonly", "pregauge")):
        Hm, tf = c05.specialise(dict(case, gauge_at=case.get("gauge_at") or "random"), rng, ttns, H, Hm)
    order = sorted(ttns.nodes)
    v0 = dense.ttns_vector(ttns, order).astype(complex)
    dt = 0.1 / hs                           # |H| dt stays O(1): magnitude of H and step size are varied together
    steps = case.get("steps", 1)
    ctx.count(("twonode", case["seed"], case["bond"], case.get("fam")), nontrivial=True)
    ctx.tally("kind", "twonode")
    ctx.tally("twonode_bond", case["bond"])
    if case.get("fam"):
        ctx.tally("twonode_audit", next(f"{k}={case[k]}" for k in ("sscale", "hscale", "dtype", "cfg", "steps", "names",
                                                                 "pregauge", "readonly", "ttno", "retime", "svd")
                                        if case.get(k)))
    try:
        algo = c05.make_algo(dict(case, svd=case.get("svd") or dict(NO_TRUNC)), "tdvp2site", ttns, H, dt, dt)
        if case.get("retime"):
            algo.set_num_time_steps_constant_final_time(case["retime"])
            dt = algo.time_step_size
        done = 0
        for step in range(steps):
            if case.get("reset_after") == step:
                algo.reset_to_initial_state()
                done = 0
            algo.run_one_time_step()
            done += 1
        v1 = dense.ttns_vector(algo.state, order)
    except Exception as e:              # noqa: BLE001
        ctx.oracle_fail(case, f"two-site two-node: raised {type(e).__name__}: {str(e)[:200]}")
        return
    w, U = np.linalg.eigh(Hm)
    ref = (U * np.exp(-1j * w * dt * done)) @ (U.conj().T @ v0)
    err = np.linalg.norm(v1 - ref) / np.linalg.norm(ref)
    if err > 1e-9 * tf:
        ctx.oracle_fail(case, f"two-site two-node: {done} step(s) differ from exp(-iH t) psi (rel. err {err:.2e}, "
                              f"initial bond {case['bond']}, |psi| = {np.linalg.norm(ref):.3g})")


def shrink(case):
    if case["kind"] in ("notrunc", "trunc"):
        yield from c05.shrink(case)
