"""C13 - symbolic Gaussian elimination returns an exact factorisation of its input.

Stage B (correspondence with the Lean model Ptn.C13): `gaussian_elimination` on the same matrix; the
triple (Op_l, reduced, Op_r) is compared EXACTLY (shape, numerator/denominator, symbol names).  Unit
correspondences of `_row_add`, `_col_add` and `are_parallel_row` exercise the compatibility guard and the
parallelism test directly.  Every `gaussian_elimination` case is ALSO sent to the CHECKED model (`C13 gaussc`,
lean/Ptn/C13/Checked.lean: every list access is explicit and answers `index-error` out of range, exceptions abort
the run): outcome (triple | zerodiv | index-error) compared exactly, IndexError <-> `index-error`.  Ragged
(non-rectangular) and empty matrices - outside the property's domain - are sent to the checked model only: both
sides must raise / report IndexError on the same inputs and return the same (possibly ragged) triple otherwise.
Stage C (oracle, independent of the library): Op_l * reduced * Op_r is multiplied out as linear
polynomials over `fractions.Fraction` (dict symbol -> coefficient per entry) and compared with the input
entry by entry; shapes compatible; reduced not larger than the input; entry format (no mixing).
"""
from __future__ import annotations

import itertools
import re
from copy import deepcopy
from fractions import Fraction

RULE = ("cases: ALL matrices with <= 4 entries (quick: 1xk, kx1, 2x2) / <= 6 entries (thorough: + 1x5, 5x1, "
        "2x3, 3x2, and 1x6 / 6x1 in the enlarged search) over the alphabet {0, 1, -2, 1/3, a, 2a, b}; random "
        "matrices up to 8x8 (numeric low-rank blocks, sparse symbolic, mixed) with planted zero rows/columns, "
        "parallel rows/columns, sums of rows and repeated symbols; direct calls of _row_add/_col_add/"
        "are_parallel_row; a few out-of-domain inputs (coefficient-0 symbols, symbol '') for correspondence "
        "only; ALL ragged / empty matrices with <= 3 rows of length <= 3 and <= 4 entries (thorough: <= 5) over the "
        "same alphabet plus random ragged matrices (rows of a random matrix cut or extended), correspondence with "
        "the checked model only (IndexError <-> index-error).  non-trivial = distinct input on which the elimination did something (result differs from "
        "(1, M, 1)) or, for the unit calls, distinct input")
PARTIAL = [
    "in-place mutation / aliasing of the argument is not modelled (functional model); the oracle compares with a "
    "deep copy of the input taken before the call",
    "polynomial identity is stated in Lean as equality under every rational valuation of the symbols "
    "(equivalent for linear forms over an infinite field; K = Rat to stay in core Lean); the oracle compares "
    "coefficients",
]
ASSUMPTIONS = [
    "input domain: rectangular, >= 1 row; numbers are fractions.Fraction (zero is Fraction(0), "
    "as produced by StateDiagram._setup_gamma_matrix; an int 0 in the input makes are_parallel_row raise "
    "TypeError); symbolic entries are (Fraction != 0, non-empty str)",
    "int 0 and Fraction(0) in the OUTPUT are identified (both are the number zero; the code tells them apart only "
    "in are_parallel_*, which runs on the input)",
]

ALPHABET = ["0", "1", "-2", "1/3", "a", "2a", "b"]
TOKEN = re.compile(r"^(-?(?:\d+(?:/\d+)?)?)([A-Za-z@]\w*)?$")


# ------------------------------------------------------------------ encoding

def parse_token(tok: str):
    """'0', '-2', '1/3' -> Fraction ; 'a', '2a', '-1/3b' -> (Fraction, 'a') ; '@' is the empty symbol."""
    m = TOKEN.match(tok)
    if not m or tok == "":
        raise ValueError(f"bad entry token {tok!r}")
    coef, sym = m.group(1), m.group(2)
    if coef in ("", "-"):
        if sym is None:
            raise ValueError(f"bad entry token {tok!r}")
        coef += "1"
    q = Fraction(coef)
    if sym is None:
        return q
    return (q, "" if sym == "@" else sym)


def build_matrix(case):
    r, c = case["rows"], case["cols"]
    ent = case["ent"]
    assert len(ent) == r * c
    return [[parse_token(ent[i * c + j]) for j in range(c)] for i in range(r)]


def in_domain(mat) -> bool:
    for row in mat:
        for e in row:
            if isinstance(e, tuple) and (e[0] == 0 or e[1] == ""):
                return False
    return True


def symbol_table(mat):
    """'' -> 0, every other symbol of the input -> 1, 2, ... in order of first appearance."""
    tab = {"": 0}
    for row in mat:
        for e in row:
            if isinstance(e, tuple) and e[1] not in tab:
                tab[e[1]] = len(tab)
    return tab


def rat_str(q) -> str:
    q = Fraction(q)
    return f"{q.numerator}/{q.denominator}"


def entry_str(e, tab) -> str:
    if isinstance(e, tuple):
        return f"s:{rat_str(e[0])}:{tab[e[1]]}"
    return f"n:{rat_str(e)}"


def mat_line(mat, tab) -> str:
    return " ".join(entry_str(e, tab) for row in mat for e in row)


def gauss_line(mat, tab) -> str:
    return f"C13 gauss {len(mat)} {len(mat[0])} " + mat_line(mat, tab)


def canon_result(m, n, L, A, R, tab) -> str:
    """Same canonical line as the Lean driver prints."""
    p, q = len(A), len(R)
    ok = (len(L) == m and all(len(r) == p for r in L) and all(len(r) == q for r in A)
          and all(len(r) == n for r in R))
    if not ok:
        return "ragged"
    ls = " ".join(rat_str(x) for row in L for x in row)
    as_ = " ".join(entry_str(e, tab) for row in A for e in row)
    rs = " ".join(rat_str(x) for row in R for x in row)
    return f"ok {m} {p} {q} {n} | {ls} | {as_} | {rs}"


def gaussc_line(mat, tab) -> str:
    """Request for the checked model; rows may differ in length, the matrix may be empty."""
    return ("C13 gaussc " + " ".join([str(len(mat))] + [str(len(r)) for r in mat]
                                     + [entry_str(e, tab) for row in mat for e in row]))


def _rows_str(X, f) -> str:
    return " ".join([str(len(X))] + ["[" + " ".join([str(len(r))] + [f(x) for x in r]) + "]" for r in X])


def canon_result_c(L, A, R, tab) -> str:
    """Same canonical line as the Lean driver prints for the checked model (ragged matrices allowed)."""
    return (f"ok | {_rows_str(L, rat_str)} | {_rows_str(A, lambda e: entry_str(e, tab))} | "
            f"{_rows_str(R, rat_str)}")


def impl_outcome_c(M0, tab):
    """(outcome line of the implementation in the checked model's format, exception or None, result or None)."""
    from pytreenet.ttno import symbolic_gaussian_elimination_fraction as sge
    try:
        L, A, R = sge.gaussian_elimination(deepcopy(M0))
    except IndexError as e:
        return "index-error", e, None
    except ZeroDivisionError as e:
        return "zerodiv", e, None
    except Exception as e:          # noqa: BLE001
        return f"exception {type(e).__name__}", e, None
    try:
        return canon_result_c(L, A, R, tab), None, (L, A, R)
    except Exception as e:          # noqa: BLE001
        return f"uncanonical {type(e).__name__}: {e}", None, (L, A, R)


def build_ragged(case):
    lens, ent = case["lens"], case["ent"]
    assert len(ent) == sum(lens)
    it = iter(ent)
    return [[parse_token(next(it)) for _ in range(k)] for k in lens]


# ------------------------------------------------------------------ oracle

def poly(e):
    """Linear polynomial of an entry: dict key -> Fraction, key None is the constant term."""
    if isinstance(e, tuple):
        return {} if e[0] == 0 else {("sym", e[1]): Fraction(e[0])}
    return {} if e == 0 else {None: Fraction(e)}


def poly_addmul(acc, p, c):
    if c == 0:
        return
    for k, v in p.items():
        nv = acc.get(k, 0) + c * v
        if nv == 0:
            acc.pop(k, None)
        else:
            acc[k] = nv


def format_problems(L, A, R):
    probs = []
    for name, X in (("Op_l", L), ("Op_r", R)):
        for row in X:
            for x in row:
                if isinstance(x, bool) or not isinstance(x, (Fraction, int)):
                    probs.append(f"{name} has a non-rational entry {x!r}")
    for row in A:
        for e in row:
            if isinstance(e, Fraction):
                continue
            if isinstance(e, int) and not isinstance(e, bool) and e == 0:
                continue
            if (isinstance(e, tuple) and len(e) == 2 and isinstance(e[0], Fraction)
                    and isinstance(e[1], str)):
                continue
            probs.append(f"reduced matrix has an entry of the wrong format {e!r} (mixing / wrong type)")
    return probs


def oracle(M0, L, A, R):
    """Problems of (L, A, R) as a factorisation of M0; [] if the property holds."""
    m, n = len(M0), len(M0[0])
    probs = []
    if not (isinstance(L, list) and isinstance(A, list) and isinstance(R, list)) or not A:
        return ["result is not a triple of non-empty nested lists"]
    p, q = len(A), len(A[0])
    if any(len(r) != q for r in A):
        probs.append("reduced matrix is ragged")
    if len(L) != m or any(len(r) != p for r in L):
        probs.append(f"Op_l has shape {len(L)}x{sorted({len(r) for r in L})}, expected {m}x{p}")
    if len(R) != q or any(len(r) != n for r in R):
        probs.append(f"Op_r has shape {len(R)}x{sorted({len(r) for r in R})}, expected {q}x{n}")
    if p > m or q > n:
        probs.append(f"reduced matrix {p}x{q} is larger than the input {m}x{n}")
    probs += format_problems(L, A, R)
    if probs:
        return probs
    polys = [[poly(e) for e in row] for row in A]
    for i in range(m):
        # t[l] = sum_k L[i][k] * A[k][l]
        t = []
        for l in range(q):
            acc = {}
            for k in range(p):
                poly_addmul(acc, polys[k][l], L[i][k])
            t.append(acc)
        for j in range(n):
            acc = {}
            for l in range(q):
                poly_addmul(acc, t[l], R[l][j])
            want = poly(M0[i][j])
            if acc != want:
                probs.append(f"(Op_l*reduced*Op_r)[{i}][{j}] = {fmt_poly(acc)} but input entry is {fmt_poly(want)}")
                if len(probs) >= 3:
                    return probs
    return probs


def fmt_poly(p):
    if not p:
        return "0"
    return " + ".join((f"{v}" if k is None else f"{v}*{k[1]!r}") for k, v in sorted(p.items(), key=str))


# ------------------------------------------------------------------ case generation

COEFS = [Fraction(1), Fraction(-1), Fraction(2), Fraction(-2), Fraction(1, 2), Fraction(1, 3), Fraction(-3, 2),
         Fraction(3), Fraction(5, 7)]
MULTS = [Fraction(1), Fraction(-1), Fraction(2), Fraction(1, 2), Fraction(-3, 2), Fraction(1, 3), Fraction(3)]


def tok_of(e) -> str:
    if isinstance(e, tuple):
        s = "@" if e[1] == "" else e[1]
        return f"{e[0]}{s}"
    return str(Fraction(e))


def scale_entry(e, mu):
    if isinstance(e, tuple):
        return (e[0] * mu, e[1])
    return e * mu


def random_matrix(rng):
    r = rng.choice([1, 2, 2, 3, 3, 3, 4, 4, 4, 5, 5, 6, 7, 8])
    c = rng.choice([1, 2, 2, 3, 3, 3, 4, 4, 4, 5, 5, 6, 7, 8])
    mode = rng.choice(["numeric", "numeric", "symbolic", "symbolic", "mixed", "mixed", "gamma"])
    syms = rng.sample(["a", "b", "c", "d", "e", "f"], rng.choice([1, 1, 2, 2, 3, 4]))
    zero = Fraction(0)
    if mode == "numeric":
        k = rng.randint(1, max(1, min(r, c)))
        U = [[Fraction(rng.randint(-2, 2)) for _ in range(k)] for _ in range(r)]
        V = [[Fraction(rng.randint(-2, 2), rng.choice([1, 1, 1, 2, 3])) for _ in range(c)] for _ in range(k)]
        M = [[sum((U[i][t] * V[t][j] for t in range(k)), zero) for j in range(c)] for i in range(r)]
    elif mode == "gamma":
        # like the Gamma matrices of the state diagram: coefficient-1 symbols, sparse, symbols repeated per row/col
        dens = rng.choice([0.3, 0.5, 0.7])
        colsym = [rng.choice(syms) for _ in range(c)]
        rowsym = [rng.choice(syms) for _ in range(r)]
        by = rng.choice(["col", "row", "any"])
        M = []
        for i in range(r):
            row = []
            for j in range(c):
                if rng.random() > dens:
                    row.append(zero)
                else:
                    s = colsym[j] if by == "col" else rowsym[i] if by == "row" else rng.choice(syms)
                    row.append((rng.choice([Fraction(1), Fraction(1), Fraction(-1), Fraction(2)]), s))
            M.append(row)
    else:
        dens = rng.choice([0.35, 0.6, 0.85])
        psym = 1.0 if mode == "symbolic" else rng.choice([0.2, 0.5])
        M = []
        for i in range(r):
            row = []
            for j in range(c):
                if rng.random() > dens:
                    row.append(zero)
                elif rng.random() < psym:
                    row.append((rng.choice(COEFS), rng.choice(syms)))
                else:
                    row.append(rng.choice(COEFS))
            M.append(row)
    # plants
    plants = []
    for _ in range(rng.choice([0, 1, 1, 2, 3])):
        kind = rng.choice(["zrow", "zcol", "prow", "pcol", "sumrow", "sumcol", "symcol", "symrow"])
        plants.append(kind)
        if kind == "zrow":
            i = rng.randrange(r)
            M[i] = [zero] * c
        elif kind == "zcol":
            j = rng.randrange(c)
            for i in range(r):
                M[i][j] = zero
        elif kind == "prow" and r >= 2:
            i, j = rng.sample(range(r), 2)
            mu = rng.choice(MULTS)
            M[j] = [scale_entry(e, mu) for e in M[i]]
        elif kind == "pcol" and c >= 2:
            i, j = rng.sample(range(c), 2)
            mu = rng.choice(MULTS)
            for row in M:
                row[j] = scale_entry(row[i], mu)
        elif kind == "sumrow" and r >= 3:
            i, j, k = rng.sample(range(r), 3)
            new = _combine(M[i], M[j], rng.choice(MULTS))
            if new is not None:
                M[k] = new
        elif kind == "sumcol" and c >= 3:
            i, j, k = rng.sample(range(c), 3)
            new = _combine([row[i] for row in M], [row[j] for row in M], rng.choice(MULTS))
            if new is not None:
                for t, row in enumerate(M):
                    row[k] = new[t]
        elif kind == "symcol":
            # one symbol down a whole column with several coefficients: symbolic pivots with same-symbol targets
            j = rng.randrange(c)
            s = rng.choice(syms)
            for i in range(r):
                if rng.random() < 0.8:
                    M[i][j] = (rng.choice(COEFS), s)
        elif kind == "symrow":
            i = rng.randrange(r)
            s = rng.choice(syms)
            for j in range(c):
                if rng.random() < 0.8:
                    M[i][j] = (rng.choice(COEFS), s)
    return {"kind": "gauss", "rows": r, "cols": c, "ent": [tok_of(e) for row in M for e in row],
            "mode": mode, "plants": plants}


def _combine(u, v, mu):
    """u + mu*v as a line of entries if no position mixes, else None."""
    out = []
    for a, b in zip(u, v):
        pa, pb = poly(a), poly(b)
        acc = dict(pa)
        poly_addmul(acc, pb, mu)
        if len(acc) > 1:
            return None
        if not acc:
            out.append(Fraction(0))
        else:
            (k, val), = acc.items()
            out.append(val if k is None else (val, k[1]))
    return out


def exhaustive_shapes(ctx):
    quick = [(1, 1), (1, 2), (2, 1), (1, 3), (3, 1), (1, 4), (4, 1), (2, 2)]
    if ctx.tier == "quick" and ctx.scale == 1:
        return quick
    return quick + [(1, 5), (5, 1), (2, 3), (3, 2), (1, 6), (6, 1)]


def unit_cases(ctx, rng, count):
    """Direct calls of _row_add / _col_add / are_parallel_row."""
    cases = []
    pool = ["0", "0", "1", "-2", "1/3", "2", "a", "2a", "-a", "b", "1/3b", "-2a", "c"]
    for _ in range(count):
        kind = rng.choice(["rowadd", "coladd", "par"])
        if kind == "par":
            k = rng.randint(1, 5)
            a = [rng.choice(pool) for _ in range(k)]
            if rng.random() < 0.6:
                mu = rng.choice(MULTS)
                b = [tok_of(scale_entry(parse_token(t), mu)) for t in a]
                if rng.random() < 0.4:
                    b[rng.randrange(k)] = rng.choice(pool)
            else:
                b = [rng.choice(pool) for _ in range(k)]
            cases.append({"kind": "par", "a": a, "b": b})
        else:
            r, c = rng.randint(1, 4), rng.randint(1, 4)
            if kind == "rowadd" and r < 2:
                r = 2
            if kind == "coladd" and c < 2:
                c = 2
            lim = r if kind == "rowadd" else c
            t, s = rng.sample(range(lim), 2)
            ent = [rng.choice(pool) for _ in range(r * c)]
            f = rng.choice(MULTS + [Fraction(-2), Fraction(-1, 2), Fraction(-1, 3)])
            cases.append({"kind": kind, "rows": r, "cols": c, "t": t, "s": s, "f": str(f), "ent": ent})
    return cases


EXTRA_DOMAIN = [
    # out-of-domain inputs: correspondence only (model must predict the exception / the output)
    {"kind": "gauss", "rows": 2, "cols": 1, "ent": ["0a", "a"], "ext": True},
    {"kind": "gauss", "rows": 1, "cols": 2, "ent": ["0a", "a"], "ext": True},
    {"kind": "gauss", "rows": 2, "cols": 2, "ent": ["0a", "1", "2a", "b"], "ext": True},
    {"kind": "gauss", "rows": 2, "cols": 2, "ent": ["0a", "0", "0", "0b"], "ext": True},
    {"kind": "gauss", "rows": 2, "cols": 1, "ent": ["1", "2@"], "ext": True},
    {"kind": "gauss", "rows": 1, "cols": 2, "ent": ["1", "2@"], "ext": True},
    {"kind": "gauss", "rows": 2, "cols": 2, "ent": ["1", "a", "3@", "3a"], "ext": True},
    {"kind": "gauss", "rows": 2, "cols": 2, "ent": ["@", "a", "0", "2@"], "ext": True},
]

HAND = [
    {"kind": "gauss", "rows": 1, "cols": 0, "ent": []},
    {"kind": "gauss", "rows": 3, "cols": 0, "ent": []},
    # tests/test_gaussian_elimination.py of the repository and a few structured cases
    {"kind": "gauss", "rows": 3, "cols": 3, "ent": ["2", "1", "-1", "-3", "-1", "2", "-2", "1", "2"]},
    {"kind": "gauss", "rows": 3, "cols": 5,
     "ent": ["2", "1", "-1", "5", "7", "-3", "-1", "2", "1", "0", "-2", "1", "2", "-2", "6"]},
    {"kind": "gauss", "rows": 5, "cols": 5,
     "ent": ["a", "b", "c", "0", "b", "0", "d", "0", "0", "d", "0", "e", "0", "0", "e",
             "0", "0", "f", "g", "0", "0", "0", "f", "g", "0"]},
    {"kind": "gauss", "rows": 4, "cols": 4,
     "ent": ["a", "b", "0", "0", "0", "b", "c", "0", "a", "0", "0", "d", "0", "0", "c", "d"]},
    # a row above the pivot becomes zero: the deletion shifts the rows under the running pivot index
    {"kind": "gauss", "rows": 4, "cols": 3,
     "ent": ["1", "0", "1", "0", "1", "1", "1", "1", "3", "2", "1", "1"]},
    {"kind": "gauss", "rows": 3, "cols": 4,
     "ent": ["1", "0", "1", "2", "0", "1", "1", "1", "1", "1", "3", "1"]},
    {"kind": "gauss", "rows": 4, "cols": 4,
     "ent": ["0", "0", "1", "2", "0", "0", "2", "1", "1", "2", "0", "0", "3", "1", "0", "0"]},
    {"kind": "gauss", "rows": 3, "cols": 3, "ent": ["a", "b", "0", "2a", "0", "c", "a", "b", "c"]},
    {"kind": "gauss", "rows": 3, "cols": 3, "ent": ["a", "1", "0", "a", "b", "0", "-a", "0", "2"]},
]


RAGGED_HAND = [
    # witnesses of Props.lean (replayed on the real code here)
    {"kind": "ragged", "lens": [2, 1], "ent": ["1", "2", "a"]},          # ragged_index_error_witness
    {"kind": "ragged", "lens": [], "ent": []},                            # empty_matrix_index_error
    {"kind": "ragged", "lens": [2, 1], "ent": ["a", "1", "b"]},          # ragged_index_error_in_elimination
    {"kind": "ragged", "lens": [1, 2], "ent": ["1", "a", "2"]},          # ragged_without_error_witness
    {"kind": "ragged", "lens": [2, 1], "ent": ["0a", "1", "a"]},
    {"kind": "ragged", "lens": [1, 3, 2], "ent": ["a", "b", "1", "0", "2", "b"]},
]


def ragged_shapes(ctx):
    """All row-length vectors with <= 3 rows of length <= 3 that are NOT a rectangle with >= 1 row."""
    cap = 4 if (ctx.tier == "quick" and ctx.scale == 1) else 5
    out = []
    for nrows in range(0, 4):
        for lens in itertools.product(range(0, 4), repeat=nrows):
            if sum(lens) <= cap and (nrows == 0 or len(set(lens)) > 1):
                out.append(list(lens))
    return out


def random_ragged(rng):
    base = random_matrix(rng)
    r, c, ent = base["rows"], base["cols"], base["ent"]
    rows = [ent[i * c:(i + 1) * c] for i in range(r)]
    pool = [t for t in ent if t != "0"] or ["1"]
    for _ in range(rng.choice([1, 1, 2, 3])):
        i = rng.randrange(r)
        if rng.random() < 0.6 and rows[i]:
            del rows[i][rng.randrange(len(rows[i])):]          # cut the row
        else:
            rows[i] = rows[i] + [rng.choice(pool + ["0"]) for _ in range(rng.randint(1, 2))]
    return {"kind": "ragged", "lens": [len(x) for x in rows], "ent": [t for x in rows for t in x],
            "mode": "ragged-random"}


def gen_cases(ctx):
    rng = ctx.rng
    cases = []
    cases += [dict(c) for c in HAND]
    cases += [dict(c) for c in EXTRA_DOMAIN]
    cases += [dict(c) for c in RAGGED_HAND]
    for lens in ragged_shapes(ctx):
        for ent in itertools.product(ALPHABET, repeat=sum(lens)):
            cases.append({"kind": "ragged", "lens": lens, "ent": list(ent), "mode": "ragged-exh"})
    for (r, c) in exhaustive_shapes(ctx):
        for ent in itertools.product(ALPHABET, repeat=r * c):
            cases.append({"kind": "gauss", "rows": r, "cols": c, "ent": list(ent), "mode": "exh"})
    for _ in range(ctx.n(6000, 100000)):
        cases.append(random_matrix(rng))
    cases += unit_cases(ctx, ctx.subrng("unit") if ctx.scale == 1 else rng, ctx.n(1500, 20000))
    rrng = ctx.subrng("ragged") if ctx.scale == 1 else rng
    for _ in range(ctx.n(2000, 40000)):
        cases.append(random_ragged(rrng))
    return cases


# ------------------------------------------------------------------ protocol lines

def model_lines(case):
    """Requests of a case: `gauss` cases ask the totalised AND the checked model."""
    if case["kind"] == "gauss":
        mat = build_matrix(case)
        tab = symbol_table(mat)
        return [gauss_line(mat, tab), gaussc_line(mat, tab)]
    return [model_line(case)]


def model_line(case):
    kind = case["kind"]
    if kind == "gauss":
        mat = build_matrix(case)
        return gauss_line(mat, symbol_table(mat))
    if kind == "ragged":
        mat = build_ragged(case)
        return gaussc_line(mat, symbol_table(mat))
    if kind == "par":
        a = [parse_token(t) for t in case["a"]]
        b = [parse_token(t) for t in case["b"]]
        tab = symbol_table([a, b])
        return f"C13 par {len(a)} " + mat_line([a, b], tab)
    mat = build_matrix(case)
    tab = symbol_table(mat)
    return (f"C13 {kind} {case['rows']} {case['cols']} {case['t']} {case['s']} {rat_str(Fraction(case['f']))} "
            + mat_line(mat, tab))


def run(ctx):
    import json
    import os
    from harness import common
    cases = []
    cdir = os.path.join(common.CORPUS_DIR, "C13")
    if os.path.isdir(cdir):
        for f in sorted(os.listdir(cdir)):
            if f.endswith(".json"):
                payload = common.unjson(json.load(open(os.path.join(cdir, f))))
                cases.append(payload.get("case", payload))
    cases += gen_cases(ctx)
    ctx.exhaustive = True
    CH = 20000
    for start in range(0, len(cases), CH):
        if ctx.time_left() < 0:
            break
        chunk = cases[start:start + CH]
        lines, span = [], []
        for c in chunk:
            ls = model_lines(c)
            span.append((len(lines), len(ls)))
            lines += ls
        outs = ctx.lean.batch(lines)
        for c, (a, k) in zip(chunk, span):
            run_case(ctx, c, outs[a:a + k])


def run_case(ctx, case, model_out=None):
    """`model_out`: the list of answers to `model_lines(case)` (asked here if absent)."""
    if model_out is None:
        model_out = ctx.lean.batch(model_lines(case))
    kind = case["kind"]
    if kind == "gauss":
        _case_gauss(ctx, case, model_out[0], model_out[1])
    elif kind == "ragged":
        _case_ragged(ctx, case, model_out[0])
    elif kind == "par":
        _case_par(ctx, case, model_out[0])
    else:
        _case_add(ctx, case, model_out[0])


class _Probe:
    """Wraps row_add / col_add of the module from outside to see which branches a case reaches."""

    def __init__(self, sge):
        self.sge = sge
        self.events = set()

    def __enter__(self):
        sge, ev = self.sge, self.events
        self.saved = (sge.row_add, sge.col_add)
        ra, ca = self.saved

        def row_add(matrix, Op, target, source, factor):
            before = [list(r) for r in matrix]
            res = ra(matrix, Op, target, source, factor)
            self._note("row", before, matrix, target, source, res[2])
            return res

        def col_add(matrix, Op, target, source, factor):
            before = [list(r) for r in matrix]
            res = ca(matrix, Op, target, source, factor)
            self._note("col", before, matrix, target, source, res[2])
            return res
        sge.row_add, sge.col_add = row_add, col_add
        return self

    def _note(self, what, before, after, target, source, is_zero):
        ev = self.events
        piv = before[source][source]
        if before == [list(r) for r in after]:
            ev.add(what + "-guard-refused")
        else:
            ev.add(what + ("-add-sym-pivot" if isinstance(piv, tuple) else "-add-num-pivot"))
        if is_zero:
            ev.add(what + ("-zero-before-pivot" if target < source else "-zero-after-pivot"))

    def __exit__(self, *a):
        self.sge.row_add, self.sge.col_add = self.saved


def _case_ragged(ctx, case, checked_out):
    """Non-rectangular or empty input (outside the domain): correspondence with the checked model only."""
    M0 = build_ragged(case)
    tab = symbol_table(M0)
    impl, exc, _ = impl_outcome_c(M0, tab)
    key = ("r", tuple(case["lens"]), tuple(case["ent"]))
    ctx.count(key, nontrivial=True, corr=True)
    ctx.tally("ragged", impl.split(" ")[0] if not impl.startswith("exception") else impl[:40])
    ctx.tally("source", case.get("mode", "ragged-hand") + "/out-of-domain")
    if impl == "index-error":
        ctx.sample({k: case[k] for k in ("kind", "lens", "ent")}, 2)
    # Non-rectangular and empty matrices are OUTSIDE the property's domain: how the code fails or what it returns there
    # is not fixed by the property, and a behaviour-preserving rewrite may differ (harmless/C13-H raises IndexError on a
    # ragged input where the original returns a triple - found by running this check against that rewrite).  The
    # agreement with the checked model is therefore recorded (it validates the model's access order on the unchanged
    # tree: 'agree' must be ~100 % there), never reported.
    ctx.tally("ragged_vs_checked_model", "agree" if impl == checked_out else "differ (out of domain: not a failure)")


def _case_gauss(ctx, case, model_out, checked_out=None):
    from pytreenet.ttno import symbolic_gaussian_elimination_fraction as sge
    gaussian_elimination = sge.gaussian_elimination
    M0 = build_matrix(case)
    tab = symbol_table(M0)
    m, n = len(M0), len(M0[0])
    dom = in_domain(M0)
    key = ("g", m, n, tuple(case["ent"]))
    exc = None
    probe = _Probe(sge)
    try:
        with probe:
            L, A, R = gaussian_elimination(deepcopy(M0))
    except Exception as e:          # noqa: BLE001
        exc = e
    for ev in probe.events:
        ctx.tally("branch", ev)
    if exc is not None:
        impl = "zerodiv" if isinstance(exc, ZeroDivisionError) else f"exception {type(exc).__name__}"
    else:
        try:
            impl = canon_result(m, n, L, A, R, tab)
        except Exception as e:      # noqa: BLE001  (unknown symbol, non-rational entry, ...)
            impl = f"uncanonical {type(e).__name__}: {e}"
    trivial = (exc is None and A == M0 and len(L) == m and len(R) == n)
    ctx.count(key, nontrivial=not trivial, corr=True)
    ctx.tally("shape", f"{m}x{n}")
    ctx.tally("source", case.get("mode", "hand") + ("" if dom else "/out-of-domain"))
    if exc is None and impl.startswith("ok"):
        p, q = len(A), len(A[0]) if A else 0
        ctx.tally("effect", ("rows-" if p < m else "rows=") + ("cols-" if q < n else "cols=")
                  + ("sym" if len(tab) > 1 else "num"))
    else:
        ctx.tally("effect", impl.split(":")[0][:40])
    if not trivial:
        ctx.sample({k: case[k] for k in ("kind", "rows", "cols", "ent")}, 4)
    if impl != model_out:
        ctx.corr_fail(case, f"gaussian_elimination on {m}x{n} {case['ent']}: impl={impl[:400]} model={model_out[:400]}")
    if checked_out is not None:
        # the checked model (explicit IndexError): same outcome as the code, in its own (ragged-capable) format
        if exc is not None:
            implc = ("index-error" if isinstance(exc, IndexError) else
                     "zerodiv" if isinstance(exc, ZeroDivisionError) else f"exception {type(exc).__name__}")
        else:
            try:
                implc = canon_result_c(L, A, R, tab)
            except Exception as e:  # noqa: BLE001
                implc = f"uncanonical {type(e).__name__}: {e}"
        ctx.tally("checked", implc.split(" ")[0])
        if implc != checked_out:
            ctx.corr_fail(case, f"gaussian_elimination on {m}x{n} {case['ent']}: impl={implc[:400]} "
                                f"checked model={checked_out[:400]}")
    if not dom:
        return                      # outside the stated input domain: correspondence only
    if exc is not None:
        ctx.oracle_fail(case, f"gaussian_elimination raised {type(exc).__name__}: {str(exc)[:200]} on "
                              f"{m}x{n} {case['ent']}")
        return
    probs = oracle(M0, L, A, R)
    if probs:
        ctx.oracle_fail(case, f"factorisation of {m}x{n} {case['ent']}: " + "; ".join(probs[:3]))


def _case_par(ctx, case, model_out):
    from pytreenet.ttno.symbolic_gaussian_elimination_fraction import are_parallel_row
    a = [parse_token(t) for t in case["a"]]
    b = [parse_token(t) for t in case["b"]]
    ctx.count(("p", tuple(case["a"]), tuple(case["b"])), nontrivial=True, corr=True)
    try:
        r = are_parallel_row(list(a), list(b))
        impl = rat_str(r)
    except Exception as e:          # noqa: BLE001
        ctx.oracle_fail(case, f"are_parallel_row raised {type(e).__name__}: {e}")
        return
    ctx.tally("par", "parallel" if r != 0 else "not")
    if impl != model_out:
        ctx.corr_fail(case, f"are_parallel_row({case['a']}, {case['b']}): impl={impl} model={model_out}")
    # oracle: a non-zero answer must be a true proportionality factor (b = r * a as polynomials)
    if r != 0 and in_domain([a, b]):
        for x, y in zip(a, b):
            acc = dict(poly(y))
            poly_addmul(acc, poly(x), -Fraction(r))
            if acc:
                ctx.oracle_fail(case, f"are_parallel_row({case['a']}, {case['b']}) = {r} but b != {r}*a")
                break


def _case_add(ctx, case, model_out):
    from pytreenet.ttno import symbolic_gaussian_elimination_fraction as sge
    kind = case["kind"]
    M0 = build_matrix(case)
    tab = symbol_table(M0)
    t, s, f = case["t"], case["s"], Fraction(case["f"])
    M = deepcopy(M0)
    ctx.count((kind, case["rows"], case["cols"], t, s, case["f"], tuple(case["ent"])), nontrivial=True, corr=True)
    try:
        is_zero, success = (sge._row_add if kind == "rowadd" else sge._col_add)(M, t, s, f)
    except Exception as e:          # noqa: BLE001
        ctx.oracle_fail(case, f"_{kind} raised {type(e).__name__}: {e}")
        return
    ctx.tally(kind, "success" if success else "guard")
    try:
        impl = f"{1 if is_zero else 0} | {mat_line(M, tab)}" if success else "fail"
    except Exception as e:          # noqa: BLE001
        impl = f"uncanonical {type(e).__name__}: {e}"
    if impl != model_out:
        ctx.corr_fail(case, f"_{kind}(t={t}, s={s}, f={f}) on {case['rows']}x{case['cols']} {case['ent']}: "
                            f"impl={impl} model={model_out}")
    if not in_domain(M0):
        return
    probs = []
    if not success:
        if M != M0:
            probs.append("matrix changed although the operation reports failure")
    else:
        r, c = case["rows"], case["cols"]
        for i in range(r):
            for j in range(c):
                on_line = (i == t) if kind == "rowadd" else (j == t)
                want = dict(poly(M0[i][j]))
                if on_line:
                    src = M0[s][j] if kind == "rowadd" else M0[i][s]
                    poly_addmul(want, poly(src), f)
                if poly(M[i][j]) != want:
                    probs.append(f"entry [{i}][{j}] is {fmt_poly(poly(M[i][j]))}, expected {fmt_poly(want)}")
        line = M[t] if kind == "rowadd" else [row[t] for row in M]
        if is_zero and any(poly(e) for e in line):
            probs.append("line reported zero but is not the zero line")
        probs += format_problems([], M, [])
    if probs:
        ctx.oracle_fail(case, f"_{kind}(t={t}, s={s}, f={f}) on {case['ent']}: " + "; ".join(probs[:3]))


# ------------------------------------------------------------------ shrinking

def _shrink_ragged(case):
    lens, ent = case["lens"], case["ent"]
    base = {k: v for k, v in case.items() if k not in ("lens", "ent")}
    rows, pos = [], 0
    for k in lens:
        rows.append(ent[pos:pos + k])
        pos += k
    for i in range(len(rows)):
        rest = rows[:i] + rows[i + 1:]
        yield dict(base, lens=[len(x) for x in rest], ent=[t for x in rest for t in x])
    for i in range(len(rows)):
        if rows[i]:
            cut = rows[:i] + [rows[i][:-1]] + rows[i + 1:]
            yield dict(base, lens=[len(x) for x in cut], ent=[t for x in cut for t in x])
    for k, tok in enumerate(ent):
        if tok != "0":
            yield dict(base, lens=lens, ent=ent[:k] + ["0"] + ent[k + 1:])


def shrink(case):
    if case["kind"] == "ragged":
        yield from _shrink_ragged(case)
        return
    if case["kind"] != "gauss":
        return
    r, c, ent = case["rows"], case["cols"], case["ent"]
    base = {k: v for k, v in case.items() if k not in ("rows", "cols", "ent")}
    if r > 1:
        for i in range(r):
            yield dict(base, rows=r - 1, cols=c, ent=[ent[a * c + b] for a in range(r) if a != i for b in range(c)])
    if c > 1:
        for j in range(c):
            yield dict(base, rows=r, cols=c - 1, ent=[ent[a * c + b] for a in range(r) for b in range(c) if b != j])
    for k, tok in enumerate(ent):
        if tok != "0":
            yield dict(base, rows=r, cols=c, ent=ent[:k] + ["0"] + ent[k + 1:])
    for k, tok in enumerate(ent):
        e = parse_token(tok)
        simp = tok_of((Fraction(1), e[1])) if isinstance(e, tuple) else "1"
        if tok != "0" and tok != simp:
            yield dict(base, rows=r, cols=c, ent=ent[:k] + [simp] + ent[k + 1:])
