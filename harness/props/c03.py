"""C03 — canonical form: isometries toward the centre, state unchanged, in every mode.

Stage B: the sequence of QR operations (node -> neighbour that absorbs R) of canonical_form and of centre
moves is compared exactly with the Lean model Ptn.C03 (split_node_qr is wrapped from outside).
Stage C: oracle on the network: dense state unchanged, recorded centre, identifiers/relations kept, every
non-centre tensor an isometry toward the centre (KEEP: partial isometry and all shapes unchanged), centre
norm = full norm via scalar_product(use_orthogonal_center=True/False) and norm().
"""
from __future__ import annotations

import random

import numpy as np

from harness import gen, dense
from harness.props import c06

RULE = ("cases: random trees 1..7 nodes (all ordered trees <= 5 nodes in the thorough tier), complex tensors with bonds "
        "from {1,2,3,5} (larger than the adjacent space, dimension 1), rank-deficient tensors, every mode "
        "(REDUCED, FULL, KEEP), random centre, then 0..6 centre moves. Input-space audit: every entry point "
        "(canonical_form with / without `mode`, orthogonalize, the module-level function, ensure_orth_center, "
        "ensure_root_orth_center), interleaved ensure_* calls, direct split_qr_contract_r_to_neighbour with the "
        "centre recorded by hand, replacement of the centre tensor, prefix-related identifiers, nodes with 0 / 2 open "
        "legs, norms 1e-8 .. 1e8, a zero tensor, single precision, read-only arrays. non-trivial = distinct case with >= 3 nodes "
        "or a redundant/rank-deficient bond")
PARTIAL = ["Q is an isometry and Q R = tensor is the contract of numpy.linalg.qr (validated on every resulting tensor)",
           "proved is the bookkeeping: which node is split toward which neighbour, for every distance table "
           "(canon_gauge, move_gauge) and, with C17's dist_table, for every well-formed tree and centre incl. completion "
           "(canon_gauge_tree); that the recorded tensors are isometries then follows from the QR contract and the "
           "composition lemmas (env_isometry_compose/kron, keep_mode_padding); at value level this step is one theorem "
           "(canonical_form_isometric_tree) given the per-call contracts, and it is checked per node by the oracle",
           "state invariance (value level) is PROVED for every run of canonOps / moveOps on a valued network, every tree and "
           "centre, all dimensions, any commutative semiring, given one factorisation contract A = sum Q.R per QR call "
           "(canonical_form_value, move_centre_value, canonical_form_value_tree; hypotheses = the per-call QR contracts); per "
           "input it is decided by the dense oracle and, for integer states, by the Lean model's own exact evaluation of the "
           "network before the operations against the library's dense state after them",
           "gauge record => index-form isometry and norm from the centre tensor alone = full norm: PROVED for every tree, "
           "every centre, every run of canonOps with the full per-call QR contract (A = sum Q.R, Q an isometry toward the new "
           "bond, one dimension for the new bond): run_isometric, canonical_form_isometric_tree, tree_canon (Kids.Canon of "
           "Common/EinsumIso for the re-rooted tree), canonical_form_centre_norm. The norm network there is the one built along "
           "the tree; that the valued network has no nodes / bonds beyond the tree's is not part of the statement"]
ASSUMPTIONS = ["numpy.linalg.qr contract", "dense contraction by tensordot over labelled legs"]

MODES = ["REDUCED", "FULL", "KEEP"]


def gen_cases(ctx):
    rng = ctx.rng
    cases = []
    if ctx.tier == "thorough":
        for n in range(1, 6):
            for par in gen.all_ordered_trees(n):
                for mode in MODES:
                    cases.append({"par": par, "seed": rng.randrange(10 ** 9), "mode": mode,
                                  "moves": 2, "deficient": False})
    for _ in range(ctx.n(400, 3000)):
        kind = rng.choice([None, None, "spider", "chain", "star"])
        n = rng.choice([3, 4, 5, 6, 7]) if kind else rng.choice([1, 2, 3, 4, 5, 6])
        mode = rng.choice(MODES)
        mixed = rng.random() < 0.5
        small = mode == "FULL" or mixed          # FULL multiplies bond dimensions along every path: keep it small
        if small:
            n = min(n, 4)
            kind = kind if kind in (None, "chain", "star") else None
        cases.append({"par": gen.random_parent_array(rng, n, kind), "seed": rng.randrange(10 ** 9),
                      "mode": mode, "moves": rng.randint(0, 3 if small else 6), "deficient": rng.random() < 0.3,
                      "small": small,
                      "mixed": mixed, "dtype": rng.choice(["complex", "complex", "float", "int"])})
        audit_fields(rng, cases[-1])
    return cases


ENTRIES = ["method", "method", "default", "orthogonalize", "function", "ensure", "ensure_root"]
NAME_POOL = ["n1", "n10", "n100", "n", "1", "10", "n1contrn10", "N1", "n 1", "n1_", "_n1", "n01", "out_of_n1"]


def audit_fields(rng, case):
    """Input-space audit (notes/C03.md): every public entry point of the canonicalisation (method with / without the
    optional `mode`, `orthogonalize`, the module-level function, `ensure_orth_center`, `ensure_root_orth_center`),
    the operations that can be interleaved with centre moves (ensure_*, a direct `split_qr_contract_r_to_neighbour`
    with the centre recorded by hand as the TDVP code does, replacement of the centre tensor), identifiers that are
    prefixes of each other, nodes with no / two open legs, magnitudes 1e-8 .. 1e8, a zero tensor, single precision,
    read-only arrays."""
    r = random.Random(rng.randrange(10 ** 9))
    case["entry"] = r.choice(ENTRIES)
    if case["entry"] == "default":
        case["mode"] = "REDUCED"                      # the documented default is what an omitted `mode` must mean
    case["ops"] = r.random() < 0.6                    # draw the interleaved operations from the extended set
    case["names"] = r.random() < 0.3
    case["opens"] = r.choice(["one", "one", "mixed"])
    case["scale"] = r.choice([None, None, None, 1e-8, 1e8, 1e-4, 1e4])
    case["zero"] = r.random() < 0.06
    case["readonly"] = r.random() < 0.15
    if case.get("dtype") == "complex" and r.random() < 0.15:
        case["dtype"] = r.choice(["float32", "complex64"])
    return case


class QRLog:
    def __init__(self):
        self.log = []
        self._orig = None

    def install(self):
        from pytreenet.core.ttn import TreeTensorNetwork
        log = self.log
        self._orig = TreeTensorNetwork.split_node_qr
        orig = self._orig

        def wrapped(self_ttn, node_id, q_legs, r_legs, *a, **k):
            tgt = r_legs.parent_leg if r_legs.parent_leg is not None else (r_legs.child_legs[0] if r_legs.child_legs else None)
            log.append((node_id, tgt))
            return orig(self_ttn, node_id, q_legs, r_legs, *a, **k)
        TreeTensorNetwork.split_node_qr = wrapped

    def uninstall(self):
        from pytreenet.core.ttn import TreeTensorNetwork
        if self._orig is not None:
            TreeTensorNetwork.split_node_qr = self._orig


def _model_value_line(ttns, order, limit=20000):
    """Integer states: the flat network (node tensors, one pair of leg labels per tree edge, free legs = open legs sorted by
    node) as an `einrec` request - the Lean model evaluates `netValue` (the function `canonical_form_value` /
    `move_centre_value` are about) on the library's integer tensors.  None when a tensor is not integer or the sum is too
    large for the model."""
    from harness import einsum_corr
    num, dims, leaves = {}, [], []
    for nid in ttns.nodes:
        t = np.asarray(ttns.tensors[nid])
        if not np.issubdtype(t.dtype, np.integer):
            return None
        legs = []
        for lab, d in zip(dense.node_labels(ttns, nid), t.shape):
            num[(nid, lab)] = len(dims)
            dims.append(int(d))
            legs.append(num[(nid, lab)])
        leaves.append((legs, t.astype(np.int64)))
    pairs, free, size = [], [], 1
    for nid in ttns.nodes:
        for lab in dense.node_labels(ttns, nid):
            if lab[0] == "e" and lab[3] == nid:             # the leg toward the parent: one pair per edge
                pairs.append((num[(lab[2], lab)], num[(nid, lab)]))
                size *= dims[num[(nid, lab)]]
    for nid in order:
        for lab in dense.node_labels(ttns, nid):
            if lab[0] == "o":
                free.append(num[(nid, lab)])
                size *= dims[num[(nid, lab)]]
    if size > limit:
        return None
    return einsum_corr.einrec_line(dims, free, pairs, leaves)


def _compare(ctx, case, impl, mo):
    """One model answer against what the implementation did: the QR schedule (exact text) or the dense state (the model's
    exact evaluation of the integer network BEFORE the operations against the library's contraction AFTER them)."""
    if isinstance(impl, tuple) and impl[0] == "value":
        from harness import einsum_corr
        _, v_after, scale, what = impl
        tab = einsum_corr.parse_table(mo, "full")
        if tab is None:
            ctx.corr_fail(case, f"value: the value-level model rejects the integer network: [{mo[:120]}]")
            return
        vm = np.array(tab, dtype=float)
        if vm.shape != v_after.shape:
            ctx.corr_fail(case, f"value: model table has {vm.size} entries, the dense state {v_after.size}")
            return
        err = float(np.linalg.norm(v_after - vm))
        if not err <= 1e-10 * max(scale, float(np.linalg.norm(vm))):
            ctx.corr_fail(case, f"value: state after {what} differs from the Lean model's evaluation of the integer network "
                                f"before it by {err:.3e} (scale {scale:.3e})")
        return
    if mo != impl:
        ctx.corr_fail(case, f"QR schedule: impl=[{impl}] model=[{mo}]")


def run(ctx):
    qlog = QRLog()
    qlog.install()
    try:
        pend = []
        for c in gen_cases(ctx):
            if ctx.time_left() < 0:
                break
            o = _run_impl(ctx, c, qlog)
            if o:
                pend.append((c, o))
        lines, owners = [], []
        for c, o in pend:
            for ln, impl in o:
                lines.append(ln)
                owners.append((c, impl))
        for (c, impl), mo in zip(owners, ctx.lean.batch(lines)):
            ctx.corr_cases += 1
            _compare(ctx, c, impl, mo)
    finally:
        qlog.uninstall()


def run_case(ctx, case):
    qlog = QRLog()
    qlog.install()
    try:
        o = _run_impl(ctx, case, qlog)
        if o:
            for (ln, impl), mo in zip(o, ctx.lean.batch([l for l, _ in o])):
                _compare(ctx, case, impl, mo)
    finally:
        qlog.uninstall()


def _make_state(case):
    rng = random.Random(case["seed"])
    nprng = np.random.default_rng(case["seed"])
    par = case["par"]
    small = case.get("small") or case.get("mode") == "FULL"
    phys = (1, 2, 2) if small else (1, 2, 2, 3)
    bonds = (1, 2, 2, 3) if small else (1, 2, 2, 3, 5)
    arng = random.Random(case["seed"] ^ 0x2545F491)        # private stream of the audit fields
    kw = {}
    if case.get("names"):
        sel = arng.sample(NAME_POOL, len(par))
        if len(par) >= 2 and arng.random() < 0.5:
            # a node named like the default identifiers of the split API for ANOTHER node of the same network
            # ("in_of_<x>" / "out_of_<x>", what split_node_qr / split_node_svd produce by default): the temporary tensors
            # of a centre move must not collide with it (round-4 seed C03-R4A)
            i, j = arng.sample(range(len(par)), 2)
            derived = arng.choice(["in_of_", "out_of_"]) + sel[i]
            if derived not in sel:
                sel[j] = derived
        kw["names"] = dict(enumerate(sel))
    if case.get("opens") == "mixed":
        # a TreeTensorNetwork node may have no open leg or several; canonical_form is a method of the base class
        from pytreenet.ttns.ttns import TreeTensorNetworkState
        bond = gen.random_bonds(rng, par, bonds)
        open_dims = {}
        for i in range(len(par)):
            x = arng.random()
            open_dims[i] = ([] if (x < 0.25 and len(par) > 1) else
                            [arng.choice(phys), arng.choice((1, 2))] if x < 0.5 else [arng.choice(phys)])
        ttns, canon, attach, names = gen.build_network(TreeTensorNetworkState, par, bond, open_dims, rng, nprng, **kw)
        info = {"par": list(par), "bond": bond, "open": open_dims, "attach": attach, "names": names, "canon": canon}
    else:
        ttns, info = gen.random_ttns(rng, nprng, par, phys=phys, bonds=bonds, **kw)
    dt = case.get("dtype", "complex")
    if dt in ("float32", "complex64"):
        for nid in sorted(ttns.nodes):
            t = ttns.tensors[nid]
            ttns.replace_tensor(nid, np.ascontiguousarray(t.real if dt == "float32" else t).astype(dt))
    elif dt != "complex":
        # real / integer element types (hand-written basis or GHZ-like tensors are integer arrays)
        for nid in sorted(ttns.nodes):
            t = ttns.tensors[nid]
            if dt == "float":
                ttns.replace_tensor(nid, np.ascontiguousarray(t.real))
            else:
                ttns.replace_tensor(nid, np.rint(2 * t.real).astype(np.int64))
    if case["deficient"]:
        # make one tensor rank deficient along a random leg by projecting onto a 1-dim subspace
        nid = rng.choice(sorted(ttns.nodes))
        t = ttns.tensors[nid]
        k = rng.randrange(t.ndim)
        if t.shape[k] > 1:
            v = nprng.standard_normal(t.shape[k]) + 1j * nprng.standard_normal(t.shape[k])
            P = np.outer(v, v.conj()) / np.vdot(v, v)
            t2 = np.moveaxis(np.tensordot(t, P, axes=([k], [1])), -1, k)
            ttns.replace_tensor(nid, t2.astype(t.dtype) if t.dtype in (np.float32, np.complex64) else t2)
    ids = sorted(ttns.nodes)
    if case.get("scale"):
        # the norm of the state is moved by this factor, spread over all tensors
        f = case["scale"] ** (1.0 / len(ids))
        for nid in ids:
            t = ttns.tensors[nid]
            if t.dtype.kind in "fc":
                ttns.replace_tensor(nid, (t * f).astype(t.dtype))
    if case.get("zero"):
        nid = arng.choice(ids)
        ttns.replace_tensor(nid, np.zeros_like(ttns.tensors[nid]))
    if case.get("readonly"):
        for nid in ids:
            t = np.array(ttns.tensors[nid], copy=True)
            t.flags.writeable = False
            ttns.replace_tensor(nid, t)
    return rng, ttns, info


class Ref:
    """What the state must be compared with, and the scales every tolerance is relative to."""

    def __init__(self, ttns, order):
        self.order = order
        self.refresh(ttns)

    def refresh(self, ttns):
        self.v0 = dense.ttns_vector(ttns, self.order)
        self.n2 = float(np.vdot(self.v0, self.v0).real)
        norms = [float(np.linalg.norm(ttns.tensors[nid])) for nid in self.order]
        self.prod = float(np.prod(norms))                 # |psi| <= product of the tensor norms
        single = any(ttns.tensors[nid].dtype in (np.float32, np.complex64) for nid in self.order)
        self.mult = 1e5 if single else 1.0                # eps(float32) / eps(float64)
        # round-off of a QR sweep is relative to the product of the tensor norms; exact cancellation (integer tensors,
        # zero tensors) can make |psi| much smaller than that product
        self.vscale = max(float(np.sqrt(self.n2)), 1e-4 * self.prod, 1e-300)
        self.one_open_each = all(ttns.nodes[nid].nopen_legs() == 1 for nid in self.order)


def _check_state(ttns, centre, mode, ref, struct0, shapes0, what, strict=None):
    probs = []
    if dense.structure(ttns) != struct0:
        return [f"{what}: identifiers / parent-child relations changed"]
    wf = dense.well_formed(ttns)
    if wf:
        return [f"{what}: not well-formed: {wf[:2]}"]
    if ttns.orthogonality_center_id != centre:
        probs.append(f"{what}: recorded centre {ttns.orthogonality_center_id} != {centre}")
    v0, mult = ref.v0, ref.mult
    v = dense.ttns_vector(ttns, ref.order)
    if v.shape != v0.shape or not np.linalg.norm(v - v0) <= 1e-9 * mult * ref.vscale:
        probs.append(f"{what}: represented state changed (by {np.linalg.norm(v - v0):.3e}, norm {np.sqrt(ref.n2):.3e})"
                     if v.shape == v0.shape else f"{what}: open dimensions changed")
    for nid in ttns.nodes:
        if nid == centre:
            continue
        path = dense.path_between(ttns, nid, centre)
        m = dense.matricize_toward(ttns, nid, path[1])
        want_strict = (mode != "KEEP") if strict is None else strict.get(nid, False)
        if not want_strict:
            if not dense.is_partial_isometry(m, 1e-8 * mult):
                probs.append(f"{what}: node {nid} is not a partial isometry toward {centre}")
        else:
            if not dense.is_isometry(m, 1e-8 * mult):
                probs.append(f"{what}: node {nid} is not an isometry toward {centre}")
    if mode == "KEEP" and shapes0 is not None and c06._shape_map(ttns) != shapes0:
        probs.append(f"{what}: KEEP mode changed tensor shapes")
    n2 = ref.n2
    n2scale = max(n2, ref.vscale ** 2)
    # the consequence stated by the property, evaluated by the harness itself: norm of the centre tensor alone
    ct = ttns.tensors[centre]
    cn2 = float(np.vdot(ct, ct).real)
    if not abs(cn2 - n2) <= 1e-8 * mult * n2scale:
        probs.append(f"{what}: squared norm of the centre tensor {cn2} != squared norm of the state {n2}")
    if ref.one_open_each:           # TreeTensorNetworkState documents exactly one physical leg per node
        for flag in (True, False):
            try:
                sp = ttns.scalar_product(use_orthogonal_center=flag)
                if not abs(sp - n2) <= 1e-8 * mult * n2scale:
                    probs.append(f"{what}: scalar_product(use_orthogonal_center={flag}) = {sp} != {n2}")
            except Exception as e:      # noqa: BLE001
                probs.append(f"{what}: scalar_product(use_orthogonal_center={flag}) raised {type(e).__name__}: {e}")
        try:
            nr = ttns.norm()
            if not abs(nr - np.sqrt(n2)) <= 1e-8 * mult * np.sqrt(n2scale):
                probs.append(f"{what}: norm() = {nr} != {np.sqrt(n2)}")
        except Exception as e:          # noqa: BLE001
            probs.append(f"{what}: norm() raised {type(e).__name__}: {e}")
    return probs


def _canon_line(ttns, inv, centre):
    # model input must be read before the operation: distance table (dict order) and neighbour lists
    dist = ttns.distance_to_node(centre)
    nb = {nid: ([nd.parent] if nd.parent is not None else []) + list(nd.children) for nid, nd in ttns.nodes.items()}
    return "C03 canon " + " ".join(f"{inv[k]}:{d}" for k, d in dist.items()) + " | " + \
           " ".join(f"{inv[k]}:{','.join(str(inv[x]) for x in v)}" for k, v in nb.items())


def _canonicalise(ttns, entry, centre, mode, mode_name):
    """All public routes into `canonical_form`.  Returns the value the call returned."""
    from pytreenet.core.canonical_form import canonical_form as canonical_form_function
    if entry == "default" and mode_name == "REDUCED":
        return ttns.canonical_form(centre)                      # optional argument omitted
    if entry == "orthogonalize":
        return ttns.orthogonalize(centre, mode=mode) if mode_name != "REDUCED" else ttns.orthogonalize(centre)
    if entry == "function":
        return canonical_form_function(ttns, centre, mode)      # positional
    if entry == "ensure":
        return ttns.ensure_orth_center(centre, mode=mode)
    if entry == "ensure_root":
        return ttns.ensure_root_orth_center(mode=mode) if mode_name != "REDUCED" else ttns.ensure_root_orth_center()
    return ttns.canonical_form(centre, mode=mode)


def _run_impl(ctx, case, qlog):
    from pytreenet.util.tensor_splitting import SplitMode
    from pytreenet.core.canonical_form import split_qr_contract_r_to_neighbour
    rng, ttns, info = _make_state(case)
    names = info["names"]
    inv = {v: k for k, v in names.items()}
    n = len(case["par"])
    mode = getattr(SplitMode, case["mode"])
    order = sorted(ttns.nodes)
    ref = Ref(ttns, order)
    struct0 = dense.structure(ttns)
    shapes0 = c06._shape_map(ttns)
    redundant = any(__import__("harness.props.c05", fromlist=["x"])._redundant(ttns, nid) for nid in ttns.nodes)
    ctx.count(("canon", tuple(case["par"]), case["seed"], case["mode"]),
              nontrivial=(n >= 3 or redundant or case["deficient"]))
    ctx.tally("mode", case["mode"])
    ctx.tally("nodes", n)
    ctx.tally("redundant_bond", redundant)
    ctx.tally("rank_deficient", case["deficient"])
    ctx.tally("dtype", case.get("dtype", "complex"))
    entry = case.get("entry", "method")
    ctx.tally("entry_point", entry if not (entry == "default" and case["mode"] != "REDUCED") else "method")
    ctx.tally("identifiers", "prefix pool" if case.get("names") else "n<i>")
    ctx.tally("open_legs", case.get("opens", "one"))
    ctx.tally("norm_factor", f"{case['scale']:g}" if case.get("scale") else "1")
    ctx.tally("special_arrays", "+".join(k for k in ("zero", "readonly") if case.get(k)) or "-")
    ctx.sample(case, 3)
    arng = random.Random(case["seed"] ^ 0x1B873593)      # private stream of the audit operations
    centre = rng.choice(order)
    if entry == "ensure_root":
        centre = ttns.root_id
    out = []
    # value-level correspondence (integer states): the model evaluates the network as it is NOW
    vline = _model_value_line(ttns, order) if case.get("dtype") == "int" else None
    line = _canon_line(ttns, inv, centre)
    qlog.log.clear()
    try:
        ret = _canonicalise(ttns, entry, centre, mode, case["mode"])
    except Exception as e:          # noqa: BLE001
        ctx.oracle_fail(case, f"canonical_form({centre}, {case['mode']}) via {entry} raised {type(e).__name__}: {str(e)[:200]}")
        return None
    impl = ("ok " + " ".join(f"{inv[a]}>{inv[b]}" for a, b in qlog.log)).strip()
    out.append((line, impl))
    ctx.hyp_validated += len(qlog.log)
    probs = _check_state(ttns, centre, case["mode"], ref, struct0, shapes0, f"canonical_form at {centre} via {entry}")
    if entry in ("ensure", "ensure_root") and ret is not False:
        probs.append(f"{entry}: returned {ret!r} although {centre} was not the orthogonality centre before")
    cur = centre
    history_modes = [case["mode"]]
    # expected status per node: True = strict isometry, False = only a (zero-padded) partial isometry
    strict = {nid: case["mode"] != "KEEP" for nid in order}
    shapes_now = shapes0 if case["mode"] == "KEEP" else c06._shape_map(ttns)
    kinds_done = []
    for mv in range(case["moves"]):
        if probs:
            break
        new = rng.choice(order)
        op_mode_name = rng.choice(MODES) if case.get("mixed") else case["mode"]
        if case.get("mixed") and op_mode_name == "FULL":
            if sum(1 for m_ in history_modes if m_ == "FULL") >= 2:
                op_mode_name = "REDUCED"
        history_modes.append(op_mode_name)
        op_mode = getattr(SplitMode, op_mode_name)
        recanon = case.get("mixed") and rng.random() < 0.4
        kind = "recanon" if recanon else "move"
        if case.get("ops"):
            x = arng.random()
            if x < 0.12 and all(strict.values()):
                kind = "replace_centre"
            elif kind == "move" and x < 0.35:
                kind = "ensure"
            elif kind == "move" and x < 0.45:
                kind, new = "ensure_root", ttns.root_id
            elif kind == "move" and x < 0.60 and n > 1:
                kind = "direct"
                nd = ttns.nodes[cur]
                new = arng.choice(([nd.parent] if nd.parent is not None else []) + list(nd.children))
            elif kind == "move" and x < 0.75 and op_mode_name == "REDUCED":
                kind = "move_default"
        ctx.tally("operations", kind)
        kinds_done.append(kind)
        qlog.log.clear()
        if kind == "replace_centre":
            # what a time step does: the centre tensor is replaced (same shape); the other tensors stay isometries,
            # so afterwards the norm of the new centre tensor alone must still be the norm of the new state
            old = ttns.tensors[cur]
            nprng = np.random.default_rng(arng.randrange(10 ** 9))
            fresh = (nprng.standard_normal(old.shape) + 1j * nprng.standard_normal(old.shape)) * \
                (float(np.linalg.norm(old)) / max(np.sqrt(old.size), 1.0) or 1.0)
            if old.dtype in (np.float32, np.complex64):
                fresh = fresh.astype(np.complex64)
            try:
                if arng.random() < 0.5:
                    ttns.replace_tensor(cur, fresh)
                else:
                    ttns.tensors[cur] = fresh
            except Exception as e:      # noqa: BLE001
                probs.append(f"replacing the centre tensor raised {type(e).__name__}: {str(e)[:160]}")
                break
            ref.refresh(ttns)
            new, op_mode_name = cur, history_modes[-2] if len(history_modes) > 1 else case["mode"]
            history_modes[-1] = op_mode_name
            what = f"replacement of the centre tensor at {cur}"
            keep_shapes = None
        elif kind == "recanon":
            line = _canon_line(ttns, inv, new)
            try:
                _canonicalise(ttns, arng.choice(["method", "orthogonalize", "function"]) if case.get("ops") else "method",
                              new, op_mode, op_mode_name)
            except Exception as e:      # noqa: BLE001
                probs.append(f"canonical_form({new}, {op_mode_name}) on a canonical state raised {type(e).__name__}: {str(e)[:160]}")
                break
            impl = ("ok " + " ".join(f"{inv[a]}>{inv[b]}" for a, b in qlog.log)).strip()
            out.append((line, impl))
            strict = {nid: op_mode_name != "KEEP" for nid in order}
            what = f"re-canonicalisation at {new} in {op_mode_name}"
            keep_shapes = shapes_now if op_mode_name == "KEEP" else None
        else:
            path = dense.path_between(ttns, cur, new)
            try:
                if kind == "move_default":
                    ttns.move_orthogonalization_center(new)
                elif kind == "ensure":
                    ret = ttns.ensure_orth_center(new, mode=op_mode)
                    if ret is not (new == cur):
                        probs.append(f"ensure_orth_center({new}) returned {ret!r} with the centre at {cur}")
                elif kind == "ensure_root":
                    ret = ttns.ensure_root_orth_center(mode=op_mode)
                    if ret is not (new == cur):
                        probs.append(f"ensure_root_orth_center() returned {ret!r} with the centre at {cur}")
                elif kind == "direct":
                    split_qr_contract_r_to_neighbour(ttns, cur, new, mode=op_mode)
                    ttns.orthogonality_center_id = new          # as OneSiteTDVP / _move_orth_center_to_neighbour do
                else:
                    ttns.move_orthogonalization_center(new, mode=op_mode)
            except Exception as e:      # noqa: BLE001
                probs.append(f"{kind} {cur}->{new} raised {type(e).__name__}: {str(e)[:160]}")
                break
            impl = (f"{inv[ttns.orthogonality_center_id]} " + " ".join(f"{inv[a]}>{inv[b]}" for a, b in qlog.log)).strip()
            out.append(("C03 move " + " ".join(str(inv[p]) for p in path), impl))
            for nid in path[:-1]:
                strict[nid] = strict[nid] and False if op_mode_name == "KEEP" else True
            what = f"{kind} {cur}->{new} in {op_mode_name}"
            keep_shapes = shapes_now if op_mode_name == "KEEP" else None
        ctx.evaluations += 1
        ctx.hyp_validated += len(qlog.log)
        probs += _check_state(ttns, new, op_mode_name, ref, struct0, keep_shapes, what, strict=strict)
        shapes_now = c06._shape_map(ttns)
        cur = new
    if probs:
        ctx.oracle_fail(case, f"{case['mode']}: " + "; ".join(probs[:4]))
        return None
    if vline is not None and not any(k == "replace_centre" for k in kinds_done):
        # canonical_form and every later centre move / re-canonicalisation: the dense state AFTER all of them against the
        # model's exact value of the integer network BEFORE them (`canonical_form_value`, `move_centre_value`)
        ctx.tally("model_value", "compared")
        out.append((vline, ("value", dense.ttns_vector(ttns, order), ref.vscale,
                            f"canonical_form + {len(kinds_done)} operations")))
    elif case.get("dtype") == "int":
        ctx.tally("model_value", "skipped (not integer / too large / centre replaced)")
    return out


def shrink(case):
    from harness.props import c05
    yield from c05.shrink(case)
    if case["moves"] > 0:
        yield dict(case, moves=case["moves"] - 1)
    if case["deficient"]:
        yield dict(case, deficient=False)
