"""C03 — canonical form: isometries toward the centre, state unchanged, in every mode.

Stage B: the sequence of QR operations (node -> neighbour that absorbs R) of canonical_form and of centre
moves is compared exactly with the Lean model Ptn.C03 (split_node_qr is wrapped from outside).
Stage C: oracle on the network: dense state unchanged, recorded centre, identifiers/relations kept, every
non-centre tensor an isometry toward the centre (KEEP: partial isometry and all shapes unchanged), centre
norm = full norm via scalar_product(use_orthogonal_center=True/False) and norm().
"""
from __future__ import annotations

import random

import numpy as np

from harness import gen, dense
from harness.props import c06

RULE = ("cases: random trees 1..7 nodes (all ordered trees <= 5 nodes in the thorough tier), complex tensors with bonds "
        "from {1,2,3,5} (larger than the adjacent space, dimension 1), rank-deficient tensors, every mode "
        "(REDUCED, FULL, KEEP), random centre, then 0..6 centre moves. non-trivial = distinct case with >= 3 nodes "
        "or a redundant/rank-deficient bond")
PARTIAL = ["Q is an isometry and Q R = tensor is the contract of numpy.linalg.qr (validated on every resulting tensor)",
           "proved is the bookkeeping: which node is split toward which neighbour, for every distance table "
           "(canon_gauge, move_gauge) and, with C17's dist_table, for every well-formed tree and centre incl. completion "
           "(canon_gauge_tree); that the recorded tensors are isometries then follows from the QR contract and the "
           "composition lemmas (env_isometry_compose/kron, keep_mode_padding) - this last step is not formalised as one "
           "theorem about a tensor network, it is checked per node by the oracle",
           "state invariance (value level) is decided per input by the dense oracle"]
ASSUMPTIONS = ["numpy.linalg.qr contract", "dense contraction by tensordot over labelled legs"]

MODES = ["REDUCED", "FULL", "KEEP"]


def gen_cases(ctx):
    rng = ctx.rng
    cases = []
    if ctx.tier == "thorough":
        for n in range(1, 6):
            for par in gen.all_ordered_trees(n):
                for mode in MODES:
                    cases.append({"par": par, "seed": rng.randrange(10 ** 9), "mode": mode,
                                  "moves": 2, "deficient": False})
    for _ in range(ctx.n(400, 3000)):
        kind = rng.choice([None, None, "spider", "chain", "star"])
        n = rng.choice([3, 4, 5, 6, 7]) if kind else rng.choice([1, 2, 3, 4, 5, 6])
        mode = rng.choice(MODES)
        mixed = rng.random() < 0.5
        small = mode == "FULL" or mixed          # FULL multiplies bond dimensions along every path: keep it small
        if small:
            n = min(n, 4)
            kind = kind if kind in (None, "chain", "star") else None
        cases.append({"par": gen.random_parent_array(rng, n, kind), "seed": rng.randrange(10 ** 9),
                      "mode": mode, "moves": rng.randint(0, 3 if small else 6), "deficient": rng.random() < 0.3,
                      "small": small,
                      "mixed": mixed, "dtype": rng.choice(["complex", "complex", "float", "int"])})
    return cases


class QRLog:
    def __init__(self):
        self.log = []
        self._orig = None

    def install(self):
        from pytreenet.core.ttn import TreeTensorNetwork
        log = self.log
        self._orig = TreeTensorNetwork.split_node_qr
        orig = self._orig

        def wrapped(self_ttn, node_id, q_legs, r_legs, *a, **k):
            tgt = r_legs.parent_leg if r_legs.parent_leg is not None else (r_legs.child_legs[0] if r_legs.child_legs else None)
            log.append((node_id, tgt))
            return orig(self_ttn, node_id, q_legs, r_legs, *a, **k)
        TreeTensorNetwork.split_node_qr = wrapped

    def uninstall(self):
        from pytreenet.core.ttn import TreeTensorNetwork
        if self._orig is not None:
            TreeTensorNetwork.split_node_qr = self._orig


def run(ctx):
    qlog = QRLog()
    qlog.install()
    try:
        pend = []
        for c in gen_cases(ctx):
            if ctx.time_left() < 0:
                break
            o = _run_impl(ctx, c, qlog)
            if o:
                pend.append((c, o))
        lines, owners = [], []
        for c, o in pend:
            for ln, impl in o:
                lines.append(ln)
                owners.append((c, impl))
        for (c, impl), mo in zip(owners, ctx.lean.batch(lines)):
            ctx.corr_cases += 1
            if mo != impl:
                ctx.corr_fail(c, f"QR schedule: impl=[{impl}] model=[{mo}]")
    finally:
        qlog.uninstall()


def run_case(ctx, case):
    qlog = QRLog()
    qlog.install()
    try:
        o = _run_impl(ctx, case, qlog)
        if o:
            for (ln, impl), mo in zip(o, ctx.lean.batch([l for l, _ in o])):
                if mo != impl:
                    ctx.corr_fail(case, f"QR schedule: impl=[{impl}] model=[{mo}]")
    finally:
        qlog.uninstall()


def _make_state(case):
    rng = random.Random(case["seed"])
    nprng = np.random.default_rng(case["seed"])
    par = case["par"]
    if case.get("small") or case.get("mode") == "FULL":
        ttns, info = gen.random_ttns(rng, nprng, par, phys=(1, 2, 2), bonds=(1, 2, 2, 3))
    else:
        ttns, info = gen.random_ttns(rng, nprng, par, phys=(1, 2, 2, 3), bonds=(1, 2, 2, 3, 5))
    dt = case.get("dtype", "complex")
    if dt != "complex":
        # real / integer element types (hand-written basis or GHZ-like tensors are integer arrays)
        for nid in sorted(ttns.nodes):
            t = ttns.tensors[nid]
            if dt == "float":
                ttns.replace_tensor(nid, np.ascontiguousarray(t.real))
            else:
                ttns.replace_tensor(nid, np.rint(2 * t.real).astype(np.int64))
    if case["deficient"]:
        # make one tensor rank deficient along a random leg by projecting onto a 1-dim subspace
        nid = rng.choice(sorted(ttns.nodes))
        t = ttns.tensors[nid]
        k = rng.randrange(t.ndim)
        if t.shape[k] > 1:
            v = nprng.standard_normal(t.shape[k]) + 1j * nprng.standard_normal(t.shape[k])
            P = np.outer(v, v.conj()) / np.vdot(v, v)
            t2 = np.moveaxis(np.tensordot(t, P, axes=([k], [1])), -1, k)
            ttns.replace_tensor(nid, t2)
    return rng, ttns, info


def _check_state(ttns, centre, mode, v0, struct0, shapes0, order, what, strict=None):
    probs = []
    if dense.structure(ttns) != struct0:
        return [f"{what}: identifiers / parent-child relations changed"]
    wf = dense.well_formed(ttns)
    if wf:
        return [f"{what}: not well-formed: {wf[:2]}"]
    if ttns.orthogonality_center_id != centre:
        probs.append(f"{what}: recorded centre {ttns.orthogonality_center_id} != {centre}")
    v = dense.ttns_vector(ttns, order)
    scale = max(1.0, np.linalg.norm(v0))
    if v.shape != v0.shape or np.linalg.norm(v - v0) > 1e-9 * scale:
        probs.append(f"{what}: represented state changed")
    for nid in ttns.nodes:
        if nid == centre:
            continue
        path = dense.path_between(ttns, nid, centre)
        m = dense.matricize_toward(ttns, nid, path[1])
        want_strict = (mode != "KEEP") if strict is None else strict.get(nid, False)
        if not want_strict:
            if not dense.is_partial_isometry(m, 1e-8):
                probs.append(f"{what}: node {nid} is not a partial isometry toward {centre}")
        else:
            if not dense.is_isometry(m, 1e-8):
                probs.append(f"{what}: node {nid} is not an isometry toward {centre}")
    if mode == "KEEP" and shapes0 is not None and c06._shape_map(ttns) != shapes0:
        probs.append(f"{what}: KEEP mode changed tensor shapes")
    n2 = float(np.vdot(v0, v0).real)
    for flag in (True, False):
        try:
            sp = ttns.scalar_product(use_orthogonal_center=flag)
            if abs(sp - n2) > 1e-8 * max(1.0, n2):
                probs.append(f"{what}: scalar_product(use_orthogonal_center={flag}) = {sp} != {n2}")
        except Exception as e:      # noqa: BLE001
            probs.append(f"{what}: scalar_product(use_orthogonal_center={flag}) raised {type(e).__name__}: {e}")
    try:
        nr = ttns.norm()
        if abs(nr - np.sqrt(n2)) > 1e-8 * max(1.0, np.sqrt(n2)):
            probs.append(f"{what}: norm() = {nr} != {np.sqrt(n2)}")
    except Exception as e:          # noqa: BLE001
        probs.append(f"{what}: norm() raised {type(e).__name__}: {e}")
    return probs


def _run_impl(ctx, case, qlog):
    from pytreenet.util.tensor_splitting import SplitMode
    rng, ttns, info = _make_state(case)
    names = info["names"]
    inv = {v: k for k, v in names.items()}
    n = len(case["par"])
    mode = getattr(SplitMode, case["mode"])
    order = sorted(ttns.nodes)
    v0 = dense.ttns_vector(ttns, order)
    struct0 = dense.structure(ttns)
    shapes0 = c06._shape_map(ttns)
    redundant = any(__import__("harness.props.c05", fromlist=["x"])._redundant(ttns, nid) for nid in ttns.nodes)
    ctx.count(("canon", tuple(case["par"]), case["seed"], case["mode"]),
              nontrivial=(n >= 3 or redundant or case["deficient"]))
    ctx.tally("mode", case["mode"])
    ctx.tally("nodes", n)
    ctx.tally("redundant_bond", redundant)
    ctx.tally("rank_deficient", case["deficient"])
    ctx.tally("dtype", case.get("dtype", "complex"))
    ctx.sample(case, 3)
    centre = rng.choice(order)
    out = []
    # model input must be read before the operation: distance table (dict order) and neighbour lists
    dist = ttns.distance_to_node(centre)
    nb = {nid: ([nd.parent] if nd.parent is not None else []) + list(nd.children) for nid, nd in ttns.nodes.items()}
    line = "C03 canon " + " ".join(f"{inv[k]}:{d}" for k, d in dist.items()) + " | " + \
           " ".join(f"{inv[k]}:{','.join(str(inv[x]) for x in v)}" for k, v in nb.items())
    qlog.log.clear()
    try:
        ttns.canonical_form(centre, mode=mode)
    except Exception as e:          # noqa: BLE001
        ctx.oracle_fail(case, f"canonical_form({centre}, {case['mode']}) raised {type(e).__name__}: {str(e)[:200]}")
        return None
    impl = ("ok " + " ".join(f"{inv[a]}>{inv[b]}" for a, b in qlog.log)).strip()
    out.append((line, impl))
    ctx.hyp_validated += len(qlog.log)
    probs = _check_state(ttns, centre, case["mode"], v0, struct0, shapes0, order, f"canonical_form at {centre}")
    cur = centre
    history_modes = [case["mode"]]
    # expected status per node: True = strict isometry, False = only a (zero-padded) partial isometry
    strict = {nid: case["mode"] != "KEEP" for nid in order}
    shapes_now = shapes0 if case["mode"] == "KEEP" else c06._shape_map(ttns)
    for mv in range(case["moves"]):
        if probs:
            break
        new = rng.choice(order)
        op_mode_name = rng.choice(MODES) if case.get("mixed") else case["mode"]
        if case.get("mixed") and op_mode_name == "FULL":
            if sum(1 for m_ in history_modes if m_ == "FULL") >= 2:
                op_mode_name = "REDUCED"
        history_modes.append(op_mode_name)
        op_mode = getattr(SplitMode, op_mode_name)
        recanon = case.get("mixed") and rng.random() < 0.4
        qlog.log.clear()
        if recanon:
            dist = ttns.distance_to_node(new)
            nb = {nid: ([nd.parent] if nd.parent is not None else []) + list(nd.children)
                  for nid, nd in ttns.nodes.items()}
            line = "C03 canon " + " ".join(f"{inv[k]}:{d}" for k, d in dist.items()) + " | " + \
                   " ".join(f"{inv[k]}:{','.join(str(inv[x]) for x in v)}" for k, v in nb.items())
            try:
                ttns.canonical_form(new, mode=op_mode)
            except Exception as e:      # noqa: BLE001
                probs.append(f"canonical_form({new}, {op_mode_name}) on a canonical state raised {type(e).__name__}: {str(e)[:160]}")
                break
            impl = ("ok " + " ".join(f"{inv[a]}>{inv[b]}" for a, b in qlog.log)).strip()
            out.append((line, impl))
            strict = {nid: op_mode_name != "KEEP" for nid in order}
            what = f"re-canonicalisation at {new} in {op_mode_name}"
        else:
            path = dense.path_between(ttns, cur, new)
            try:
                ttns.move_orthogonalization_center(new, mode=op_mode)
            except Exception as e:      # noqa: BLE001
                probs.append(f"move {cur}->{new} raised {type(e).__name__}: {str(e)[:160]}")
                break
            impl = (f"{inv[ttns.orthogonality_center_id]} " + " ".join(f"{inv[a]}>{inv[b]}" for a, b in qlog.log)).strip()
            out.append(("C03 move " + " ".join(str(inv[p]) for p in path), impl))
            for nid in path[:-1]:
                strict[nid] = strict[nid] and False if op_mode_name == "KEEP" else True
            what = f"move {cur}->{new} in {op_mode_name}"
        ctx.evaluations += 1
        keep_shapes = shapes_now if op_mode_name == "KEEP" else None
        probs += _check_state(ttns, new, op_mode_name, v0, struct0, keep_shapes, order, what, strict=strict)
        shapes_now = c06._shape_map(ttns)
        cur = new
    if probs:
        ctx.oracle_fail(case, f"{case['mode']}: " + "; ".join(probs[:4]))
        return None
    return out


def shrink(case):
    from harness.props import c05
    yield from c05.shrink(case)
    if case["moves"] > 0:
        yield dict(case, moves=case["moves"] - 1)
    if case["deficient"]:
        yield dict(case, deficient=False)
