"""C02 - structural edits keep the network well-formed and its contraction unchanged.

Stage C (oracle, decides value-level clauses): random operation HISTORIES on small trees built through the
public API with shuffled insertion-time legs.  The harness keeps its own *expected state* (parent,
children, ordered list of open-leg labels per node) and advances it by the rules written in the
docstrings of `contract_nodes` / `split_nodes` (never by reading library results, except for child order
where the documentation is silent: there the set is compared and the order adopted).  After every
operation, on a deep copy (so the oracle never triggers the lazy transposition of the network under
test): `dense.well_formed`, structure == expected, recorded `node.shape` == shape of the accessed
tensor, and the independent dense contraction (`dense.ttn_dense`) equals the original tensor as a
*labelled* tensor (every open leg carries the label it had in the initial network).

Stage B (correspondence with the Lean model Ptn.C02):
  * `nodeseq`: random method sequences on a real `Node` linked to a tensor with pairwise distinct
    dimensions (so `node.shape` reveals the permutation) and on the model of the leg-permutation machine;
    permutation, parent, children compared after every call, exceptions included.
  * `hist`: the same histories as the oracle; the structural TTN model (parent / children / logical
    leg labels per node, driven through the model's Node machine exactly like ttn.py drives `Node`)
    must reproduce root, parents, exact child order, open-label order and shapes after every op.
  * `comp`: composite edits as the algorithms perform them - OneSiteTDVP._update_link (the real
    `_split_updated_site` on a stub + the documented contraction), TwoSiteTDVP._update_two_site_nodes
    (replayed call sequence), split_qr_contract_r_to_neighbour, canonical_form, contract_and_split_with_parent,
    truncate_node (= recursive_truncation between its canonicalisations) - in random order on one network.
    Oracle: identifiers, root, parents, children sets, open-leg counts and dimensions never change, the network
    stays well-formed; while all edits so far were exact (QR, untruncated SVD) the labelled dense contraction is
    the original tensor (so every node kept its open legs in order).  Correspondence: the model's composite
    operations (`link: twosite: move: csplit: rectrunc:` tokens of `C02 hist`) reproduce root, parents, exact
    child order, open labels and shapes after every edit, truncated ones included.
"""
from __future__ import annotations

import copy
import random
from typing import Any, Dict, List, Optional, Tuple

import numpy as np

from harness import gen, dense
from harness import common

RULE = ("hist cases: seed -> tree (<= 8 nodes, random shape, bonds/open dims from {1,2,3}, 0-3 open legs per "
        "node, insertion-time legs shuffled) and a history (quick <= 30, thorough <= 200 ops) drawn from the "
        "admissible set of the current state: contract_nodes (both argument orders; identifier default / "
        "either operand / fresh), split_node_qr / _svd(untruncated) / _replace with a random leg partition, "
        "parent or root on either side, identifier default / reuse / fresh, insert_identity, "
        "change_node_identifier, replace_tensor with a permutation, legs_before_combination + contract + "
        "split back, plain accesses, and a malformed stream (splits / contractions that would create a bond > 24 "
        "or an array > 40000 entries are not drawn). About 60 % of the histories carry the input-space audit options: "
        "split_node_qr in FULL / KEEP mode, split_node_svd with its default parameter object, split_nodes called "
        "directly with a contraction mode, contract_all_children, accesses through tensors.get / items / values and "
        "store-after-read, completely_contract_tree (deep copy and in place); real / integer / single-precision "
        "tensors, norms 1e-8 .. 1e8, a rank-deficient bond, read-only arrays, prefix-related identifiers, pre-linked "
        "Node objects, a root added with add_parent_to_root (oracle only). nodeseq cases: random Node method sequences. "
        "comp cases: seed -> tree (2-8 nodes) and 2-10 composite edits (link update, two-site update, centre move, "
        "canonical_form to a random centre, contract_and_split_with_parent, truncate_node; SVDs untruncated or cut to "
        "1 / 2) on random edges in both orientations; non-trivial = >= 3 different kinds and some child order changed. "
        "non-trivial = history with >= 3 different operation kinds in which some operand had a pending "
        "(non-identity) leg permutation or an identifier was reused; nodeseq with >= 3 different methods")
PARTIAL = [
    "value-level invariance is proved on valued networks (Ptn/C02/Value.lean: contract_nodes_value, split_nodes_value "
    "given an exact factorisation, replace_tensor_value, insert_identity_value, ops_preserve_value for arbitrary "
    "histories); that a run of the STRUCTURAL model induces these value-level steps is not a theorem: it is tied by "
    "the `value` stream (integer tensors: the structural model predicts the legs and their order, the Lean value model "
    "evaluates them, contract_nodes must agree exactly) and by the dense oracle; transpose / reshape semantics of NumPy "
    "are trusted",
    "QR / SVD factorisation contracts (Q.R = M, U.S.Vh = M untruncated) are external; validated on every live "
    "split by the dense comparison",
    "proved at the graph level (ops_preserve_wf: one root, symmetric links, tree, equal key sets, Node invariant, "
    "recorded shape = stored shape) and at the label level (ops_preserve_labels / built_networks_labels: the two "
    "ends of every bond carry the same label and dimension; contraction_labels_invariant: the open axes of the "
    "network after any history of edits are a permutation of the initial ones; per operation "
    "contract_nodes_labels, split_nodes_labels, insert_identity_labels, ...) for arbitrary admissible histories. "
    "Labels are ghost data of the model: what ties them to the library is the correspondence stage (open-label "
    "order and shapes after every op) and the dense oracle",
    "progress (admissible calls never raise) is proved for accesses, contract_nodes on adjacent nodes and "
    "split_nodes with leg specifications that partition the legs (admissible_never_errors, computable test "
    "admissibleB); for insert_identity, change_node_identifier, replace_tensor and add_child_to_parent the "
    "theorems have the form 'if the model call returns a network, ...'; the harness reports every exception "
    "on an admissible call",
    "child order after split_nodes / insert_identity is not documented: compared with the model "
    "(correspondence), not demanded by the oracle",
    "composite edits: proved on the model are well-formedness, label invariant, root, identifiers, parents, "
    "children (with the exact child order) and that every node keeps exactly its open axes - labels, order, "
    "dimensions (composite_edits_preserve_labels, recursive_truncation_preserves_labels, Ptn.C06.*_structure, "
    "Ptn.C10.*_structure); NOT modelled: the chosen bond dimensions, the order of the canonicalisation moves "
    "(passed in by the harness); the comp stream checks the model against the library (oracle + correspondence)",
    "behaviour on inadmissible arguments is only sampled by the malformed stream (must raise; network "
    "unchanged where the exception precedes every mutation)",
]
ASSUMPTIONS = ["copy.deepcopy of a TreeTensorNetwork is value-equal and alias-free (oracle observes a deep copy)",
               "identifiers are strings without the need of escaping; uuid1 identifiers are unique"]

MAX_NODES = 8
MAX_BOND = 24          # generation-time caps that keep the dense reference affordable in long histories
MAX_SIZE = 40000

# Families that are switched off because the UNCHANGED library fails them (possible genuine defects, reported to the
# coordinator; see notes/C02.md "Input-space audit").  key -> exact signature (inputs, message).
# Both defects the audit found here were repaired in /repo (known_findings.json: F-C02b contract_all_children with a
# fresh identifier on a node with >= 2 children, F-C02c add_parent_to_root with a node not yet linked to its
# tensor); the families are generated without restriction.
PENDING_FINDINGS = {}

NAME_POOL = ["n1", "n10", "n100", "n", "1", "10", "N1", "n 1", "n1_", "_n1", "n01", "out_of_n1", "in_of_n1", "ncontr"]


def audit_options(rng: random.Random, n: int) -> Dict[str, Any]:
    """Input-space audit (notes/C02.md): element type, magnitude, rank deficiency, read-only input arrays,
    identifiers that are prefixes / substrings of each other and of the default identifiers, a root that was put on
    top with add_parent_to_root."""
    r = random.Random(rng.randrange(10 ** 9))
    aud: Dict[str, Any] = {"ops": True}
    aud["dtype"] = r.choice(["complex", "complex", "complex", "float", "int", "float32", "complex64"])
    aud["scale"] = r.choice([None, None, None, 1e-8, 1e8, 1e-4, 1e4])
    aud["deficient"] = r.random() < 0.25
    aud["readonly"] = r.random() < 0.2
    aud["names"] = r.random() < 0.3
    aud["apr"] = n >= 2 and r.random() < 0.12
    aud["linked"] = r.random() < 0.3
    return aud


# ===================================================================== expected state (documented rules)

class Exp:
    """Expected structure + open-leg labels, advanced by the documented rules only."""

    def __init__(self):
        self.nodes: Dict[str, Dict[str, Any]] = {}
        self.root: Optional[str] = None

    def clone(self) -> "Exp":
        e = Exp()
        e.nodes = {k: {"parent": v["parent"], "children": list(v["children"]), "open": list(v["open"])}
                   for k, v in self.nodes.items()}
        e.root = self.root
        return e

    def nvirt(self, x: str) -> int:
        n = self.nodes[x]
        return (0 if n["parent"] is None else 1) + len(n["children"])

    def nlegs(self, x: str) -> int:
        return self.nvirt(x) + len(self.nodes[x]["open"])

    def neighbours(self, x: str) -> List[str]:
        n = self.nodes[x]
        return ([] if n["parent"] is None else [n["parent"]]) + list(n["children"])


def default_contract_id(a: str, b: str) -> str:
    return a + "contr" + b


def exp_contract(exp: Exp, a: str, b: str, new: str) -> None:
    """`(parent_parent_leg, node1_children_legs, node2_children_legs, node1_open_legs, node2_open_legs)`"""
    A, B = exp.nodes[a], exp.nodes[b]
    p = a if B["parent"] == a else b
    P = exp.nodes[p]
    children = [x for x in A["children"] if x != b] + [x for x in B["children"] if x != a]
    node = {"parent": P["parent"], "children": children, "open": A["open"] + B["open"]}
    gp = P["parent"]
    del exp.nodes[a]
    del exp.nodes[b]
    exp.nodes[new] = node
    for c in children:
        exp.nodes[c]["parent"] = new
    if gp is None:
        exp.root = new
    else:
        ch = exp.nodes[gp]["children"]
        ch[ch.index(p)] = new


def exp_split(exp: Exp, op: Dict[str, Any]) -> None:
    x = op["id"]
    X = exp.nodes[x]
    nv = exp.nvirt(x)
    out_id, in_id = op["out_id"], op["in_id"]
    out = {"parent": None, "children": list(op["out_ch"]), "open": [X["open"][i - nv] for i in op["out_open"]]}
    inn = {"parent": None, "children": list(op["in_ch"]), "open": [X["open"][i - nv] for i in op["in_open"]]}
    if op["keep"] == "out":
        out["parent"] = X["parent"]
        out["children"] = [in_id] + out["children"]       # position not documented: set is compared
        inn["parent"] = out_id
        keeper = out_id
    else:
        inn["parent"] = X["parent"]
        inn["children"] = [out_id] + inn["children"]
        out["parent"] = in_id
        keeper = in_id
    gp = X["parent"]
    del exp.nodes[x]
    exp.nodes[out_id] = out
    exp.nodes[in_id] = inn
    for c in op["out_ch"]:
        exp.nodes[c]["parent"] = out_id
    for c in op["in_ch"]:
        exp.nodes[c]["parent"] = in_id
    if gp is None:
        exp.root = keeper
    else:
        ch = exp.nodes[gp]["children"]
        ch[ch.index(x)] = keeper


def exp_insert_identity(exp: Exp, child: str, parent: str, new: str) -> None:
    exp.nodes[new] = {"parent": parent, "children": [child], "open": []}
    exp.nodes[child]["parent"] = new
    ch = exp.nodes[parent]["children"]
    ch[ch.index(child)] = new


def exp_rename(exp: Exp, old: str, new: str) -> None:
    if old == new:
        return
    node = exp.nodes.pop(old)
    exp.nodes[new] = node
    for c in node["children"]:
        exp.nodes[c]["parent"] = new
    if node["parent"] is None:
        exp.root = new
    else:
        ch = exp.nodes[node["parent"]]["children"]
        ch[ch.index(old)] = new


# ===================================================================== the world under test

class World:
    def __init__(self, case: Dict[str, Any]):
        import pytreenet as ptn
        seed = case["seed"]
        self.rng = random.Random(seed)
        self.nprng = np.random.default_rng(seed)
        n = case["n"]
        rng = self.rng
        self.aud = dict(case.get("aud") or {})
        self.arng = random.Random(seed ^ 0x3C6EF372)        # private stream of the audit options
        self.no_model = bool(self.aud.get("apr"))
        par = gen.random_parent_array(rng, n)
        if self.aud.get("apr"):
            # a tree whose root has exactly one child: the root will be added LAST, with add_parent_to_root
            par = [-1] + [0 if q == -1 else q + 1 for q in gen.random_parent_array(rng, n - 1)]
        bond = gen.random_bonds(rng, par, (1, 2, 2, 3))
        open_dims: Dict[int, List[int]] = {}
        total, count = 1, 0
        for i in range(n):
            k = rng.choice([0, 1, 1, 2, 3])
            if n == 1:
                k = max(k, 1)
            dims = []
            for _ in range(k):
                d = rng.choice([1, 2, 2, 3])
                if total * d <= 1500 and count < 8:
                    dims.append(d)
                    total *= d
                    count += 1
            open_dims[i] = dims
        self.par, self.bond, self.open_dims = par, bond, open_dims
        self.num: Dict[str, int] = {}      # identifier (alias) -> number used in the model protocol
        lab: Dict[Tuple[int, int], int] = {}
        for i in range(n):
            for k in range(len(open_dims[i])):
                lab[(i, k)] = len(lab)
        self.ttn, canon, attach, names, self.build_toks = self._build(par, bond, open_dims, lab)
        self.names = names
        # labels of open legs and the reference tensor (contracted from the canonical tensors only)
        self.label_dim = {lab[(i, k)]: open_dims[i][k] for (i, k) in lab}
        items = []
        for i in range(n):
            legs = []
            if par[i] >= 0:
                legs.append(("e", par[i], i))
            legs += [("e", i, c) for c in attach[i]]
            legs += [("o", lab[(i, k)]) for k in range(len(open_dims[i]))]
            items.append((canon[i], legs))
        arr, labels = dense.contract_labeled(items)
        order = sorted(range(len(labels)), key=lambda j: labels[j][1])
        self.T0 = np.transpose(arr, order) if order else np.asarray(arr)
        # scales for the tolerances: |T0| <= product of the tensor norms (exact cancellation can make it much smaller)
        self.prodnorm = float(np.prod([float(np.linalg.norm(canon[i])) for i in range(n)]))
        self.single = any(np.asarray(canon[i]).dtype in (np.float32, np.complex64) for i in range(n))
        self.exp = Exp()
        for i in range(n):
            self.exp.nodes[names[i]] = {"parent": names[par[i]] if par[i] >= 0 else None,
                                        "children": [names[c] for c in attach[i]],
                                        "open": [lab[(i, k)] for k in range(len(open_dims[i]))]}
        self.exp.root = names[par.index(-1)]
        self.real: Dict[str, str] = {}      # alias -> actual identifier (uuid-named nodes only)
        self.fresh = 0
        self.nuuid = 0

    def nid(self, name: str) -> int:
        if name not in self.num:
            self.num[name] = len(self.num) + 1
        return self.num[name]

    def _build(self, par, bond, open_dims, lab):
        """Same construction as gen.build_network (public add_root / add_child_to_parent with shuffled raw
        legs), but recording the protocol tokens for the model (axes = label.dim of the raw tensor)."""
        import pytreenet as ptn
        rng, nprng = self.rng, self.nprng
        n = len(par)
        names = {i: gen.node_name(i) for i in range(n)}
        aud = self.aud
        if aud.get("names"):
            names = dict(enumerate(self.arng.sample(NAME_POOL, n)))
        order = gen.insertion_order(rng, par)
        apr = bool(aud.get("apr"))
        if apr:
            order = [x for x in order if x != 0] + [0]
        deficient_node = self.arng.choice([x for x in range(n) if par[x] >= 0]) if (aud.get("deficient") and n > 1) else None
        attach: Dict[int, List[int]] = {i: [] for i in range(n)}
        for x in order:
            if par[x] >= 0:
                attach[par[x]].append(x)
        ttn = ptn.TreeTensorNetwork()
        canon: Dict[int, np.ndarray] = {}
        cur: Dict[int, List[Any]] = {}
        nvirt: Dict[int, int] = {}
        toks: List[str] = []
        for x in order:
            legs: List[Any] = ([("p",)] if par[x] >= 0 else []) + [("c", c) for c in attach[x]] + \
                [("o", k) for k in range(len(open_dims[x]))]

            def dim_of(l):
                return bond[(par[x], x)] if l[0] == "p" else (bond[(x, l[1])] if l[0] == "c" else open_dims[x][l[1]])

            def lab_of(l):
                return 1000 + x if l[0] == "p" else (1000 + l[1] if l[0] == "c" else lab[(x, l[1])])
            dims = [dim_of(l) for l in legs]
            t = gen.rand_tensor(nprng, dims, True, False) if dims else np.array(complex(nprng.standard_normal(),
                                                                                    nprng.standard_normal()))
            t = self._audit_tensor(t, x == deficient_node, n)
            canon[x] = t
            virt = [l for l in legs if l[0] != "o"]
            opens = [l for l in legs if l[0] == "o"]
            rng.shuffle(virt)
            slots = ["v"] * len(virt) + ["o"] * len(opens)
            rng.shuffle(slots)
            vi, oi = iter(virt), iter(opens)
            raw_order = [next(vi) if sl == "v" else next(oi) for sl in slots]
            raw_t = np.transpose(t, [legs.index(l) for l in raw_order]) if legs else t
            if aud.get("readonly"):
                t.flags.writeable = False           # the owner of the data: every view of it is read-only as well
                raw_t = np.transpose(t, [legs.index(l) for l in raw_order]) if legs else t
            axes = ",".join(f"{lab_of(l)}.{dim_of(l)}" for l in raw_order) if raw_order else "-"
            if aud.get("linked"):
                # a Node already linked to its tensor (as tests/ and the state generators of the library build them)
                node = ptn.Node(tensor=raw_t, identifier=names[x])
            else:
                node = ptn.Node(identifier=names[x])
            cur[x] = list(raw_order)
            nvirt[x] = 0
            if apr and x == 0:
                # the root comes last: add_parent_to_root(root_leg, parent, tensor, parent_leg)
                c = attach[0][0]
                ttn.add_parent_to_root(cur[c].index(("p",)), node, raw_t, cur[0].index(("c", c)))
                toks.append("apr")
            elif par[x] < 0 or (apr and par[x] == 0):
                ttn.add_root(node, raw_t)
                toks.append(f"root:{self.nid(names[x])}:{axes}")
            else:
                p = par[x]
                child_leg = cur[x].index(("p",))
                parent_leg = cur[p].index(("c", x))
                ttn.add_child_to_parent(node, raw_t, child_leg, names[p], parent_leg)
                toks.append(f"child:{self.nid(names[x])}:{axes}:{child_leg}:{self.nid(names[p])}:{parent_leg}")
                cur[p].remove(("c", x))
                cur[p].insert(nvirt[p], ("c", x))
                nvirt[p] += 1
                cur[x].remove(("p",))
                cur[x].insert(0, ("p",))
                nvirt[x] = 1
        return ttn, canon, attach, names, toks

    def _audit_tensor(self, t: np.ndarray, deficient: bool, n: int) -> np.ndarray:
        aud = self.aud
        if not aud:
            return t
        if deficient and t.ndim and t.shape[0] > 1:
            t = np.array(t, copy=True)
            t[1:] = t[:1] * np.arange(2, t.shape[0] + 1).reshape([-1] + [1] * (t.ndim - 1))   # rank 1 across the bond
        dt = aud.get("dtype", "complex")
        if dt == "float":
            t = np.ascontiguousarray(t.real)
        elif dt == "int":
            t = np.rint(2 * t.real).astype(np.int64)
            if t.size and not t.any():
                t.reshape(-1)[0] = 1            # (an all-zero tensor cannot be split without truncation: see C10 / C11)
        elif dt == "float32":
            t = t.real.astype(np.float32)
        elif dt == "complex64":
            t = t.astype(np.complex64)
        if aud.get("scale") and t.dtype.kind in "fc":
            t = (t * aud["scale"] ** (1.0 / n)).astype(t.dtype)
        return t

    # ---- name translation (uuid identifiers get the stable alias @u<k>)
    def rid(self, name: Optional[str]) -> Optional[str]:
        if name is None:
            return None
        return self.real.get(name, name)

    def alias(self, ident: Optional[str]) -> Optional[str]:
        if ident is None:
            return None
        for k, v in self.real.items():
            if v == ident:
                return k
        return ident

    def actual_structure(self, ttn=None) -> Dict[str, Any]:
        ttn = ttn or self.ttn
        return {"root": self.alias(ttn.root_id),
                "nodes": {self.alias(i): {"parent": self.alias(n.parent),
                                          "children": [self.alias(c) for c in n.children]}
                          for i, n in ttn.nodes.items()}}


# ===================================================================== state check (oracle)

def check_state(w: World, ordered: Optional[List[str]] = None) -> List[str]:
    """All clauses of the property on the present state. `ordered`: nodes whose child order is documented."""
    probs: List[str] = []
    ttn, exp = w.ttn, w.exp
    act = w.actual_structure()
    if set(act["nodes"]) != set(exp.nodes):
        return [f"node set {sorted(act['nodes'])} expected {sorted(exp.nodes)}"]
    if set(ttn.nodes.keys()) != set(ttn.tensors.keys()):
        return [f"node keys {sorted(ttn.nodes.keys())} != tensor keys {sorted(ttn.tensors.keys())}"]
    if act["root"] != exp.root:
        probs.append(f"root_id {act['root']} expected {exp.root}")
    for x, e in exp.nodes.items():
        a = act["nodes"][x]
        if a["parent"] != e["parent"]:
            probs.append(f"{x}: parent {a['parent']} expected {e['parent']}")
        if sorted(a["children"]) != sorted(e["children"]):
            probs.append(f"{x}: children {a['children']} expected {e['children']}")
        elif ordered and x in ordered and a["children"] != e["children"]:
            probs.append(f"{x}: child order {a['children']} but the documented order is {e['children']}")
    if probs:
        return probs
    for x, e in exp.nodes.items():          # adopt the order where the documentation is silent
        e["children"] = list(act["nodes"][x]["children"])
    shapes_before = {i: (None if n.shape is None else tuple(n.shape)) for i, n in ttn.nodes.items()}
    nlegs_before = {i: n.nlegs() for i, n in ttn.nodes.items()}
    snap = copy.deepcopy(ttn)
    wf = dense.well_formed(snap)
    if wf:
        return ["not well-formed: " + "; ".join(wf[:3])]
    for x, e in exp.nodes.items():
        i = w.rid(x)
        t = snap.tensors[i]
        if shapes_before[i] != tuple(t.shape):
            probs.append(f"{x}: recorded shape {shapes_before[i]} but the accessed tensor has shape {t.shape}")
        if nlegs_before[i] - exp.nvirt(x) != len(e["open"]):
            probs.append(f"{x}: {nlegs_before[i] - exp.nvirt(x)} open legs, expected {len(e['open'])}")
    if probs:
        return probs
    ids = list(snap.nodes.keys())
    try:
        arr, want = dense.ttn_dense(snap, order=ids)
    except Exception as exc:   # noqa: BLE001
        return [f"dense contraction impossible: {type(exc).__name__}: {exc}"]
    labels = [exp.nodes[w.alias(l[2])]["open"][l[3]] for l in want]
    if sorted(labels) != list(range(w.T0.ndim)):
        return [f"open-leg labels {labels} are not a permutation of the original legs"]
    order = sorted(range(len(labels)), key=lambda j: labels[j])
    arr = np.transpose(arr, order) if order else np.asarray(arr)
    if arr.shape != w.T0.shape:
        return [f"contraction has shape {arr.shape} in label order, original {w.T0.shape}: "
                f"an open leg is not where the documented rule places it"]
    # relative to the data: the largest entry of the original tensor, but never less than 1e-4 of the product of the
    # tensor norms (what round-off is relative to when the contraction cancels, e.g. for integer tensors)
    scale = max(float(np.max(np.abs(w.T0))) if w.T0.size else 1.0, 1e-4 * w.prodnorm, 1e-300)
    err = float(np.max(np.abs(arr - w.T0))) if w.T0.size else 0.0
    if not err <= 1e-8 * (1e5 if w.single else 1.0) * scale:
        return [f"contraction differs from the original tensor (max abs err {err:.3g}, scale {scale:.3g}): "
                f"values changed or an open leg is misplaced"]
    return []


def observable_equal(w: World, before_struct, before_shapes) -> List[str]:
    """Used by the malformed stream: structure and recorded shapes as before."""
    probs = []
    act = w.actual_structure()
    if act != before_struct:
        probs.append("structure changed by a call that raised")
    shapes = {i: tuple(n.shape) for i, n in w.ttn.nodes.items()}
    if shapes != before_shapes:
        probs.append("recorded shapes changed by a call that raised")
    return probs


# ===================================================================== op generation

def fresh_name(w: World, rng: random.Random) -> str:
    while True:
        w.fresh += 1
        nm = rng.choice(["f", "q", "node_", "n"]) + str(w.fresh + 100)
        if nm not in w.exp.nodes:
            return nm


def gen_split(w: World, rng: random.Random, x: str, how: Optional[str] = None) -> Optional[Dict[str, Any]]:
    exp = w.exp
    X = exp.nodes[x]
    nv = exp.nvirt(x)
    ch = list(X["children"])
    rng.shuffle(ch)
    k = rng.randint(0, len(ch))
    out_ch, in_ch = ch[:k], ch[k:]
    op_idx = list(range(nv, exp.nlegs(x)))
    rng.shuffle(op_idx)
    k = rng.randint(0, len(op_idx))
    out_open, in_open = op_idx[:k], op_idx[k:]
    keep = rng.choice(["out", "in"])
    how = how or rng.choice(["qr", "qr", "svd", "replace"])
    modes = ["default", "reuse", "fresh"]
    om = rng.choice(modes)
    im = rng.choice(["default", "fresh"] if om == "reuse" else modes)

    def pick(mode, prefix):
        if mode == "default":
            return prefix + x
        if mode == "reuse":
            return x
        return fresh_name(w, rng)
    if how == "replace":           # identifiers are mandatory arguments there
        om = "fresh" if om == "default" else om
        im = "fresh" if im == "default" else im
    out_id, in_id = pick(om, "out_of_"), pick(im, "in_of_")
    others = set(exp.nodes) - {x}
    if out_id in others or in_id in others or out_id == in_id:
        return None
    # keep arrays small: long histories must not blow up bond dimensions (generation-time only)
    repl = rng.choice(["ia", "ib", "qr"])
    shape = list(w.ttn.nodes[w.rid(x)].shape)
    par = X["parent"]
    off = 0 if par is None else 1
    chs = X["children"]
    rows = int(np.prod(([shape[0]] if (par is not None and keep == "out") else []) +
                       [shape[off + chs.index(c)] for c in out_ch] + [shape[l] for l in out_open], dtype=int))
    cols = int(np.prod(([shape[0]] if (par is not None and keep == "in") else []) +
                       [shape[off + chs.index(c)] for c in in_ch] + [shape[l] for l in in_open], dtype=int))
    if how == "replace" and {"ia": rows, "ib": cols, "qr": min(rows, cols)}[repl] > MAX_BOND:
        repl = "qr"
    bond_dim = {"ia": rows, "ib": cols, "qr": min(rows, cols)}[repl] if how == "replace" else min(rows, cols)
    variant = None
    if w.aud.get("ops") and how == "qr":
        # the optional `mode` of split_node_qr: FULL (bond = rows) and KEEP (bond = columns; needs a leg on the R side)
        in_has_leg = bool(in_ch or in_open or (par is not None and keep == "in"))
        variant = rng.choice(["reduced", "reduced_kw", "full", "keep" if in_has_leg else "full"])
        bond_dim = {"full": rows, "keep": cols}.get(variant, bond_dim)
    elif w.aud.get("ops") and how == "svd":
        # svd_params omitted (documented default object), or split_nodes called directly with the splitting function
        # and the contraction mode as keyword arguments
        variant = rng.choice(["untruncated", "default", "direct:vcontr", "direct:ucontr", "direct:equal"])
    if bond_dim > MAX_BOND or rows * bond_dim > MAX_SIZE or cols * bond_dim > MAX_SIZE:
        return None
    op = {"op": "split", "how": how, "id": x, "out_ch": out_ch, "in_ch": in_ch, "out_open": out_open,
          "in_open": in_open, "keep": keep, "out_mode": om, "in_mode": im, "out_id": out_id, "in_id": in_id,
          "pass_node": rng.random() < 0.4, "repl": repl}
    if variant:
        op["variant"] = variant
    return op


def gen_contract(w: World, rng: random.Random) -> Optional[Dict[str, Any]]:
    exp = w.exp
    edges = [(n["parent"], x) for x, n in exp.nodes.items() if n["parent"] is not None]
    if not edges:
        return None
    p, c = rng.choice(edges)
    a, b = (p, c) if rng.random() < 0.5 else (c, p)
    mode = rng.choice(["default", "a", "b", "fresh"])
    new = {"default": default_contract_id(a, b), "a": a, "b": b}.get(mode) or fresh_name(w, rng)
    if new in set(exp.nodes) - {a, b}:
        return None
    sa = list(w.ttn.nodes[w.rid(p)].shape)
    sb = list(w.ttn.nodes[w.rid(c)].shape)
    d = sb[0] if sb else 1
    if int(np.prod(sa, dtype=int)) * int(np.prod(sb, dtype=int)) // max(d * d, 1) > MAX_SIZE:
        return None
    return {"op": "contract", "a": a, "b": b, "mode": mode, "new": new}


def gen_op(w: World, rng: random.Random, bad_rate: float = 0.08) -> Optional[Dict[str, Any]]:
    exp = w.exp
    n = len(exp.nodes)
    names = list(exp.nodes)
    if rng.random() < bad_rate:
        return gen_bad(w, rng)
    kinds = [("access", 2.0), ("rename", 1.0), ("replace_tensor", 1.2)]
    if n >= 2:
        kinds.append(("contract", 3.0 if n < 7 else 6.0))
        kinds.append(("csb", 1.0))
    if n < MAX_NODES:
        kinds.append(("split", 3.5 if n > 2 else 6.0))
        if n >= 2:
            kinds.append(("insert_identity", 0.8))
    if w.aud.get("ops"):
        if n >= 2:
            kinds.append(("cac", 1.0))
        kinds.append(("cct", 0.4))
    tot = sum(wt for _, wt in kinds)
    r = rng.random() * tot
    for kind, wt in kinds:
        r -= wt
        if r <= 0:
            break
    if kind == "access":
        vias = ["tensors", "ttn", "root"] + (["get", "items", "values", "store"] if w.aud.get("ops") else [])
        return {"op": "access", "id": rng.choice(names), "via": rng.choice(vias)}
    if kind == "cac":
        cands = [x for x in names if exp.nodes[x]["children"]]
        if not cands:
            return None
        x = rng.choice(cands)
        mode = rng.choice(["default", "own", "fresh"])
        if mode == "fresh" and len(exp.nodes[x]["children"]) >= 2 and "contract_all_children_fresh_id" in PENDING_FINDINGS:
            mode = "default"
        size = int(np.prod(w.ttn.nodes[w.rid(x)].shape, dtype=int))
        for c in exp.nodes[x]["children"]:
            sc = list(w.ttn.nodes[w.rid(c)].shape)
            size = size * int(np.prod(sc, dtype=int)) // max(sc[0] * sc[0], 1)
        if size > MAX_SIZE:
            return None
        return {"op": "cac", "id": x, "mode": mode, "new": fresh_name(w, rng) if mode == "fresh" else x}
    if kind == "cct":
        return {"op": "cct", "inplace": rng.random() < 0.25, "method": rng.random() < 0.5}
    if kind == "rename":
        old = rng.choice(names)
        new = old if rng.random() < 0.1 else fresh_name(w, rng)
        return {"op": "rename", "old": old, "new": new}
    if kind == "replace_tensor":
        x = rng.choice(names)
        nl = exp.nlegs(x)
        perm = list(range(nl))
        rng.shuffle(perm)
        return {"op": "replace_tensor", "id": x, "perm": None if rng.random() < 0.2 else perm,
                "tuple": rng.random() < 0.3}
    if kind == "contract":
        return gen_contract(w, rng)
    if kind == "csb":
        c = gen_contract(w, rng)
        if c is None:
            return None
        return {"op": "csb", "a": c["a"], "b": c["b"], "mode": c["mode"], "new": c["new"],
                "swap": rng.random() < 0.5, "how": rng.choice(["qr", "svd"])}
    if kind == "split":
        return gen_split(w, rng, rng.choice(names))
    if kind == "insert_identity":
        edges = [(n_["parent"], x) for x, n_ in exp.nodes.items() if n_["parent"] is not None]
        p, c = rng.choice(edges)
        new = None if rng.random() < 0.3 else fresh_name(w, rng)
        return {"op": "insert_identity", "child": c, "parent": p, "new": new}
    return None


def gen_bad(w: World, rng: random.Random) -> Optional[Dict[str, Any]]:
    exp = w.exp
    names = list(exp.nodes)
    # Only calls whose rejection the library promises by an explicit check of its own at that level
    # (NoConnectionException for non-neighbours, ValueError for an identifier in use, NotCompatibleException for a
    # tensor / leg that does not fit, the adjacency assertion of insert_identity).  Leg specifications that name an
    # open leg twice or not at all are outside the documented domain without a promised reaction (today an assertion
    # deep inside tensor_matricization fires): they are no longer generated (old replays still run them).
    what = rng.choice(["contract_nn", "split_nonneighbour", "rename_dup",
                       "replace_shape", "identity_nonedge", "add_child_dup", "add_child_dim"])
    if what == "contract_nn":
        pairs = [(a, b) for a in names for b in names
                 if a != b and exp.nodes[a]["parent"] != b and exp.nodes[b]["parent"] != a]
        if not pairs:
            return None
        a, b = rng.choice(pairs)
        return {"op": "bad", "what": what, "a": a, "b": b}
    if what in ("split_nonneighbour", "split_dupleg", "split_missingleg"):
        x = rng.choice(names)
        s = gen_split(w, rng, x, how=rng.choice(["qr", "svd"]))
        if s is None:
            return None
        if what == "split_nonneighbour":
            cand = [y for y in names if y != x and y not in exp.neighbours(x)] + ["no_such_node"]
            s[rng.choice(["out_ch", "in_ch"])].append(rng.choice(cand))
        elif what == "split_dupleg":
            legs = s["out_open"] + s["in_open"]
            if not legs:
                return None
            s[rng.choice(["out_open", "in_open"])].append(rng.choice(legs))
        else:
            side = rng.choice(["out_open", "in_open"])
            if not s[side]:
                return None
            s[side].pop(rng.randrange(len(s[side])))
        s["op"], s["what"] = "bad", what
        return s
    if what == "rename_dup":
        if len(names) < 2:
            return None
        old, new = rng.sample(names, 2)
        return {"op": "bad", "what": what, "old": old, "new": new}
    if what == "replace_shape":
        return {"op": "bad", "what": what, "id": rng.choice(names)}
    if what == "identity_nonedge":
        pairs = [(c, p) for c in names for p in names if c != p and exp.nodes[c]["parent"] != p]
        if not pairs:
            return None
        c, p = rng.choice(pairs)
        return {"op": "bad", "what": what, "child": c, "parent": p}
    if what in ("add_child_dup", "add_child_dim"):
        cands = [x for x in names if exp.nodes[x]["open"]]
        if not cands:
            return None
        x = rng.choice(cands)
        return {"op": "bad", "what": what, "parent": x, "leg": exp.nvirt(x) + rng.randrange(len(exp.nodes[x]["open"])),
                "dup": rng.choice(names)}
    return None


# ===================================================================== admissibility (for shrunk replays)

def admissible(w: World, op: Dict[str, Any]) -> bool:
    exp = w.exp
    N = exp.nodes
    k = op["op"]
    try:
        if k == "access":
            return op["id"] in N
        if k == "rename":
            return op["old"] in N and (op["new"] == op["old"] or op["new"] not in N)
        if k == "replace_tensor":
            return op["id"] in N and (op["perm"] is None or sorted(op["perm"]) == list(range(exp.nlegs(op["id"]))))
        if k in ("contract", "csb"):
            a, b = op["a"], op["b"]
            if a not in N or b not in N or a == b:
                return False
            if N[a]["parent"] != b and N[b]["parent"] != a:
                return False
            want = {"default": default_contract_id(a, b), "a": a, "b": b}.get(op["mode"], op["new"])
            if want != op["new"]:
                return False
            if op["new"] in set(N) - {a, b}:
                return False
            if k == "csb" and len(N) >= MAX_NODES + 1:
                return False
            return True
        if k == "split":
            x = op["id"]
            if x not in N or len(N) >= MAX_NODES:
                return False
            if sorted(op["out_ch"] + op["in_ch"]) != sorted(N[x]["children"]):
                return False
            if sorted(op["out_open"] + op["in_open"]) != list(range(exp.nvirt(x), exp.nlegs(x))):
                return False
            for mode, ident, prefix in ((op["out_mode"], op["out_id"], "out_of_"), (op["in_mode"], op["in_id"], "in_of_")):
                if mode == "default" and ident != prefix + x:
                    return False
                if mode == "reuse" and ident != x:
                    return False
            others = set(N) - {x}
            return op["out_id"] not in others and op["in_id"] not in others and op["out_id"] != op["in_id"]
        if k == "cac":
            x = op["id"]
            if x not in N or not N[x]["children"]:
                return False
            if op["mode"] == "fresh":
                if op["new"] in N:
                    return False
                if len(N[x]["children"]) >= 2 and "contract_all_children_fresh_id" in PENDING_FINDINGS:
                    return False
                return True
            return op["new"] == x
        if k == "cct":
            return True
        if k == "insert_identity":
            return (op["child"] in N and N[op["child"]]["parent"] == op["parent"] and len(N) < MAX_NODES
                    and (op["new"] is None or op["new"] not in N))
        if k == "bad":
            return bad_applicable(w, op)
    except (KeyError, TypeError, ValueError):
        return False
    return False


def bad_applicable(w: World, op: Dict[str, Any]) -> bool:
    exp = w.exp
    N = exp.nodes
    what = op["what"]
    if what == "contract_nn":
        a, b = op["a"], op["b"]
        return a in N and b in N and a != b and N[a]["parent"] != b and N[b]["parent"] != a
    if what.startswith("split_"):
        x = op["id"]
        if x not in N:
            return False
        ch, legs = op["out_ch"] + op["in_ch"], op["out_open"] + op["in_open"]
        ok_ch = sorted(ch) == sorted(N[x]["children"])
        ok_legs = sorted(legs) == list(range(exp.nvirt(x), exp.nlegs(x)))
        if what == "split_nonneighbour":
            return any(c not in exp.neighbours(x) for c in ch)
        return ok_ch and not ok_legs and all(exp.nvirt(x) <= l < exp.nlegs(x) for l in legs)
    if what == "rename_dup":
        return op["old"] in N and op["new"] in N and op["old"] != op["new"]
    if what == "replace_shape":
        return op["id"] in N
    if what == "identity_nonedge":
        c, p = op["child"], op["parent"]
        return c in N and p in N and c != p and N[c]["parent"] != p
    if what in ("add_child_dup", "add_child_dim"):
        x = op["parent"]
        return x in N and op["dup"] in N and exp.nvirt(x) <= op["leg"] < exp.nlegs(x)
    return False


# ===================================================================== executing one op on the library

def untruncated():
    from pytreenet.util.tensor_splitting import SVDParameters
    return SVDParameters(max_bond_dim=float("inf"), rel_tol=float("-inf"), total_tol=float("-inf"))


def make_specs(w: World, op: Dict[str, Any]):
    from pytreenet.core.leg_specification import LegSpecification
    exp = w.exp
    x = op["id"]
    par = exp.nodes[x]["parent"] if x in exp.nodes else None
    node = w.ttn.nodes[w.rid(x)] if op.get("pass_node") else None
    out_par = w.rid(par) if (par is not None and op["keep"] == "out") else None
    in_par = w.rid(par) if (par is not None and op["keep"] == "in") else None
    out = LegSpecification(out_par, [w.rid(c) for c in op["out_ch"]], list(op["out_open"]), node=node,
                           is_root=(par is None and op["keep"] == "out"))
    inn = LegSpecification(in_par, [w.rid(c) for c in op["in_ch"]], list(op["in_open"]), node=node,
                           is_root=(par is None and op["keep"] == "in"))
    return out, inn


def factor_for_replace(w: World, op: Dict[str, Any]):
    """Own exact factorisation A.B of the current tensor for split_node_replace (read from a deep copy)."""
    exp = w.exp
    x = op["id"]
    snap = copy.deepcopy(w.ttn)
    t = snap.tensors[w.rid(x)]
    node = snap.nodes[w.rid(x)]
    par = exp.nodes[x]["parent"]

    def legs(side_ch, side_open, has_parent):
        res = [0] if has_parent else []
        res += [node.neighbour_index(w.rid(c)) for c in side_ch]
        return res + list(side_open)
    ol = legs(op["out_ch"], op["out_open"], par is not None and op["keep"] == "out")
    il = legs(op["in_ch"], op["in_open"], par is not None and op["keep"] == "in")
    m = np.transpose(t, ol + il) if t.ndim else t
    oshape = [t.shape[i] for i in ol]
    ishape = [t.shape[i] for i in il]
    r, c = int(np.prod(oshape, dtype=int)), int(np.prod(ishape, dtype=int))
    m = np.reshape(m, (r, c))
    how = op["repl"]
    if how == "ia":
        a, b = np.eye(r, dtype=m.dtype), m
    elif how == "ib":
        a, b = m, np.eye(c, dtype=m.dtype)
    else:
        a, b = np.linalg.qr(m)
    return a.reshape(oshape + [a.shape[1]]), b.reshape([b.shape[0]] + ishape)


def do_split(w: World, op: Dict[str, Any], how: Optional[str] = None):
    how = how or op["how"]
    out, inn = make_specs(w, op)
    x = w.rid(op["id"])
    def ident(mode, name, prefix):
        if mode == "reuse":
            return x
        if mode == "default":
            return prefix + x
        return name
    oid = "" if op["out_mode"] == "default" else ident(op["out_mode"], op["out_id"], "")
    iid = "" if op["in_mode"] == "default" else ident(op["in_mode"], op["in_id"], "")
    variant = op.get("variant")
    if how == "qr":
        from pytreenet.util.tensor_splitting import SplitMode
        if variant in (None, "reduced"):
            w.ttn.split_node_qr(x, out, inn, q_identifier=oid, r_identifier=iid)
        else:
            md = {"reduced_kw": SplitMode.REDUCED, "full": SplitMode.FULL, "keep": SplitMode.KEEP}[variant]
            w.ttn.split_node_qr(x, out, inn, q_identifier=oid, r_identifier=iid, mode=md)
    elif how == "svd":
        from pytreenet.util.tensor_splitting import contr_truncated_svd_splitting, ContractionMode
        if variant == "default":
            w.ttn.split_node_svd(x, out, inn, u_identifier=oid, v_identifier=iid)
        elif variant and variant.startswith("direct:"):
            cm = {"vcontr": ContractionMode.VCONTR, "ucontr": ContractionMode.UCONTR,
                  "equal": ContractionMode.EQUAL}[variant.split(":")[1]]
            w.ttn.split_nodes(x, out, inn, contr_truncated_svd_splitting, oid, iid,
                              contr_mode=cm, svd_params=untruncated())
        else:
            w.ttn.split_node_svd(x, out, inn, u_identifier=oid, v_identifier=iid, svd_params=untruncated())
    else:
        a, b = factor_for_replace(w, op)
        w.ttn.split_node_replace(x, a, b, ident(op["out_mode"], op["out_id"], "out_of_"),
                                 ident(op["in_mode"], op["in_id"], "in_of_"), out, inn)


def lazy_pending(w: World, names: List[str]) -> bool:
    for x in names:
        n = w.ttn.nodes.get(w.rid(x))
        if n is not None and n.leg_permutation is not None and list(n.leg_permutation) != list(range(len(n.leg_permutation))):
            return True
    return False


# ===================================================================== running a history

class Stop(Exception):
    pass


def run_history(ctx, case: Dict[str, Any], model_states: Optional[List[str]] = None):
    """Returns (ops_executed, info). Reports failures through ctx."""
    try:
        w = World(case)
    except common.HarnessError:
        raise
    except Exception as e:   # noqa: BLE001
        ctx.oracle_fail(dict(case, ops=[]), "building the network through the public add_root / add_child_to_parent / "
                        f"add_parent_to_root calls raised {type(e).__name__}: {str(e)[:160]}")
        return [], {"kinds": set(), "lazy": False, "reuse": False, "toks": [], "lines": [], "opidx": []}, None
    rng = random.Random(case["seed"] * 7919 + 13)
    given = case.get("ops")
    nops = len(given) if given is not None else case["nops"]
    done: List[Dict[str, Any]] = []
    info = {"kinds": set(), "lazy": False, "reuse": False, "trace": [], "toks": [], "lines": [], "opidx": []}
    for t in w.build_toks:
        info["toks"].append(t)
        info["lines"].append(None)
        info["opidx"].append(None)

    def report(detail: str, finding=None):
        c = dict(case)
        c["ops"] = done[:]
        ctx.oracle_fail(c, detail, finding)
        raise Stop()

    try:
        pr = check_state(w)
        if pr:
            report("initial network: " + pr[0])
        info["lines"][-1] = state_line(w)
        step = 0
        attempts = 0
        while step < nops and attempts < 6 * nops + 20:
            attempts += 1
            if given is not None:
                op = given[step]
                step += 1
                if not admissible(w, op):
                    continue
            else:
                op = gen_op(w, rng)
                if op is None or not admissible(w, op):
                    continue
                step += 1
            done.append(op)
            info["cur"] = len(done) - 1
            apply_op(ctx, w, op, info, report)
    except Stop:
        return done, info, w
    return done, info, w


def apply_op(ctx, w: World, op: Dict[str, Any], info, report):
    kind = op["op"]
    ttn, exp = w.ttn, w.exp
    info["kinds"].add(kind if kind != "split" else "split_" + op["how"])
    ctx.tally("ops", kind if kind not in ("split", "bad") else (kind + ":" + (op["how"] if kind == "split" else op["what"])))
    tag = f"op#{info.get('cur', 0)} {describe(op)}: "

    def emit(tok: str, line: Optional[str]):
        info["toks"].append(tok)
        info["lines"].append(line)
        info["opidx"].append(info.get("cur"))

    def call(f, what):
        try:
            return f()
        except Exception as e:   # noqa: BLE001
            report(tag + f"{what} raised {type(e).__name__}: {str(e)[:160]} on an admissible call")

    def verify(ordered=None, after=""):
        pr = check_state(w, ordered)
        if pr:
            report(tag + after + pr[0])

    if kind == "access":
        x = w.rid(op["id"])
        if lazy_pending(w, [op["id"]]):
            info["lazy"] = True
        if op["via"] in ("items", "values"):
            # the Mapping views of the tensor dictionary go through the same lazy transposition, for every node
            keys = list(ttn.tensors.keys())
            if lazy_pending(w, [w.alias(k_) for k_ in keys]):
                info["lazy"] = True
            if op["via"] == "items":
                got = call(lambda: list(ttn.tensors.items()), "ttn.tensors.items()")
            else:
                got = list(zip(keys, call(lambda: list(ttn.tensors.values()), "ttn.tensors.values()")))
            if [k_ for k_, _ in got] != keys:
                report(tag + f"ttn.tensors.{op['via']}() yields keys {[k_ for k_, _ in got]}, the dictionary has {keys}")
            for k_, t_ in got:
                if tuple(t_.shape) != tuple(ttn.nodes[k_].shape):
                    report(tag + f"ttn.tensors.{op['via']}() yields a tensor of shape {t_.shape} for node {k_} of shape "
                                 f"{ttn.nodes[k_].shape}")
            verify()
            for k_ in keys:
                emit(f"acc:{w.nid(w.alias(k_))}", None)
            info["lines"][-1] = state_line(w)
            ctx.tally("access_via", op["via"])
            return
        ctx.tally("access_via", op["via"])
        if op["via"] == "tensors":
            t = call(lambda: ttn.tensors[x], "ttn.tensors[id]")
            node = ttn.nodes[x]
        elif op["via"] == "get":
            t = call(lambda: ttn.tensors.get(x), "ttn.tensors.get(id)")
            node = ttn.nodes[x]
        elif op["via"] == "store":
            # read, then store a copy under the same key (what the time-evolution code does with an updated tensor)
            t = call(lambda: ttn.tensors[x], "ttn.tensors[id]")
            call(lambda: ttn.tensors.__setitem__(x, np.array(t, copy=True)), "ttn.tensors[id] = tensor")
            node = ttn.nodes[x]
        elif op["via"] == "root":
            node, t = call(lambda: ttn.root, "ttn.root")
            x = ttn.root_id
        else:
            node, t = call(lambda: ttn[x], "ttn[id]")
        if node is not ttn.nodes[x] or tuple(t.shape) != tuple(node.shape):
            report(tag + f"access returns tensor of shape {t.shape} for a node of shape {node.shape}")
        verify()
        emit(f"acc:{w.nid(w.alias(x))}", state_line(w))
    elif kind == "rename":
        new_real = w.rid(op["new"]) if op["new"] == op["old"] else op["new"]
        tok = f"rename:{w.nid(op['new'])}:{w.nid(op['old'])}"
        call(lambda: ttn.change_node_identifier(new_real, w.rid(op["old"])), "change_node_identifier")
        if op["old"] in w.real and op["old"] != op["new"]:
            del w.real[op["old"]]
        exp_rename(exp, op["old"], op["new"])
        verify()
        emit(tok, state_line(w))
    elif kind == "replace_tensor":
        x = w.rid(op["id"])
        snap = copy.deepcopy(ttn)
        t = snap.tensors[x]
        if lazy_pending(w, [op["id"]]):
            info["lazy"] = True
        if op["perm"] is None:
            call(lambda: ttn.replace_tensor(x, np.array(t, copy=True)), "replace_tensor")
        else:
            p = list(op["perm"])
            new_t = np.ascontiguousarray(np.transpose(t, np.argsort(p))) if p else np.array(t, copy=True)
            call(lambda: ttn.replace_tensor(x, new_t, tuple(p) if op["tuple"] else list(p)), "replace_tensor")
        verify()
        emit(f"rtp:{w.nid(op['id'])}:{'none' if op['perm'] is None else fmt_list(op['perm'])}", state_line(w))
    elif kind == "contract":
        if lazy_pending(w, [op["a"], op["b"]]):
            info["lazy"] = True
        if op["mode"] in ("a", "b"):
            info["reuse"] = True
        a, b = w.rid(op["a"]), w.rid(op["b"])
        tok = f"contract:{w.nid(op['a'])}:{w.nid(op['b'])}:{w.nid(op['new'])}"
        if op["mode"] == "default":
            call(lambda: ttn.contract_nodes(a, b), "contract_nodes")
            newid = a + "contr" + b
        else:
            newid = w.rid(op["new"]) if op["mode"] in ("a", "b") else op["new"]
            call(lambda: ttn.contract_nodes(a, b, new_identifier=newid), "contract_nodes")
        new = op["new"]
        if op["mode"] == "default" and newid != new:     # operand was uuid-named: alias the composite
            w.real[new] = newid
        for nm in (op["a"], op["b"]):
            if nm in w.real and nm != new:
                del w.real[nm]
        exp_contract(exp, op["a"], op["b"], new)
        verify(ordered=[new])
        emit(tok, state_line(w))
    elif kind == "split":
        if lazy_pending(w, [op["id"]]):
            info["lazy"] = True
        if "reuse" in (op["out_mode"], op["in_mode"]):
            info["reuse"] = True
        x = op["id"]
        xr = w.rid(x)
        tok = split_token(w, op)
        call(lambda: do_split(w, op), f"split_node_{op['how']}" + (f"[{op['variant']}]" if op.get("variant") else ""))
        if op.get("variant"):
            ctx.tally("split_variant", f"{op['how']}:{op['variant']}")
        if op.get("variant") == "default":
            # the default parameter object discards singular values below 1e-15 (relative and absolute): the kept
            # dimension is whatever the library chose, at most min(rows, columns); the contraction must not notice
            want_max = int(tok.rsplit(":", 1)[1])
            oid_r = {"default": "out_of_" + xr, "reuse": xr}.get(op["out_mode"], op["out_id"])
            iid_r = {"default": "in_of_" + xr, "reuse": xr}.get(op["in_mode"], op["in_id"])
            try:
                got = comp_bond(ttn, oid_r, iid_r)
            except Exception as e:   # noqa: BLE001
                report(tag + f"after split_node_svd with default parameters the two new nodes are not neighbours: {e}")
            if not 1 <= got <= want_max:
                report(tag + f"split_node_svd with default parameters created a bond of dimension {got}; "
                             f"min(rows, columns) = {want_max}")
            if got < want_max:
                ctx.tally("split_variant", "svd:default discarded (rank-deficient)")
            tok = tok.rsplit(":", 1)[0] + f":{got}"
        for mode, ident, prefix in ((op["out_mode"], op["out_id"], "out_of_"), (op["in_mode"], op["in_id"], "in_of_")):
            if mode == "default" and prefix + xr != ident:
                w.real[ident] = prefix + xr
            if mode == "reuse" and xr != ident:
                w.real[ident] = xr
        if x in w.real and x not in (op["out_id"], op["in_id"]):
            del w.real[x]
        exp_split(exp, op)
        verify()
        emit(tok, state_line(w))
        if op["how"] in ("qr", "svd"):
            ctx.hyp_validated += 1
    elif kind == "insert_identity":
        before = set(ttn.nodes.keys())
        c, p = w.rid(op["child"]), w.rid(op["parent"])
        if op["new"] is None:
            call(lambda: ttn.insert_identity(c, p), "insert_identity")
            created = set(ttn.nodes.keys()) - before
            if len(created) != 1:
                report(tag + f"insert_identity created nodes {sorted(created)}")
            w.nuuid += 1
            new = f"@u{w.nuuid}"
            w.real[new] = created.pop()
        else:
            new = op["new"]
            call(lambda: ttn.insert_identity(c, p, new_identifier=new), "insert_identity")
        op = dict(op, alias=new)
        exp_insert_identity(exp, op["child"], op["parent"], new)
        verify()
        emit(f"ident:{w.nid(op['child'])}:{w.nid(op['parent'])}:{w.nid(new)}", state_line(w))
    elif kind == "csb":
        # legs_before_combination -> contract_nodes -> split back with the recorded specifications
        if lazy_pending(w, [op["a"], op["b"]]):
            info["lazy"] = True
        a, b = w.rid(op["a"]), w.rid(op["b"])
        before = exp.clone()
        spec_a, spec_b = call(lambda: ttn.legs_before_combination(a, b), "legs_before_combination")
        verify(after="after legs_before_combination: ")

        def spec_of(sp, rename=None):
            return spec_str(w, None if sp.parent_leg is None else w.alias(sp.parent_leg),
                            [w.alias(c) for c in sp.child_legs], list(sp.open_legs), bool(sp.is_root), rename)
        emit(f"lbc:{w.nid(op['a'])}:{w.nid(op['b'])}", spec_of(spec_a) + "&" + spec_of(spec_b))
        ctok = f"contract:{w.nid(op['a'])}:{w.nid(op['b'])}:{w.nid(op['new'])}"
        if op["mode"] == "default":
            call(lambda: ttn.contract_nodes(a, b), "contract_nodes")
            newid = a + "contr" + b
        else:
            newid = w.rid(op["new"]) if op["mode"] in ("a", "b") else op["new"]
            call(lambda: ttn.contract_nodes(a, b, new_identifier=newid), "contract_nodes")
        tmp = "@tmp"
        real_before = dict(w.real)
        w.real = {k: v for k, v in w.real.items() if k not in (op["a"], op["b"])}
        w.real[tmp] = newid
        exp_contract(exp, op["a"], op["b"], tmp)
        verify(ordered=[tmp], after="after contract_nodes: ")
        emit(ctok, state_line(w, rename={tmp: op["new"]}))
        if op["swap"]:
            o_spec, i_spec, o_id, i_id, o_nm, i_nm = spec_b, spec_a, b, a, op["b"], op["a"]
        else:
            o_spec, i_spec, o_id, i_id, o_nm, i_nm = spec_a, spec_b, a, b, op["a"], op["b"]
        # bond dimension by the rule min(rows, cols), from the recorded shape of the contracted node
        cnode = ttn.nodes[newid]
        cshape = list(cnode.shape)

        def side_dim(sp):
            legs = ([0] if sp.parent_leg is not None else []) + [cnode.neighbour_index(c) for c in sp.child_legs] + \
                list(sp.open_legs)
            return int(np.prod([cshape[l] for l in legs], dtype=int))
        bond = min(side_dim(o_spec), side_dim(i_spec))
        if op["how"] != "qr" and _stored_is_zero(ttn, newid):
            bond = 1        # an exactly zero tensor: see _stored_is_zero
        stok = (f"split:{w.nid(op['new'])}:{spec_of(o_spec, {tmp: op['new']})}:{spec_of(i_spec, {tmp: op['new']})}:"
                f"{w.nid(o_nm)}:{w.nid(i_nm)}:{bond}")
        if op["how"] == "qr":
            call(lambda: ttn.split_node_qr(newid, o_spec, i_spec, q_identifier=o_id, r_identifier=i_id),
                 "split_node_qr")
        else:
            call(lambda: ttn.split_node_svd(newid, o_spec, i_spec, u_identifier=o_id, v_identifier=i_id,
                                            svd_params=untruncated()), "split_node_svd")
        w.real = real_before
        w.exp = before           # documented: "to split the two nodes again, to have the same legs as before"
        exp = w.exp
        verify(after="after splitting back with legs_before_combination: ")
        emit(stok, state_line(w))
        ctx.hyp_validated += 1
    elif kind == "cac":
        x = op["id"]
        xr = w.rid(x)
        kids = list(exp.nodes[x]["children"])
        if lazy_pending(w, [x] + kids):
            info["lazy"] = True
        if op["mode"] == "own":
            info["reuse"] = True
        ctx.tally("contract_all_children", f"{op['mode']}:{min(len(kids), 3)}{'+' if len(kids) > 3 else ''} children")
        if op["mode"] == "default":
            call(lambda: ttn.contract_all_children(xr), "contract_all_children")
        elif op["mode"] == "own":
            call(lambda: ttn.contract_all_children(xr, new_identifier=xr), "contract_all_children")
        else:
            call(lambda: ttn.contract_all_children(xr, op["new"]), "contract_all_children")
        cur = x
        for c in kids:                      # documented: "done by contracting the children with the parent node"
            new = op["new"]
            emit(f"contract:{w.nid(cur)}:{w.nid(c)}:{w.nid(new)}", None)
            exp_contract(exp, cur, c, new)
            for nm in (cur, c):
                if nm in w.real and nm != new:
                    del w.real[nm]
            cur = new
        verify(ordered=[cur])
        info["lines"][-1] = state_line(w)
    elif kind == "cct":
        from pytreenet.contractions.tree_contraction import completely_contract_tree
        inplace = bool(op["inplace"])
        ctx.tally("completely_contract_tree", "in place" if inplace else "on a deep copy")
        if lazy_pending(w, list(exp.nodes)):
            info["lazy"] = True
        if op["method"]:
            res, order = call(lambda: ttn.completely_contract_tree(to_copy=not inplace), "completely_contract_tree")
        elif inplace:
            res, order = call(lambda: completely_contract_tree(ttn), "completely_contract_tree")
        else:
            res, order = call(lambda: completely_contract_tree(ttn, to_copy=True), "completely_contract_tree")
        # documented: the returned list is "the order of the open legs in the final tensor"; which traversal the
        # routine uses is not promised, only that every node is absorbed into its parent: a pre-order of the tree
        got_order = [w.alias(i) for i in order]
        pos = {nm: j for j, nm in enumerate(got_order)}
        if sorted(got_order) != sorted(exp.nodes) or got_order[0] != exp.root or any(
                pos[nm] < pos[e_["parent"]] for nm, e_ in exp.nodes.items() if e_["parent"] is not None):
            report(tag + f"completely_contract_tree reports the contraction order {got_order}: not an order of all "
                         f"nodes in which every node comes after its parent")
        plan: List[Tuple[str, str]] = []

        def walk(nm):                       # the contractions that produce this pre-order
            for c in sorted(exp.nodes[nm]["children"], key=lambda c_: pos[c_]):
                walk(c)
                plan.append((nm, c))
        walk(exp.root)
        labels = [lab for nm in got_order for lab in exp.nodes[nm]["open"]]
        perm = sorted(range(len(labels)), key=lambda j: labels[j])
        arr = np.transpose(res, perm) if perm else np.asarray(res)
        scale = max(float(np.max(np.abs(w.T0))) if w.T0.size else 1.0, 1e-4 * w.prodnorm, 1e-300)
        if arr.shape != w.T0.shape or not float(np.max(np.abs(arr - w.T0))) <= 1e-8 * (1e5 if w.single else 1.0) * scale:
            report(tag + "completely_contract_tree: the result is not the original tensor with the open legs in "
                         "contraction order (node by node, each node's open legs in its own order)")
        if inplace:
            for a, c in plan:
                emit(f"contract:{w.nid(a)}:{w.nid(c)}:{w.nid(a)}", None)
                exp_contract(exp, a, c, a)
                if c in w.real:
                    del w.real[c]
            verify()
            if plan:
                info["lines"][-1] = state_line(w)
        else:
            verify()
    elif kind == "bad":
        tok = bad_token(w, op)
        run_bad(ctx, w, op, report, tag)
        if tok is not None:
            emit(tok, "err")
    else:
        raise common.HarnessError(f"unknown op {kind}")


def bad_token(w: World, op: Dict[str, Any]) -> Optional[str]:
    what = op["what"]
    if what == "contract_nn":
        return f"contract:{w.nid(op['a'])}:{w.nid(op['b'])}:999999"
    if what.startswith("split_"):
        return split_token(w, op)
    if what == "rename_dup":
        return f"rename:{w.nid(op['new'])}:{w.nid(op['old'])}"
    if what == "identity_nonedge":
        return f"ident:{w.nid(op['child'])}:{w.nid(op['parent'])}:999998"
    if what in ("add_child_dup", "add_child_dim"):
        x = w.rid(op["parent"])
        d = w.ttn.nodes[x].shape[op["leg"]]
        if what == "add_child_dup":
            return f"child:{w.nid(op['dup'])}:7.{d},8.2:0:{w.nid(op['parent'])}:{op['leg']}"
        return f"child:999997:7.{d + 1},8.2:0:{w.nid(op['parent'])}:{op['leg']}"
    return None


def run_bad(ctx, w: World, op: Dict[str, Any], report, tag: str):
    """Calls that must raise. Where the exception precedes every mutation the network must be unchanged."""
    import pytreenet as ptn
    ttn, exp = w.ttn, w.exp
    what = op["what"]
    struct = w.actual_structure()
    shapes = {i: tuple(n.shape) for i, n in ttn.nodes.items()}
    backup = copy.deepcopy(ttn)
    atomic = True
    raised = None
    try:
        if what == "contract_nn":
            ttn.contract_nodes(w.rid(op["a"]), w.rid(op["b"]))
        elif what.startswith("split_"):
            do_split(w, op)
        elif what == "rename_dup":
            atomic = False      # the tensor dictionary is edited before the uniqueness check (see notes/C02.md)
            ttn.change_node_identifier(w.rid(op["new"]), w.rid(op["old"]))
        elif what == "replace_shape":
            x = w.rid(op["id"])
            sh = tuple(ttn.nodes[x].shape) + (2,)
            ttn.replace_tensor(x, np.zeros(sh), list(range(len(sh))))
        elif what == "identity_nonedge":
            ttn.insert_identity(w.rid(op["child"]), w.rid(op["parent"]), "ident_x")
        elif what == "add_child_dup":
            x = w.rid(op["parent"])
            d = ttn.nodes[x].shape[op["leg"]]
            ttn.add_child_to_parent(ptn.Node(identifier=w.rid(op["dup"])), np.ones((d, 2)), 0, x, op["leg"])
        elif what == "add_child_dim":
            x = w.rid(op["parent"])
            d = ttn.nodes[x].shape[op["leg"]]
            ttn.add_child_to_parent(ptn.Node(identifier="dim_mismatch"), np.ones((d + 1, 2)), 0, x, op["leg"])
    except Exception as e:   # noqa: BLE001
        raised = e
    if raised is None:
        w.ttn = backup
        report(tag + f"inadmissible call ({what}) did not raise")
    ctx.tally("malformed", f"{what}:{type(raised).__name__}")
    if atomic:
        # Whether a rejected call leaves the network untouched is promised nowhere (and the property quantifies over
        # admissible operations only): tallied, and the history continues on the snapshot taken before the call.
        pr = observable_equal(w, struct, shapes) or check_state(w)
        if pr:
            ctx.tally("malformed_nonatomic", what)
            w.ttn = backup
    else:
        pr = observable_equal(w, struct, shapes) or check_state(w)
        if pr:
            ctx.tally("malformed_nonatomic", what)
            kf = common.load_known_findings("C02").get("F-C02a")
            w.ttn = backup
            if kf is not None and kf.get("status") == "open":
                report(tag + "change_node_identifier to an identifier in use raised ValueError after it had "
                       "already overwritten the tensor stored under that identifier: " + pr[0], finding="F-C02a")


def describe(op: Dict[str, Any]) -> str:
    k = op["op"]
    if k == "contract":
        return f"contract_nodes({op['a']},{op['b']},new={op['mode']})"
    if k == "split":
        return (f"split_{op['how']}({op['id']}; out ch={op['out_ch']} open={op['out_open']} id={op['out_mode']}; "
                f"in ch={op['in_ch']} open={op['in_open']} id={op['in_mode']}; parent/root kept by {op['keep']})")
    if k == "csb":
        return f"legs_before_combination+contract+split_{op['how']}({op['a']},{op['b']},swap={op['swap']})"
    if k == "bad":
        return f"malformed:{op['what']}"
    if k == "cac":
        return f"contract_all_children({op['id']},new={op['mode']})"
    return k + "(" + ",".join(f"{a}={v}" for a, v in op.items() if a != "op") + ")"


# ===================================================================== Node machine: sequences on a real Node

def fmt_list(l) -> str:
    l = list(l)
    return ",".join(str(int(v)) for v in l) if l else "-"


def fmt_node(node) -> str:
    par = "-" if node.parent is None else str(node.parent)
    return f"{fmt_list(node.leg_permutation)}|{fmt_list(node.shape)}|{par}|{fmt_list(node.children)}"


def parse_list(s: str) -> List[int]:
    return [] if s == "-" else [int(v) for v in s.split(",")]


def node_exec(node, tok: str) -> None:
    """Apply one protocol token to a real `Node` (raises whatever the library raises)."""
    f = tok.split(":")
    k = f[0]
    if k == "link":
        node.link_tensor(np.zeros(tuple(parse_list(f[1]))))
    elif k == "reset":
        node._reset_permutation()
    elif k == "rt":
        node.replace_tensor(np.zeros(tuple(parse_list(f[1]))), None if f[2] == "none" else parse_list(f[2]))
    elif k == "o2p":
        node.open_leg_to_parent(f[1], None if f[2] == "none" else int(f[2]))
    elif k == "o2c":
        node.open_leg_to_child(f[1], int(f[2]))
    elif k == "o2cs":
        d = {}
        if f[1] != "-":
            for item in f[1].split(","):
                c, leg = item.split("=")
                d[c] = int(leg)
        node.open_legs_to_children(d)
    elif k == "p2o":
        node.parent_leg_to_open_leg()
    elif k == "c2o":
        node.child_leg_to_open_leg(f[1])
    elif k == "cs2o":
        node.children_legs_to_open_legs([str(c) for c in parse_list(f[1])])
    elif k == "xch":
        node.exchange_open_leg_ranges(range(int(f[1]), int(f[2])), range(int(f[3]), int(f[4])))
    elif k == "swap":
        node.swap_two_child_legs(f[1], f[2])
    elif k == "swf":
        node.swap_with_first_child(f[1])
    else:
        raise common.HarnessError(f"unknown node token {tok}")


def gen_node_tok(rng: random.Random, node, used_ids: List[int]) -> str:
    nl, nv = node.nlegs(), node.nvirt_legs()
    nopen = nl - nv
    kids = [int(c) for c in node.children]

    def new_id():
        v = max(used_ids + [0]) + 1
        used_ids.append(v)
        return v
    # Arguments outside the documented domain.  Only those are generated for which the library PROMISES a rejection
    # by an explicit check of its own (NotCompatibleException for a leg that is not open / a tensor that does not fit,
    # ValueError for "no open legs" / "not a child of this node" / a second parent): there both the library and the
    # model must refuse.  Arguments for which nothing is promised (leg indices beyond the last leg, empty / backward /
    # overlapping / non-open ranges of exchange_open_leg_ranges, a `permutation` that is no permutation, the same leg
    # named twice in open_legs_to_children) are NOT generated: how the code reacts to them is not fixed by anything.
    wild = rng.random() < 0.12
    cands = ["reset", "rt", "rt"]
    if nopen > 0 or wild:
        cands += ["o2c", "o2c", "o2cs", "o2cs"]
        if node.parent is None or wild:
            cands += ["o2p", "o2p"]
    if node.parent is not None or wild:
        cands += ["p2o"]
    if kids or wild:
        cands += ["c2o", "cs2o", "swap"]
    if kids:
        cands += ["swf"]
    if nopen >= 1:
        cands += ["xch", "xch"]
    if rng.random() < 0.03:
        cands = ["link"]
    k = rng.choice(cands)
    anyleg = lambda: rng.randrange(0, max(nl, 1))           # noqa: E731   (an existing leg: open or not)
    openleg = lambda: (anyleg() if (wild or nopen <= 0) else rng.randrange(nv, nl))   # noqa: E731
    if k == "link":
        dims = rng.sample(range(2, 10), rng.randint(max(nv, 0), 7)) if nv <= 7 else []
        return "link:" + fmt_list(dims)
    if k == "reset":
        return "reset"
    if k == "rt":
        shape = list(node.shape)
        p = list(range(nl))
        rng.shuffle(p)
        inv = [0] * nl
        for i, v in enumerate(p):
            inv[v] = i
        tsh = [shape[inv[j]] for j in range(nl)]       # permute_iterator(tsh, p) == shape
        r = rng.random()
        if r < 0.15:
            return f"rt:{fmt_list(shape)}:none"
        if wild:
            # promised: "Shapes of the tensor and the node do not match!" (NotCompatibleException)
            if rng.random() < 0.5 and nl >= 1:
                p = p[:-1]
            else:
                tsh = tsh + [2]
        return f"rt:{fmt_list(tsh)}:{fmt_list(p)}"
    if k == "o2p":
        return f"o2p:{new_id()}:{'none' if rng.random() < 0.1 else openleg()}"
    if k == "o2c":
        return f"o2c:{new_id()}:{openleg()}"
    if k == "o2cs":
        m = rng.randint(0, max(nopen, 0) if not wild else min(3, nl))
        # wild: distinct existing legs, some of them possibly not open (promised NotCompatibleException)
        legs = rng.sample(range(nv, nl), min(m, max(nopen, 0))) if not wild else rng.sample(range(nl), m)
        return "o2cs:" + (",".join(f"{new_id()}={l}" for l in legs) if legs else "-")
    if k == "p2o":
        return "p2o"
    if k == "c2o":
        return f"c2o:{rng.choice(kids) if (kids and not wild) else rng.randrange(1, 12)}"
    if k == "cs2o":
        sel = rng.sample(kids, rng.randint(0, len(kids))) if not wild else [rng.randrange(1, 12) for _ in range(2)]
        return "cs2o:" + fmt_list(sel)
    if k == "swap":
        pick = lambda: (rng.choice(kids) if (kids and not wild) else rng.randrange(1, 12))   # noqa: E731
        return f"swap:{pick()}:{pick()}"
    if k == "swf":
        return f"swf:{rng.choice(kids) if not wild else rng.randrange(1, 12)}"
    if k == "xch":
        # documented domain only: two ascending, non-overlapping ranges of open legs (either may be empty, as
        # _create_contracted_node produces them for nodes without open legs), in either argument order
        cuts = sorted(rng.randint(nv, nl) for _ in range(4))
        a, b = (cuts[0], cuts[1]), (cuts[2], cuts[3])
        # either argument order when both batches are non-empty; an EMPTY batch only in ascending position, as the
        # caller in the library passes it (the reversed order with an empty batch trips an assertion today, but
        # nothing is promised for it)
        if rng.random() < 0.5 and a[0] < a[1] and b[0] < b[1]:
            a, b = b, a
        return f"xch:{a[0]}:{a[1]}:{b[0]}:{b[1]}"
    return "reset"


def run_nodeseq_impl(case: Dict[str, Any]) -> Tuple[List[str], List[str], List[str]]:
    """Executes the sequence on a real Node. Returns (tokens, state lines, oracle problems)."""
    import pytreenet as ptn
    rng = random.Random(case["seed"])
    node = ptn.Node(identifier="x")
    toks: List[str] = []
    mtoks: List[str] = []
    lines: List[str] = []
    probs: List[str] = []
    used: List[int] = []
    given = case.get("toks")
    nl0 = rng.randint(0, 7)
    first = "link:" + fmt_list(rng.sample(range(2, 10), nl0))
    n = len(given) if given is not None else case["nops"]
    trusted = True
    for i in range(n):
        tok = given[i] if given is not None else (first if i == 0 else gen_node_tok(rng, node, used))
        saved = copy.deepcopy(node)
        mtok = tok
        if tok.startswith("swf:"):      # the model has no such method: it must be swap_two_child_legs(child, first)
            if not node.children:
                continue
            mtok = f"swap:{tok.split(':')[1]}:{node.children[0]}"
        mtoks.append(mtok)
        try:
            node_exec(node, tok)
            lines.append(fmt_node(node))
            if tok.startswith("swf:") and trusted and node.children[0] != tok.split(":")[1]:
                probs.append(f"after swap_with_first_child({tok.split(':')[1]}) the first child is {node.children[0]}")
        except common.HarnessError:
            raise
        except Exception:   # noqa: BLE001
            node = saved
            lines.append("err")
        toks.append(tok)
        # property clause at the Node level: the permutation stays a permutation, nvirt <= nlegs, shape coherent
        if lines[-1] != "err" and not node_tok_valid(tok) and i > 0:
            trusted = False         # an inadmissible call went through: the invariant is no longer promised
        if lines[-1] != "err" and trusted and i > 0:
            perm = list(node.leg_permutation)
            if sorted(perm) != list(range(len(perm))):
                probs.append(f"after {tok}: leg permutation {perm} is not a permutation")
            elif node.nvirt_legs() > node.nlegs():
                probs.append(f"after {tok}: {node.nvirt_legs()} neighbours but {node.nlegs()} legs")
            elif tuple(node.shape) != tuple(node._shape[p] for p in perm):
                probs.append(f"after {tok}: shape {node.shape} is not the permuted stored shape")
    return toks, lines, probs, mtoks


def node_tok_valid(tok: str) -> bool:
    f = tok.split(":")
    if f[0] == "o2cs" and f[1] != "-":
        legs = [it.split("=")[1] for it in f[1].split(",")]
        return len(set(legs)) == len(legs)
    if f[0] == "rt" and f[2] != "none":
        p = parse_list(f[2])
        return sorted(p) == list(range(len(p)))
    if f[0] == "link":
        return False
    return True


def compare_nodeseq(ctx, case, toks, lines, probs, model_out: str):
    c = dict(case, toks=toks)
    kinds = {t.split(":")[0] for t in toks}
    ctx.count(("nodeseq", case["seed"], len(toks)), nontrivial=len(kinds) >= 3, corr=True)
    for t, ln in zip(toks, lines):
        ctx.tally("node_ops", t.split(":")[0] + ("!" if ln == "err" else ""))
    ctx.sample(c, 1)
    if probs:
        ctx.oracle_fail(c, "Node machine: " + probs[0])
    mlines = model_out.split(";")
    if model_out == "bad-op" or len(mlines) != len(lines):
        ctx.corr_fail(c, f"nodeseq: model answered {model_out[:80]!r} for {len(lines)} ops")
        return
    for i, (a, b) in enumerate(zip(lines, mlines)):
        if a != b:
            cc = dict(case, toks=toks[:i + 1])
            ctx.corr_fail(cc, f"nodeseq op#{i} {toks[i]}: Node gives {a}, model gives {b} "
                              f"(state before: {lines[i - 1] if i else 'unlinked'})")
            return


# ===================================================================== model correspondence (filled in by stage 2/3)

def state_line(w: World, rename: Optional[Dict[str, str]] = None) -> str:
    """Canonical text of the implementation's structure (root, parents, exact child order, recorded shapes)
    with the open-leg labels of the (oracle-validated) expected state; compared with the model's line."""
    ttn, exp = w.ttn, w.exp
    rename = rename or {}

    def num(ident):
        nm = w.alias(ident)
        return w.nid(rename.get(nm, nm))
    rows = []
    for i, n in ttn.nodes.items():
        nm = w.alias(i)
        par = "-" if n.parent is None else str(num(n.parent))
        opens = exp.nodes[nm]["open"] if nm in exp.nodes else ["?"]
        rows.append((num(i), f"{num(i)}:{par}:{fmt_list([num(c) for c in n.children])}:"
                             f"{fmt_list(opens)}:{fmt_list(n.shape)}"))
    rows.sort()
    tk = sorted(num(i) for i in ttn.tensors.keys())
    root = "-" if ttn.root_id is None else str(num(ttn.root_id))
    return ";".join([f"root={root}", f"T={fmt_list(tk)}"] + [r for _, r in rows])


def spec_str(w: World, parent, children, opens, is_root, rename=None) -> str:
    rename = rename or {}

    def num(nm):
        return w.nid(rename.get(nm, nm))
    return (f"{'-' if parent is None else num(parent)}/{fmt_list([num(c) for c in children])}/"
            f"{fmt_list(opens)}/{'r' if is_root else 'n'}")


def _stored_is_zero(ttn, rid) -> bool:
    """An exactly zero tensor has s_max = 0, the cut-off `-inf * 0.0` of the "untruncated" SVD parameters is NaN and the
    library's keep-the-largest branch leaves ONE (zero) singular value: the new bond has dimension 1, not min(rows, cols)
    (recorded in notes/C10.md and C11; integer tensors of rank-deficient histories do contract to exactly zero - a false
    alarm of this stream in the thorough tier, seed 1).  The stored array is read without going through the TensorDict
    accessor, which would apply the node's pending leg permutation (an `access` the model would not see)."""
    try:
        arr = ttn._tensors.data[rid]
    except Exception:       # noqa: BLE001
        return False
    return not np.any(arr)


def split_token(w: World, op: Dict[str, Any]) -> str:
    """Protocol token of a split op (computed before the call): specs as passed to the library, new bond
    dimension by the rule of the splitting function (reduced QR / untruncated SVD: min(rows, cols))."""
    exp = w.exp
    x = op["id"]
    known = x in exp.nodes
    par = exp.nodes[x]["parent"] if known else None
    out_par = par if (par is not None and op["keep"] == "out") else None
    in_par = par if (par is not None and op["keep"] == "in") else None
    o = spec_str(w, out_par, op["out_ch"], op["out_open"], par is None and op["keep"] == "out")
    i = spec_str(w, in_par, op["in_ch"], op["in_open"], par is None and op["keep"] == "in")
    bond = 1
    if op["op"] == "split":
        shape = list(w.ttn.nodes[w.rid(x)].shape)
        ch = exp.nodes[x]["children"]
        off = 0 if par is None else 1
        rows = int(np.prod([shape[0]] if out_par is not None else [], dtype=int)) * \
            int(np.prod([shape[off + ch.index(c)] for c in op["out_ch"]] + [shape[l] for l in op["out_open"]], dtype=int))
        cols = int(np.prod([shape[0]] if in_par is not None else [], dtype=int)) * \
            int(np.prod([shape[off + ch.index(c)] for c in op["in_ch"]] + [shape[l] for l in op["in_open"]], dtype=int))
        how = op["how"]
        if how == "replace":
            bond = {"ia": rows, "ib": cols, "qr": min(rows, cols)}[op["repl"]]
        else:
            bond = {"full": rows, "keep": cols}.get(op.get("variant"), min(rows, cols))
            if how == "svd" and _stored_is_zero(w.ttn, w.rid(x)):
                bond = 1    # an exactly zero tensor: see _stored_is_zero
    return f"split:{w.nid(x)}:{o}:{i}:{w.nid(op['out_id'])}:{w.nid(op['in_id'])}:{bond}"


def compare_hist(ctx, case, done, info, model_out: str):
    toks, lines = info["toks"], info["lines"]
    mlines = model_out.split("|")
    if model_out == "bad-op" or len(mlines) != len(lines):
        ctx.corr_fail(dict(case, ops=done), f"hist: model answered {model_out[:80]!r} for {len(lines)} ops")
        return
    for i, (a, b) in enumerate(zip(lines, mlines)):
        if a is not None and a != b:
            k = info["opidx"][i]
            ctx.corr_fail(dict(case, ops=done[:k + 1] if k is not None else []),
                          f"hist token#{i} {toks[i]}: implementation {a} | model {b}")
            return


# ===================================================================== composite edits (TDVP / canonical form / truncation)

COMP_KINDS = ("link", "twosite", "move", "csplit", "trunc", "canon")


def svd_params(k):
    from pytreenet.util.tensor_splitting import SVDParameters
    if k is None:
        return untruncated()
    return SVDParameters(max_bond_dim=k, rel_tol=float("-inf"), total_tol=float("-inf"))


def gen_comp_ops(w: "World", rng: random.Random, nops: int) -> List[Dict[str, Any]]:
    """The tree never changes, so a list of composite edits can be drawn in advance from its edges."""
    edges = [(e["parent"], x) for x, e in w.exp.nodes.items() if e["parent"] is not None]
    names = list(w.exp.nodes)
    ops: List[Dict[str, Any]] = []
    for _ in range(nops):
        kind = rng.choice(COMP_KINDS)
        k = rng.choice([None, None, None, 1, 2])
        if kind == "trunc":
            ops.append({"op": "trunc", "k": k})
        elif kind == "canon":
            ops.append({"op": "canon", "c": rng.choice(names)})
        elif edges:
            p, c = rng.choice(edges)
            if kind == "csplit":
                ops.append({"op": "csplit", "a": c, "b": p, "k": k})
            else:
                a, b = (p, c) if rng.random() < 0.5 else (c, p)
                op = {"op": kind, "a": a, "b": b}
                if kind == "twosite":
                    op["k"] = k
                ops.append(op)
    return ops


class _TdvpStub:
    """Just enough of a OneSiteTDVP object to run the real `_split_updated_site`."""
    def __init__(self, state):
        self.state = state

    @staticmethod
    def create_link_id(a, b):
        from pytreenet.time_evolution.tdvp_algorithms.onesitetdvp import OneSiteTDVP
        return OneSiteTDVP.create_link_id(a, b)

    def _update_cache_after_split(self, *a, **k):
        return None


def comp_bond(ttn, a, b) -> int:
    n = ttn.nodes[a]
    return int(n.shape[n.neighbour_index(b)])


def apply_comp(w: "World", op: Dict[str, Any], tmpno: List[int]) -> Tuple[List[str], bool]:
    """Run one composite edit on the real network.  Returns (protocol tokens, exact?)."""
    from pytreenet.core.canonical_form import canonical_form, split_qr_contract_r_to_neighbour
    from pytreenet.core.truncation.recursive_truncation import truncate_node
    from pytreenet.core.truncation.svd_truncation import contract_and_split_with_parent
    from pytreenet.time_evolution.tdvp_algorithms.onesitetdvp import OneSiteTDVP
    from pytreenet.time_evolution.tdvp_algorithms.twositetdvp import TwoSiteTDVP
    ttn = w.ttn
    kind = op["op"]

    def fresh() -> int:
        tmpno[0] += 1
        return w.nid(f"@comp{tmpno[0]}")
    if kind == "link":                       # OneSiteTDVP._update_link(a, b), evolution = identity
        a, b = op["a"], op["b"]
        OneSiteTDVP._split_updated_site(_TdvpStub(ttn), a, b)
        link_id = OneSiteTDVP.create_link_id(a, b)
        bd = comp_bond(ttn, a, link_id)
        lt = ttn.tensors[link_id]
        ttn.tensors[link_id] = lt.copy()
        ttn.contract_nodes(link_id, b, new_identifier=b)
        return [f"link:{w.nid(a)}:{w.nid(b)}:{fresh()}:{bd}"], True
    if kind == "twosite":                    # TwoSiteTDVP._update_two_site_nodes(a, b), evolution = identity
        a, b = op["a"], op["b"]
        u, v = ttn.legs_before_combination(a, b)
        new_id = TwoSiteTDVP.create_two_site_id(a, b)
        ttn.contract_nodes(a, b, new_identifier=new_id)
        psi = ttn.tensors[new_id]
        ttn.tensors[new_id] = psi.copy()
        ttn.split_node_svd(new_id, u, v, u_identifier=a, v_identifier=b, svd_params=svd_params(op.get("k")))
        return [f"twosite:{w.nid(a)}:{w.nid(b)}:{fresh()}:{comp_bond(ttn, a, b)}"], op.get("k") is None
    if kind == "move":
        a, b = op["a"], op["b"]
        split_qr_contract_r_to_neighbour(ttn, a, b)
        return [f"move:{w.nid(a)}:{w.nid(b)}:{fresh()}:auto"], True
    if kind == "csplit":
        a, b = op["a"], op["b"]
        contract_and_split_with_parent(a, ttn, svd_params(op.get("k")))
        return [f"csplit:{w.nid(a)}:{w.nid(b)}:{fresh()}:{comp_bond(ttn, a, b)}"], op.get("k") is None
    if kind == "canon":                      # canonical_form(ttn, c) = moves, farthest nodes first
        c = op["c"]
        dist = ttn.distance_to_node(c)
        toks = []
        for d in reversed(range(1, max(dist.values()) + 1)):
            for x in [y for y in dist if dist[y] == d]:
                nbs = ttn.nodes[x].neighbouring_nodes()
                nb = min({y: dist[y] for y in nbs}, key=lambda y: dist[y])
                toks.append(f"move:{w.nid(x)}:{w.nid(nb)}:{fresh()}:auto")
        canonical_form(ttn, c)
        return toks, True
    if kind == "trunc":                      # recursive_truncation between its canonicalisations
        truncate_node(ttn.root_id, ttn, svd_params(op.get("k")))
        ks = ",".join(f"{w.nid(i)}={comp_bond(ttn, i, n.parent)}" for i, n in ttn.nodes.items()
                      if n.parent is not None) or "-"
        return [f"rectrunc:{ks}"], op.get("k") is None
    raise common.HarnessError(f"unknown composite op {kind}")


def comp_structure_oracle(w: "World") -> List[str]:
    """What the structural theorems promise, on the real network: same identifiers, root, parents, children
    sets; identical key sets; well-formed."""
    ttn, exp = w.ttn, w.exp
    if set(ttn.nodes.keys()) != set(exp.nodes):
        return [f"node set {sorted(ttn.nodes.keys())} expected {sorted(exp.nodes)}"]
    if set(ttn.nodes.keys()) != set(ttn.tensors.keys()):
        return [f"node keys {sorted(ttn.nodes.keys())} != tensor keys {sorted(ttn.tensors.keys())}"]
    if ttn.root_id != exp.root:
        return [f"root_id {ttn.root_id} expected {exp.root}"]
    for x, e in exp.nodes.items():
        n = ttn.nodes[x]
        if n.parent != e["parent"]:
            return [f"{x}: parent {n.parent} expected {e['parent']}"]
        if sorted(n.children) != sorted(e["children"]):
            return [f"{x}: children {n.children} expected the set {sorted(e['children'])}"]
        if n.nlegs() - exp.nvirt(x) != len(e["open"]):
            return [f"{x}: {n.nlegs() - exp.nvirt(x)} open legs, expected {len(e['open'])}"]
        od = [int(d) for d in n.shape[exp.nvirt(x):]]
        if od != [w.label_dim[l] for l in e["open"]]:
            return [f"{x}: open-leg dimensions {od} expected {[w.label_dim[l] for l in e['open']]}"]
    wf = dense.well_formed(copy.deepcopy(ttn))
    if wf:
        return ["not well-formed: " + "; ".join(wf[:3])]
    return []


def run_comp(ctx, case: Dict[str, Any]):
    """Composite edits: oracle (structure always; labelled dense contraction while every edit so far was exact)
    and correspondence with the model's composite operations."""
    w = World(case)
    rng = random.Random(case["seed"] * 104729 + 7)
    ops = case.get("ops")
    if ops is None:
        ops = gen_comp_ops(w, rng, case["nops"])
    toks = list(w.build_toks)
    lines: List[Optional[str]] = [None] * len(toks)
    opidx: List[Optional[int]] = [None] * len(toks)
    pr = check_state(w)
    if pr:
        ctx.oracle_fail(dict(case, ops=[]), "comp: initial network: " + pr[0])
        return
    lines[-1] = state_line(w)
    exact, moved, kinds = True, False, set()
    tmpno = [0]
    for i, op in enumerate(ops):
        kinds.add(op["op"])
        ctx.tally("ops", "comp:" + op["op"])
        before = {x: list(n.children) for x, n in w.ttn.nodes.items()}
        sub = dict(case, ops=ops[:i + 1])
        try:
            new_toks, ex = apply_comp(w, op, tmpno)
        except Exception as e:   # noqa: BLE001
            ctx.oracle_fail(sub, f"comp op#{i} {op}: raised {type(e).__name__}: {str(e)[:160]} on an admissible call")
            return
        exact = exact and ex
        pr = comp_structure_oracle(w)
        if not pr and exact:
            pr = check_state(w)
        if pr:
            ctx.oracle_fail(sub, f"comp op#{i} {op}: " + pr[0])
            return
        if any(list(n.children) != before[x] for x, n in w.ttn.nodes.items()):
            moved = True
        for x, e in w.exp.nodes.items():
            e["children"] = list(w.ttn.nodes[x].children)
        for t in new_toks:
            toks.append(t)
            lines.append(None)
            opidx.append(i)
        if new_toks:
            lines[-1] = state_line(w)
    ctx.count(("comp", case["seed"], case["n"], len(ops)), nontrivial=len(kinds) >= 3 and moved, corr=True)
    out = ctx.lean.batch(["C02 hist " + " ".join(toks)])[0]
    mlines = out.split("|")
    if out == "bad-op" or len(mlines) != len(lines):
        ctx.corr_fail(dict(case, ops=ops), f"comp: model answered {out[:80]!r} for {len(lines)} tokens")
        return
    for j, (a, b) in enumerate(zip(lines, mlines)):
        if a is not None and a != b:
            k = opidx[j]
            ctx.corr_fail(dict(case, ops=ops[:k + 1] if k is not None else []),
                          f"comp token#{j} {toks[j]}: implementation {a} | model {b}")
            return


# ===================================================================== value level (contract_nodes on integer tensors)

def _parse_state(field: str) -> Dict[int, Tuple[Optional[int], List[int], List[int], List[int]]]:
    """`root=…;T=…;<id>:<parent|->:<children>:<open labels>:<shape>;…` -> id -> (parent, children, open labels, shape)"""
    res = {}
    for part in field.split(";")[2:]:
        i, par, ch, op, sh = part.split(":")
        res[int(i)] = (None if par == "-" else int(par), parse_list(ch), parse_list(op), parse_list(sh))
    return res


def run_values(ctx, cases: List[Dict[str, Any]]):
    """Stream `value`: the library's `contract_nodes` on integer tensors against the Lean value-level semantics.  The two
    node tensors are read before the call; the C02 structural model predicts the legs of the two operands and of the new
    node (parent, children, open labels - its state before and after the `contract` op); `C04 einrec` evaluates
    `netValue` (the function `contract_nodes_value` is about) of the two tensors with the bond bound and the free legs in
    the predicted order; the library's new tensor must be that table, entry by entry, exactly."""
    from harness import einsum_corr
    prepared = []
    for case in cases:
        w = World(case)
        rng = random.Random(case["seed"] ^ 0x5851F42D)
        n = case["n"]
        par = w.par
        x = rng.choice([i for i in range(n) if par[i] >= 0])
        child, parent = w.names[x], w.names[par[x]]
        a, b = (child, parent) if rng.random() < 0.5 else (parent, child)
        mode = rng.choice(["default", "new", "a", "b"])
        new = {"default": default_contract_id(a, b), "new": "vnew", "a": a, "b": b}[mode]
        idx = {w.nid(w.names[i]): i for i in range(n)}          # protocol number -> tree index (before nid(new))
        tok = f"contract:{w.nid(a)}:{w.nid(b)}:{w.nid(new)}"
        try:
            A = np.array(w.ttn.tensors[a], copy=True)
            B = np.array(w.ttn.tensors[b], copy=True)
            if mode == "default":
                w.ttn.contract_nodes(a, b)
            else:
                w.ttn.contract_nodes(a, b, new_identifier=new)
            got = np.asarray(w.ttn.tensors[new])
        except Exception as e:      # noqa: BLE001
            ctx.oracle_fail(case, f"value: contract_nodes({a}, {b}, {mode}) raised {type(e).__name__}: {str(e)[:160]}")
            continue
        ctx.tally("value_mode", mode + ("/child first" if a == child else "/parent first"))
        ctx.count(("value", case["seed"], n), nontrivial=A.ndim + B.ndim >= 5, corr=True)
        prepared.append((case, w, idx, a, b, new, A, B, got, "C02 hist " + " ".join(w.build_toks + [tok])))
    outs = ctx.lean.batch([p[-1] for p in prepared])
    lines, owners = [], []
    for (case, w, idx, a, b, new, A, B, got, _), out in zip(prepared, outs):
        fields = out.split("|")
        if len(fields) != len(w.build_toks) + 1 or "err" in fields[-2:]:
            ctx.corr_fail(case, f"value: the structural model answers [{out[-160:]}] on an admissible contraction")
            continue
        pre, post = _parse_state(fields[-2]), _parse_state(fields[-1])
        na, nb, nnew = w.nid(a), w.nid(b), w.nid(new)

        def bond(k, y):
            # label of the bond between two adjacent nodes of the initial tree: 1000 + tree index of the child
            return 1000 + (idx[k] if w.par[idx[k]] == idx[y] else idx[y])

        def legs_of(k):
            p_, ch, op, _sh = pre[k]
            return ([("b", bond(k, p_))] if p_ is not None else []) + [("b", bond(k, c)) for c in ch] + [("o", l) for l in op]
        la, lb = legs_of(na), legs_of(nb)
        if list(A.shape) != pre[na][3] or list(B.shape) != pre[nb][3] or len(la) != A.ndim or len(lb) != B.ndim:
            ctx.corr_fail(case, f"value: operand shapes {A.shape}, {B.shape} differ from the model's {pre[na][3]}, {pre[nb][3]}")
            continue
        if nnew not in post:
            ctx.corr_fail(case, "value: the model has no node with the new identifier after the contraction")
            continue
        shared = ("b", bond(na, nb))
        num = {}
        for l in la:
            num[("A", l)] = len(num)
        for l in lb:
            num[("B", l)] = len(num)
        dims = [int(d) for d in A.shape] + [int(d) for d in B.shape]
        owner = {l: "A" for l in la if l != shared}
        owner.update({l: "B" for l in lb if l != shared})
        p_, ch, op, sh = post[nnew]

        def nb_label(y):
            # the neighbour y of the new node was a neighbour of exactly one of the two contracted nodes
            for k in (na, nb):
                q_, cs, _o, _s = pre[k]
                if y == q_ or y in cs:
                    return ("b", bond(k, y))
            return None
        want = ([nb_label(p_)] if p_ is not None else []) + [nb_label(c) for c in ch] + [("o", l) for l in op]
        if any(l is None or l not in owner for l in want) or len(want) != len(owner) or len(set(want)) != len(want):
            ctx.corr_fail(case, f"value: the legs the model predicts for the new node {want} are not the remaining legs of the "
                                f"two operands {sorted(owner)}")
            continue
        free = [num[(owner[l], l)] for l in want]
        size = 1
        for l in free + [num[("A", shared)]]:
            size *= dims[l]
        if size > 40000:
            ctx.tally("value_compare", "skipped (too large)")
            continue
        lines.append(einsum_corr.einrec_line(dims, free, [(num[("A", shared)], num[("B", shared)])],
                                             [([num[("A", l)] for l in la], A), ([num[("B", l)] for l in lb], B)]))
        owners.append((case, got, sh))
    for (case, got, sh), ans in zip(owners, ctx.lean.batch(lines)):
        tab = einsum_corr.parse_table(ans, "full")
        if tab is None:
            ctx.corr_fail(case, f"value: the value-level model rejects the network of the two operands: [{ans[:120]}]")
        elif list(got.shape) != sh:
            ctx.corr_fail(case, f"value: shape of the new tensor {list(got.shape)} != model {sh}")
        elif not np.issubdtype(got.dtype, np.integer) or [int(v) for v in got.reshape(-1)] != tab:
            ctx.corr_fail(case, f"value: contract_nodes returns {[int(v) for v in np.asarray(got).real.reshape(-1)[:8]]}…, the Lean "
                                f"model's netValue with the predicted leg order is {tab[:8]}…")
        else:
            ctx.tally("value_compare", "exact")


def run_case(ctx, case, model_out=None):
    kind = case.get("kind", "hist")
    if kind == "hist":
        done, info, w = run_history(ctx, case)
        if w is None:
            ctx.count(("hist", case["seed"], case["n"], 0), nontrivial=False, corr=False)
            return
        nontrivial = len(info["kinds"]) >= 3 and (info["lazy"] or info["reuse"])
        ctx.count(("hist", case["seed"], case["n"], len(done)), nontrivial=nontrivial, corr=not w.no_model)
        aud = case.get("aud") or {}
        ctx.tally("element_type", aud.get("dtype", "complex"))
        ctx.tally("magnitude", f"{aud['scale']:g}" if aud.get("scale") else "1")
        ctx.tally("network_options", "+".join(k_ for k_ in ("deficient", "readonly", "names", "apr", "linked") if aud.get(k_)) or "-")
        if w.no_model:
            model_out = False           # the model has no add_parent_to_root: oracle only
        if model_out is False:
            model_out = None
        elif model_out is None:
            model_out = ctx.lean.batch(["C02 hist " + " ".join(info["toks"])])[0]
        elif callable(model_out):
            model_out(case, done, info)
            model_out = None
        if model_out is not None:
            compare_hist(ctx, case, done, info, model_out)
        ctx.tally("tree_size", case["n"])
        ctx.tally("history_len", 10 * (len(done) // 10))
        ctx.tally("final_nodes", len(w.exp.nodes))
        ctx.sample({k: v for k, v in case.items() if k != "ops"}, 3)
    elif kind == "nodeseq":
        toks, lines, probs, mtoks = run_nodeseq_impl(case)
        if model_out is None:
            model_out = ctx.lean.batch(["C02 nodeseq " + " ".join(mtoks)])[0]
        compare_nodeseq(ctx, case, toks, lines, probs, model_out)
    elif kind == "comp":
        run_comp(ctx, case)
    elif kind == "value":
        run_values(ctx, [case])
    else:
        raise common.HarnessError(f"unknown case kind {kind}")


def gen_cases(ctx) -> List[Dict[str, Any]]:
    rng = ctx.rng
    cases = []
    nh = ctx.n(1200, 4000)
    maxops = 30 if ctx.tier == "quick" else 200
    for _ in range(nh):
        n = rng.choice([1, 2, 3, 3, 4, 4, 5, 5, 6, 6, 7, 8])
        nops = rng.choice([maxops, maxops, rng.randint(3, maxops)])
        cases.append({"kind": "hist", "seed": rng.randrange(10 ** 9), "n": n, "nops": nops})
        if rng.random() < 0.6:
            cases[-1]["aud"] = audit_options(rng, n)
    for _ in range(ctx.n(3000, 20000)):
        cases.append({"kind": "nodeseq", "seed": rng.randrange(10 ** 9), "nops": rng.randint(2, 25)})
    for _ in range(ctx.n(150, 1500)):
        cases.append({"kind": "comp", "seed": rng.randrange(10 ** 9), "n": rng.choice([2, 3, 4, 5, 6, 7, 8]),
                      "nops": rng.randint(2, 10)})
    vrng = ctx.subrng("value")
    for _ in range(ctx.n(200, 2000)):
        cases.append({"kind": "value", "seed": vrng.randrange(10 ** 9), "n": vrng.choice([2, 2, 3, 4, 5, 6]),
                      "aud": {"dtype": "int"}})
    return cases


def load_corpus() -> List[Dict[str, Any]]:
    import json
    import os
    d = os.path.join(common.CORPUS_DIR, "C02")
    res = []
    if os.path.isdir(d):
        for f in sorted(os.listdir(d)):
            if f.endswith(".json"):
                payload = common.unjson(json.load(open(os.path.join(d, f))))
                res.append(payload.get("case", payload))
    return res


def run(ctx):
    cases = load_corpus() + gen_cases(ctx)
    # Node machine: run the implementation first, then one batched model call
    pending = []
    for case in cases:
        if case.get("kind") == "nodeseq":
            pending.append((case,) + run_nodeseq_impl(case))
    outs = ctx.lean.batch(["C02 nodeseq " + " ".join(t[4]) for t in pending])
    for (case, toks, lines, probs, _), out in zip(pending, outs):
        compare_nodeseq(ctx, case, toks, lines, probs, out)
    pend = []

    def flush():
        if pend:
            outs = ctx.lean.batch(["C02 hist " + " ".join(i["toks"]) for _, _, i in pend])
            for (c, d, i), out in zip(pend, outs):
                compare_hist(ctx, c, d, i, out)
            pend.clear()
    for case in cases:
        if ctx.time_left() < 0:
            break
        if case.get("kind", "hist") == "hist":
            run_case(ctx, case, model_out=lambda c, d, i: pend.append(
                (c, d, {"toks": i["toks"], "lines": i["lines"], "opidx": i["opidx"]})))
            if len(pend) >= 100:
                flush()
        elif case.get("kind") == "comp":
            run_case(ctx, case)
    flush()
    run_values(ctx, [c for c in cases if c.get("kind") == "value"])


def shrink(case):
    if case.get("kind") == "nodeseq" and case.get("toks"):
        toks = case["toks"]
        for i in range(1, len(toks) - 1):          # keep the link and the failing op
            yield dict(case, toks=toks[:i] + toks[i + 1:])
        return
    if case.get("kind") == "comp" and case.get("ops"):
        ops = case["ops"]
        for i in range(len(ops) - 1):               # keep the failing (last) op
            yield dict(case, ops=ops[:i] + ops[i + 1:])
        return
    if case.get("kind", "hist") != "hist" or not case.get("ops"):
        return
    ops = case["ops"]
    n = len(ops)
    # drop the tail after the failing op is implicit (ops ends at the failing op); drop chunks, then single ops
    size = max(1, n // 2)
    while size >= 1:
        for start in range(0, n - 1, size):
            cand = ops[:start] + ops[start + min(size, n - 1 - start):]
            if len(cand) < n and cand:
                yield dict(case, ops=cand)
        size //= 2
