"""C18 — the evolution driver records the right observables at the right times.

Stage B (correspondence with Lean model Ptn.C18): number of steps on the exact rational value of the
double T/dt; the schedule of steps/evaluations/table writes of `TimeEvolution.run`; key lookup.
Stage C (oracle): the recorded table against an independently stepped copy / dense references for
every concrete evolution class; caller's state untouched; run-reset-run; exact evolution = expm.
"""
from __future__ import annotations

import copy
import math
from fractions import Fraction

import numpy as np

from harness import gen, dense, algos

RULE = ("cases: (T,dt) pairs from a grid (exact double quotient sent to the model as a rational); "
        "(n,k) schedules through a counting subclass of TimeEvolution; concrete classes "
        "(exact, TEBD, 3 TDVPs, BUG, FixedBUG) on random 1-4 node systems with run/reset/run, also with default "
        "configurations, TTNO operators, the bond-dimension record, setter calls between runs; exact evolution of "
        "vectorised density matrices (open=True); typed / extreme (T,dt) pairs; run/reset/setter histories of the "
        "counting driver; random histories of run / reset / set_num_time_steps / "
        "set_num_time_steps_constant_final_time / run_one_time_step (also calls that raise) on a counting subclass of "
        "TTNTimeEvolution, on ExactTimeEvolution and on TEBD, compared event by event with the object machine of "
        "Ptn/C18/Machine.lean (IEEE double arithmetic on exact rationals). "
        "non-trivial = distinct case whose step count or schedule exercises rounding-up, k>1, 'inf', "
        "dict/list addressing or a concrete class")
PARTIAL = ["object aliasing (deepcopy really separates the caller's state) is decided by the oracle only",
           "accuracy of expm in the exact evolution is by contract (validated against an eig-based propagator, for "
           "Hermitian generators and for H0 - i*Gamma)"]
ASSUMPTIONS = ["math.modf and float division are exact on the double quotient; Python dict keys are distinct",
               "arithmetic contract of derived_consistent_invariant (the step count recomputed from the new (final_time, "
               "time_step_size) after a setter is the requested one) holds for IEEE doubles: validated on every live "
               "setter call of the history family; proved for exact arithmetic (admissible_exact)"]

# Families that are switched off because the UNCHANGED /repo fails them (possible genuine defects, reported to the
# coordinator; delete an entry once /repo is repaired or the finding is recorded in known_findings.json).
PENDING_FINDINGS = {}       # bonddim-after-reset: repaired in /repo (known_findings.json F-C18d)

GRID_T = [0.05, 0.1, 0.3, 0.5, 0.7, 1.0, 1.1, 1.5, 2.0, 2.3, 3.0, 4.1, 4.2, 1e-3, 0.33, 0.99, 7.0, 10.0]
GRID_DT = [0.01, 0.02, 0.03, 0.05, 0.07, 0.1, 0.11, 0.13, 0.2, 0.25, 0.3, 0.5, 0.9, 1.0, 1e-3, 1.0 / 3, 0.15]


def _counter_class():
    from pytreenet.time_evolution.time_evolution import TimeEvolution

    class Counting(TimeEvolution):
        def __init__(self, *a, **k):
            super().__init__(*a, **k)
            self.log = []

        def run_one_time_step(self, **kw):
            self.state = self.state + 1

        def evaluate_operator(self, operator):
            return 1000 * operator + self.state

        def save_operator_results(self, results, index):
            self.log.append((int(index), int(self.state)))
            super().save_operator_results(results, index)
    return Counting


def oracle_num_steps(T, dt) -> int:
    q = Fraction(float(T / dt))
    fl = q.numerator // q.denominator
    return fl if q - fl < Fraction(0.1) else fl + 1


TYPED = {"float": float, "int": int, "np.int64": np.int64, "np.float64": np.float64, "np.float32": np.float32,
         "bool": bool}


def _typed(case):
    """(T, dt) of a numsteps case in the argument types the case asks for (default: Python floats)."""
    ty = TYPED[case.get("ttype", "float")]
    return ty(case["T"]), ty(case["dt"])


# ------------------------------------------------------------------ cases

def gen_cases(ctx):
    rng = ctx.rng
    cases = []
    # 1. step count: full grid in thorough, sample in quick
    pairs = [(T, dt) for T in GRID_T for dt in GRID_DT]
    extra = ctx.n(300, 6000)
    for _ in range(extra):
        dt = rng.choice([rng.uniform(1e-3, 1.0), rng.choice(GRID_DT)])
        nsteps = rng.randint(1, 60)
        T = rng.choice([nsteps * dt, nsteps * dt + rng.uniform(0, dt), (nsteps + 0.1) * dt,
                        (nsteps + 0.1) * dt * (1 + rng.choice([-1, 1]) * 2 ** -rng.randint(40, 52))])
        pairs.append((T, dt))
    for T, dt in pairs:
        cases.append({"kind": "numsteps", "T": T, "dt": dt})
    # 2. schedules
    ns = list(range(0, 13)) + [17, 24, 30]
    for n in ns:
        for k in [1, 2, 3, 5, 7, max(n, 1), n + 1, "inf"]:
            for spec in ["single", "list", "dict"]:
                cases.append({"kind": "sched", "n": n, "k": k, "spec": spec, "dt": rng.choice(GRID_DT)})
    for T, dt in pairs:
        q = T / dt
        if q < 40:
            for k in (rng.choice([1, 2, 3]), "inf"):
                cases.append({"kind": "sched2", "T": T, "dt": dt, "k": k})
    if ctx.tier == "quick" and ctx.scale == 1:
        rng.shuffle(cases)
        num = [c for c in cases if c["kind"] == "numsteps"][:700]
        sch = [c for c in cases if c["kind"] == "sched"][:250]
        sch2 = [c for c in cases if c["kind"] == "sched2"][:250]
        cases = num + sch + sch2
    # 1b. step count in other argument types and at extreme magnitudes (input-space audit): integers, NumPy scalars,
    #     single precision (the quotient is then a float32), quotients up to 1e9, denormal-free tiny / huge scales
    arng = ctx.subrng("audit")
    for T, dt, ty in [(3, 1, "int"), (7, 2, "int"), (10, 3, "int"), (1, 3, "int"), (1, 7, "int"), (1, 1, "bool"),
                      (7, 2, "np.int64"), (31, 10, "np.int64"), (1.0, 0.1, "np.float32"), (0.7, 0.1, "np.float32"),
                      (2.3, 0.25, "np.float32"), (1.0, 0.3, "np.float64"), (4.1, 0.1, "np.float64"),
                      (1e6, 1e-3, "float"), (1.0, 1e-9, "float"), (123456.7, 1e-3, "float"), (1e-300, 1e-301, "float"),
                      (1.05e300, 1e299, "float"), (3.1e-7, 1e-7, "float"), (3.09e-7, 1e-7, "float")]:
        cases.append({"kind": "numsteps", "T": T, "dt": dt, "ttype": ty, "fam": "numsteps-typed"})
    for _ in range(ctx.n(60, 600)):
        dt = 10.0 ** arng.uniform(-9, 4)
        nsteps = arng.randint(1, 10 ** arng.choice([1, 3, 5, 7]))
        T = arng.choice([nsteps * dt, (nsteps + 0.1) * dt, (nsteps + arng.random()) * dt,
                         (nsteps + 0.1) * dt * (1 + arng.choice([-1, 1]) * 2 ** -arng.randint(30, 52))])
        cases.append({"kind": "numsteps", "T": T, "dt": dt, "ttype": arng.choice(["float", "float", "np.float64"]),
                      "fam": "numsteps-magnitude"})
    # 2b. histories of the counting driver: run / reset / setter / run, empty operator collections, NumPy-integer
    #     evaluation intervals, the accessor options (times(offset), realise)
    scripts = [["run", "reset", "run"], ["run", "run"], ["run", "reset", ["setn", 5], "run"],
               ["run", "reset", ["setc", 4], "run"], [["setc", 3], "run", "reset", "run"],
               [["setn", 0], "run", "reset", ["setn", 7], "run"], ["reset", "run", ["setc", 6], "reset", "run"]]
    for sc in scripts:
        for _ in range(ctx.n(4, 20)):
            cases.append({"kind": "hist", "script": sc, "n": arng.choice([0, 1, 2, 5, 9, 12]),
                          "k": arng.choice([1, 2, 3, 4, "inf"]), "ktype": arng.choice(["int", "np.int64", "np.int32"]),
                          "spec": arng.choice(["single", "list", "dict", "empty-list", "empty-dict"]),
                          "dt": arng.choice(GRID_DT)})
    # 2c. histories of the object machine (Ptn/C18/Machine.lean): random run / reset / setter / step sequences,
    #     including calls that raise, on three real classes
    hrng = ctx.subrng("drv")
    for _ in range(ctx.n(110, 900)):
        cases.append(gen_drv_case(hrng))
    # 3. concrete classes
    kinds = ["exact", "tebd", "tdvp1", "tdvp2", "tdvp2site", "bug", "fixedbug"]
    reps = ctx.n(16, 60)
    for r in range(reps):
        for kind in kinds:
            cases.append({"kind": "class", "algo": kind, "seed": rng.randrange(10 ** 9),
                          "n": rng.choice([2, 3, 3, 4]), "steps": rng.choice([2, 3, 4]),
                          "k": rng.choice([1, 2, "inf"]), "spec": rng.choice(["single", "list", "dict"]),
                          "gauge": rng.choice([None, "start", "start", "random"]),
                          "retime": rng.choice([None, None, None, 1, 2, 3, 5])})
    # 3b. concrete classes in configurations the cases above never use (input-space audit): default configuration
    #     objects (config=None, svd_parameters=None), TTNO operators, the bond-dimension record, a setter call between
    #     reset and the second run, one-node systems
    for r in range(ctx.n(5, 15)):
        for kind in kinds:
            ttn = kind != "exact"
            cases.append({"kind": "class", "algo": kind, "seed": arng.randrange(10 ** 9),
                          "n": arng.choice([2, 3, 3, 4]), "steps": arng.choice([2, 3, 4]),
                          "k": arng.choice([1, 2, "inf"]), "spec": arng.choice(["single", "list", "dict"]),
                          "gauge": arng.choice([None, "start", "random"]),
                          "retime": arng.choice([None, None, 2, 3]),
                          "cfg": arng.choice([None, "default", "default"]),
                          "bonddim": ttn and arng.random() < 0.6,
                          "opkind": "ttno" if ttn and arng.random() < 0.5 else "tp",
                          "retime2": arng.choice([None, 1, 2, 5]), "fam": "class-audit"})
    for kind in ["exact", "tdvp1", "bug", "fixedbug"]:
        for r in range(ctx.n(1, 4)):
            cases.append({"kind": "class", "algo": kind, "seed": arng.randrange(10 ** 9), "n": 1,
                          "steps": arng.choice([2, 3]), "k": arng.choice([1, 2, "inf"]),
                          "spec": arng.choice(["single", "list", "dict"]), "gauge": None, "retime": None,
                          "cfg": arng.choice([None, "default"]), "bonddim": False, "opkind": "tp",
                          "retime2": arng.choice([None, 2]), "fam": "class-one-node"})
    # 3c. exact evolution of a vectorised density matrix (ExactTimeEvolutionConfig(open=True))
    for r in range(ctx.n(8, 40)):
        cases.append({"kind": "open", "seed": arng.randrange(10 ** 9), "d": arng.choice([2, 3, 4]),
                      "steps": arng.choice([1, 2, 3, 4]), "k": arng.choice([1, 2, "inf"]),
                      "spec": arng.choice(["single", "list", "dict"]), "retime": arng.choice([None, None, 2, 3])})
    return cases


def gen_drv_case(rng):
    cls = rng.choice(["count", "count", "exact", "tebd"])
    dt = rng.choice([rng.choice(GRID_DT), rng.uniform(0.01, 0.6)])
    nst = rng.randint(1, 7)
    T = rng.choice([nst * dt, (nst + rng.random()) * dt, (nst + 0.1) * dt])
    events = []
    for _ in range(rng.randint(1, 8)):
        r = rng.random()
        if r < 0.34:
            events.append(["run", rng.choice([1, 1, 2, 3, 4, "inf", "inf", 0 if rng.random() < 0.3 else 2])])
        elif r < 0.50:
            events.append(["reset"])
        elif r < 0.68:
            events.append(["setn", rng.choice([0, 1, 2, 3, 4, 5, 6, 7, 3, -1 if rng.random() < 0.4 else 2])])
        elif r < 0.90:
            events.append(["setc", rng.choice([1, 2, 3, 4, 5, 6, 7, 3, 0 if rng.random() < 0.5 else 5,
                                               -2 if rng.random() < 0.3 else 4])])
        else:
            events.append(["step"])
    if not any(e[0] == "run" for e in events):
        events.append(["run", rng.choice([1, 2, "inf"])])
    return {"kind": "drv", "cls": cls, "dt": dt, "T": T, "rb": cls != "exact" and rng.random() < 0.7,
            "nops": rng.choice([1, 2, 3]) if cls != "tebd" else rng.choice([1, 2]), "events": events}


def _drv_model_line(case):
    dt, T = Fraction(float(case["dt"])), Fraction(float(case["T"]))
    evs = " ".join(e[0] if len(e) == 1 else f"{e[0]}:{e[1]}" for e in case["events"])
    return (f"C18 hist {dt.numerator} {dt.denominator} {T.numerator} {T.denominator} {1 if case['rb'] else 0} "
            f"{case['nops']} {evs}")


def _numsteps_line(case):
    T, dt = _typed(case)
    q = Fraction(float(T / dt))
    return f"C18 numsteps {q.numerator} {q.denominator}"


def run(ctx):
    import glob
    import json
    import os
    from harness import common
    # corpus first
    for path in sorted(glob.glob(os.path.join(common.CORPUS_DIR, "C18", "*.json"))):
        run_case(ctx, common.unjson(json.load(open(path))).get("case", {}))
    cases = gen_cases(ctx)
    lines, idx = [], []
    for i, c in enumerate(cases):
        if c["kind"] == "numsteps":
            lines.append(_numsteps_line(c))
            idx.append(i)
        elif c["kind"] == "sched":
            lines.append(f"C18 sched {c['n']} {c['k']}")
            idx.append(i)
        elif c["kind"] == "hist":
            ln = _hist_model_line(c)
            if ln:
                lines.append(ln)
                idx.append(i)
        elif c["kind"] == "drv":
            lines.append(_drv_model_line(c))
            idx.append(i)
    outs = ctx.lean.batch(lines)
    model = {i: o for i, o in zip(idx, outs)}
    for i, c in enumerate(cases):
        if ctx.time_left() < 0:
            break
        run_case(ctx, c, model.get(i))


def run_case(ctx, case, model_out=None):
    kind = case["kind"]
    if kind == "numsteps":
        _case_numsteps(ctx, case, model_out)
    elif kind == "sched":
        _case_sched(ctx, case, model_out)
    elif kind == "sched2":
        _case_sched2(ctx, case)
    elif kind == "hist":
        _case_hist(ctx, case, model_out)
    elif kind == "open":
        _case_open(ctx, case)
    elif kind == "drv":
        _case_drv(ctx, case, model_out)
    else:
        _case_class(ctx, case)


def _case_numsteps(ctx, case, model_out):
    from pytreenet.time_evolution.time_evolution import TimeEvolution
    T, dt = _typed(case)
    if model_out is None:
        model_out = ctx.lean.batch([_numsteps_line(case)])[0]
    try:
        impl = TimeEvolution(0, dt, T, []).num_time_steps
    except Exception as e:          # noqa: BLE001
        ctx.oracle_fail(case, f"driver construction raised {type(e).__name__}: {e}")
        return
    q = float(T / dt)
    frac = q - math.floor(q)
    ctx.count(("numsteps", case["T"], case["dt"], case.get("ttype", "float")), nontrivial=frac != 0.0, corr=True)
    ctx.tally("numsteps_branch", "up" if oracle_num_steps(T, dt) > math.floor(q) else "down")
    ctx.tally("numsteps_argtype", case.get("ttype", "float"))
    ctx.tally("numsteps_log10_quotient", int(math.floor(math.log10(q))) if q > 0 else "0")
    ctx.sample(case, 2)
    if str(impl) != model_out:
        ctx.corr_fail(case, f"numsteps: impl={impl} model={model_out} for T/dt={q!r}")
    want = oracle_num_steps(T, dt)
    if impl != want or isinstance(impl, bool) or not isinstance(impl, (int, np.integer)):
        ctx.oracle_fail(case, f"num_time_steps: T={T!r} dt={dt!r} gives {impl!r} steps, rule gives {want}")


def _case_sched(ctx, case, model_out):
    n, k, spec, dt = case["n"], case["k"], case["spec"], case["dt"]
    if model_out is None:
        model_out = ctx.lean.batch([f"C18 sched {n} {k}"])[0]
    Counting = _counter_class()
    ops = {"single": 7, "list": [3, 4, 5], "dict": {"zz": 3, "a": 4, "m": 5}}[spec]
    init = 0
    algo = Counting(init, dt, 1.0, ops)
    algo.set_num_time_steps(n)
    try:
        algo.run(evaluation_time=k, pgbar=False)
    except Exception as e:          # noqa: BLE001
        ctx.oracle_fail(case, f"run raised {type(e).__name__}: {e}")
        return
    ctx.count(("sched", n, k, spec), nontrivial=(k != 1), corr=True)
    ctx.tally("sched_k", "inf" if k == "inf" else ("1" if k == 1 else ">1"))
    ctx.tally("opspec", spec)
    ctx.sample(case, 4)
    res = algo.results
    impl = f"{res.shape[1]};{algo.state};" + ",".join(f"{c}:{s}:{s}" for c, s in algo.log)
    if impl != model_out:
        ctx.corr_fail(case, f"schedule: impl={impl} model={model_out}")
    # oracle: the property itself
    oplist = [ops] if spec == "single" else (ops if spec == "list" else list(ops.values()))
    if k == "inf":
        cols = [n]
    else:
        cols = list(range(0, n + 1, k))
    probs = []
    if res.shape != (len(oplist) + 1, len(cols)):
        probs.append(f"table shape {res.shape} expected {(len(oplist) + 1, len(cols))}")
    else:
        for j, steps in enumerate(cols):
            for r, op in enumerate(oplist):
                if res[r, j] != 1000 * op + steps:
                    probs.append(f"row {r} col {j}: {res[r, j]} expected value after {steps} steps")
            if res[-1, j] != steps * dt:
                probs.append(f"time col {j}: {res[-1, j]} expected {steps * dt}")
        if sorted(c for c, _ in algo.log) != list(range(len(cols))):
            probs.append(f"columns written {[c for c, _ in algo.log]} (each exactly once expected)")
        if algo.state != n:
            probs.append(f"{algo.state} steps performed, expected {n}")
        if spec == "dict":
            for key, op in ops.items():
                if not np.array_equal(algo.operator_result(key), res[list(ops).index(key)]):
                    probs.append(f"operator_result({key!r}) returns the wrong row")
                if not np.array_equal(algo.operator_result(key), np.array([1000 * op + s for s in cols])):
                    probs.append(f"operator_result({key!r}) != values of that operator")
        elif spec == "list":
            for pos, op in enumerate(ops):
                if not np.array_equal(algo.operator_result(pos), np.array([1000 * op + s for s in cols])):
                    probs.append(f"operator_result({pos}) != values of operator at position {pos}")
        else:
            if not np.array_equal(algo.operator_result(0), np.array([1000 * ops + s for s in cols])):
                probs.append("operator_result(0) != values of the single operator")
        if not np.array_equal(algo.times(), np.array([s * dt for s in cols])):
            probs.append("times() != j*k*dt")
        if not np.array_equal(algo.operator_results(), res[:-1]):
            probs.append("operator_results() != operator rows")
        if init != 0 or algo.initial_state != 0:
            probs.append("initial state changed")
    if probs:
        ctx.oracle_fail(case, "driver schedule: " + "; ".join(probs[:4]))


def _case_sched2(ctx, case):
    """The driver constructed from (T, dt) itself (n possibly rounded up): times are j*k*dt, also beyond T."""
    T, dt, k = case["T"], case["dt"], case["k"]
    Counting = _counter_class()
    try:
        algo = Counting(0, dt, T, [5, 6])
        algo.run(evaluation_time=k, pgbar=False)
    except Exception as e:          # noqa: BLE001
        ctx.oracle_fail(case, f"run raised {type(e).__name__}: {e}")
        return
    n = oracle_num_steps(T, dt)
    rounded_up = n * dt > T
    ctx.count(("sched2", T, dt, k), nontrivial=rounded_up)
    ctx.tally("sched2_rounded_up", rounded_up)
    cols = [n] if k == "inf" else list(range(0, n + 1, k))
    res = algo.results
    probs = []
    if res.shape != (3, len(cols)):
        probs.append(f"table shape {res.shape} expected {(3, len(cols))}")
    else:
        for j, steps in enumerate(cols):
            if res[0, j] != 5000 + steps or res[1, j] != 6000 + steps:
                probs.append(f"col {j}: values {res[0, j]}, {res[1, j]} expected state after {steps} steps")
            if res[-1, j] != steps * dt:
                probs.append(f"time col {j}: {res[-1, j]} expected {steps}*dt = {steps * dt} (T = {T})")
        if algo.state != n:
            probs.append(f"{algo.state} steps performed, expected {n}")
    if probs:
        ctx.oracle_fail(case, f"driver with T={T}, dt={dt}, k={k}: " + "; ".join(probs[:3]))


# ------------------------------------------------------------------ histories of the counting driver

HIST_OPS = {"single": 7, "list": [3, 4, 5], "dict": {"zz": 3, "a": 4, "m": 5}, "empty-list": [], "empty-dict": {}}


def _hist_start_n(case):
    n = case["n"]
    if n == 0 and any(isinstance(it, list) and it[0] == "setc" for it in case["script"]):
        n = 3           # a constant-final-time setter needs a positive final time
    return n


def _hist_model_line(case):
    """Model request for the LAST run of the script, if that run starts from a reset state."""
    n, last_reset, line = _hist_start_n(case), False, None
    for it in case["script"]:
        if it == "reset":
            last_reset = True
        elif it == "run":
            line = f"C18 sched {n} {case['k']}" if last_reset else None
            last_reset = False
        else:
            n = it[1]
    return line


def _case_hist(ctx, case, model_out=None):
    """run / reset / setter histories on the counting subclass: every run must produce the record the property states
    for the number of steps and the step size in force, starting from the state the history left."""
    Counting = _counter_class()
    spec, k = case["spec"], case["k"]
    ops = HIST_OPS[spec]
    ops = dict(ops) if isinstance(ops, dict) else (list(ops) if isinstance(ops, list) else ops)
    oplist = [ops] if spec == "single" else (list(ops.values()) if isinstance(ops, dict) else list(ops))
    kk = k if k == "inf" else {"int": int, "np.int64": np.int64, "np.int32": np.int32}[case.get("ktype", "int")](k)
    n, dt = _hist_start_n(case), case["dt"]
    ctx.count(("hist", json_key(case)), nontrivial=True, corr=_hist_model_line(case) is not None)
    ctx.tally("hist_script", " ".join(it if isinstance(it, str) else f"{it[0]}{it[1]}" for it in case["script"]))
    ctx.tally("hist_ktype", "inf" if k == "inf" else case.get("ktype", "int"))
    ctx.tally("opspec", spec)
    probs = []
    try:
        algo = Counting(0, dt, 1.0, ops)
        algo.set_num_time_steps(n)
        T = n * dt
        state, last_reset, last_log = 0, False, None
        for it in case["script"]:
            if it == "reset":
                algo.reset_to_initial_state()
                state, last_reset = 0, True
                continue
            if it != "run":
                if it[0] == "setn":
                    algo.set_num_time_steps(it[1])
                    n, T = it[1], it[1] * dt
                else:
                    algo.set_num_time_steps_constant_final_time(it[1])
                    n, dt = it[1], T / it[1]
                continue
            algo.log = []
            algo.run(evaluation_time=kk, pgbar=False)
            cols = [n] if k == "inf" else list(range(0, n + 1, k))
            res = algo.results
            tag = f"run with n={n}, dt={dt}, from state {state}: "
            if res.shape != (len(oplist) + 1, len(cols)):
                probs.append(tag + f"table shape {res.shape} expected {(len(oplist) + 1, len(cols))}")
                break
            for j, steps in enumerate(cols):
                for r, op in enumerate(oplist):
                    if res[r, j] != 1000 * op + state + steps:
                        probs.append(tag + f"row {r} col {j}: {res[r, j]} expected value after {steps} steps")
                if res[-1, j] != steps * dt:
                    probs.append(tag + f"time col {j}: {res[-1, j]} expected {steps}*{dt}")
            if sorted(c for c, _ in algo.log) != list(range(len(cols))):
                probs.append(tag + f"columns written {[c for c, _ in algo.log]} (each exactly once expected)")
            if algo.state != state + n:
                probs.append(tag + f"{algo.state - state} steps performed, expected {n}")
            if algo.num_time_steps != n or algo.time_step_size != dt:
                probs.append(tag + f"driver reports n={algo.num_time_steps}, dt={algo.time_step_size}")
            want_t = np.array([s * dt for s in cols])
            if not np.array_equal(algo.times(), want_t) or not np.array_equal(algo.times(offset=2.5), want_t + 2.5):
                probs.append(tag + "times() / times(offset) != j*k*dt (+ offset)")
            for r, op in enumerate(oplist):
                want_r = np.array([1000 * op + state + s for s in cols])
                keys = [r] + ([list(ops)[r]] if isinstance(ops, dict) else [])
                for key in keys:
                    if not np.array_equal(algo.operator_result(key), want_r) or \
                            not np.array_equal(algo.operator_result(key, realise=True), want_r.real) or \
                            np.iscomplexobj(algo.operator_result(key, realise=True)):
                        probs.append(tag + f"operator_result({key!r}) (plain / realise=True) != values of that operator")
            if algo.operator_results().shape != (len(oplist), len(cols)) or \
                    not np.array_equal(algo.operator_results(realise=True), np.real(res[:-1])):
                probs.append(tag + "operator_results() != operator rows")
            if not algo.results_real():
                probs.append(tag + "results_real() is False for a real record")
            last_log = (len(cols), algo.state, list(algo.log)) if last_reset else None
            state, last_reset = state + n, False
        if algo.initial_state != 0:
            probs.append("initial state changed")
    except Exception as e:          # noqa: BLE001
        ctx.oracle_fail(case, f"history {case['script']} raised {type(e).__name__}: {e}")
        return
    line = _hist_model_line(case)
    if line and last_log and not probs:
        if model_out is None:
            model_out = ctx.lean.batch([line])[0]
        impl = f"{last_log[0]};{last_log[1]};" + ",".join(f"{c}:{s}:{s}" for c, s in last_log[2])
        if impl != model_out:
            ctx.corr_fail(case, f"schedule of the last run: impl={impl} model={model_out}")
    if probs:
        ctx.oracle_fail(case, f"driver history {case['script']} (k={k}, {spec}): " + "; ".join(probs[:4]))


def json_key(case):
    import json
    return json.dumps(case, sort_keys=True, default=str)


# ------------------------------------------------------------------ histories of the object machine

def _frac(x):
    f = Fraction(float(x))
    return f"{f.numerator}/{f.denominator}"


class _TaggedArray(np.ndarray):
    """A propagator that remembers the step size it was computed for."""
    tag = None


class _TaggedList(list):
    tag = None


def _drv_mixin():
    """Instrumentation shared by the three driven classes: a log of the propagator tags used by the steps since
    construction / the last reset, the step count at every evaluation of the current table."""
    class Instrumented:
        def _verif_init(self):
            self.vlog = []          # tag of the propagator used by every step since the last reset
            self.vevals = None      # (column, steps done) per save_operator_results since the last init_results

        def init_results(self, evaluation_time=1):
            super().init_results(evaluation_time)
            self.vevals = []

        def save_operator_results(self, results, index):
            self.vevals.append((int(index), len(self.vlog)))
            super().save_operator_results(results, index)

        def run_one_time_step(self, **kw):
            self.vlog.append(self._verif_tag())
            super().run_one_time_step(**kw)
    return Instrumented


def _drv_build(case):
    """The real object of a `drv` case and a function returning the step size its stored propagator is for."""
    from pytreenet.time_evolution.ttn_time_evolution import TTNTimeEvolution, TTNTimeEvolutionConfig
    from pytreenet.time_evolution.exact_time_evolution import ExactTimeEvolution
    Mixin = _drv_mixin()
    dt, T, nops, rb = case["dt"], case["T"], case["nops"], case["rb"]
    if case["cls"] == "count":
        class CountingTTN(Mixin, TTNTimeEvolution):
            """No stored propagator: a step reads the step size when it is performed (as the TDVP classes do)."""
            def _verif_tag(self):
                return self.time_step_size

            def run_one_time_step(self, **kw):
                self.vlog.append(self._verif_tag())
                self.state = self.state + 1

            def evaluate_operator(self, operator):
                return 1000 * operator + self.state

            def obtain_bond_dims(self):
                return {("a", "b"): self.state, ("b", "c"): self.state}
        algo = CountingTTN(0, dt, T, list(range(nops)), config=TTNTimeEvolutionConfig(record_bond_dim=rb))
        algo._verif_init()
        return algo, {}
    if case["cls"] == "exact":
        class TaggedExact(Mixin, ExactTimeEvolution):
            def _compute_time_evolution_operator(self):
                out = super()._compute_time_evolution_operator().view(_TaggedArray)
                out.tag = self._time_step_size
                return out

            def _verif_tag(self):
                return self._time_evolution_operator.tag
        H = np.array([[0.7, 0.4 - 0.3j], [0.4 + 0.3j, -0.2]])
        psi = np.array([0.6, 0.8j])
        opm = [np.array([[1.0, 0], [0, -1.0]]), np.array([[0, 1.0], [1.0, 0]]), np.array([[0, -1j], [1j, 0]])][:nops]
        algo = TaggedExact(psi, H, dt, T, opm)
        algo._verif_init()
        return algo, {"H": H, "psi": psi, "ops": opm}
    import pytreenet as ptn
    from pytreenet.ttns.ttns import TreeTensorNetworkState
    from pytreenet.operators.tensorproduct import TensorProduct
    from pytreenet.time_evolution.trotter import TrotterSplitting
    from pytreenet.time_evolution.tebd import TEBD

    class TaggedTEBD(Mixin, TEBD):
        def _verif_tag(self):
            return self.exponents.tag
    psi = TreeTensorNetworkState()
    psi.add_root(ptn.Node(identifier="a"), np.array([[1, 2], [0.5, 1j]], dtype=complex))
    psi.add_child_to_parent(ptn.Node(identifier="b"), np.array([[1, 0], [1j, 1]], dtype=complex), 0, "a", 0)
    X, Z = np.array([[0, 1], [1, 0]], dtype=complex), np.diag([1.0, -1.0]).astype(complex)
    ts = TrotterSplitting.from_lists([TensorProduct({"a": X, "b": Z})])
    plain = ts.exponentiate_splitting

    def tagged(delta_time, *a, **k):
        out = _TaggedList(plain(delta_time, *a, **k))
        out.tag = delta_time
        return out
    ts.exponentiate_splitting = tagged
    opl = [TensorProduct({"a": Z}), TensorProduct({"b": X})][:nops]
    algo = TaggedTEBD(psi, ts, dt, T, opl, svd_parameters=_no_trunc(),
                      config=TTNTimeEvolutionConfig(record_bond_dim=rb))
    algo._verif_init()
    return algo, {}


def _drv_summary(case, algo, exc):
    """The summary line of the object, in the format of `Ptn.C18.summary`."""
    log = algo.vlog
    rle = []
    for t in log:
        if rle and rle[-1][0] == t:
            rle[-1][1] += 1
        else:
            rle.append([t, 1])
    steps = ",".join(f"{_frac(t)}*{c}" for t, c in rle)
    if algo._results is None:
        res = "none"
    else:
        tab = algo._results
        last = {}
        for col, cnt in algo.vevals:
            last[col] = cnt
        res = f"{tab.shape[0]}x{tab.shape[1]}:" + ",".join(
            f"{_frac(tab[-1, j].real)}@{last[j]}" if j in last else "z" for j in range(tab.shape[1]))
    bd = getattr(algo, "bond_dims", None)
    if bd is None:
        bond = "none"
    else:
        lists = [list(v) for v in bd.values()]
        if case["cls"] == "count":
            bond = "[" + ",".join(str(int(x)) for x in (lists[0] if lists else [])) + "]"
            if any(l != lists[0] for l in lists):
                bond += "!keys-differ"
        else:
            bond = f"len{len(lists[0]) if lists else 0}" + ("!keys-differ" if len({len(l) for l in lists}) > 1 else "")
    tag = algo._verif_tag()
    return (f"{exc or 'ok'}|{algo.num_time_steps}|{_frac(algo.time_step_size)}|{_frac(algo.final_time)}|{_frac(tag)}|"
            f"{steps}|{res}|{bond}")


def _drv_canon_model(case, seg):
    """The model's summary with the bond-dimension entries reduced to their number for TEBD (the model's entries are
    step counts, TEBD's are bond dimensions)."""
    parts = seg.split("|")
    if case["cls"] == "tebd" and len(parts) == 8 and parts[7].startswith("["):
        inner = parts[7][1:-1]
        parts[7] = f"len{len(inner.split(',')) if inner else 0}"
    return "|".join(parts)


def _case_drv(ctx, case, model_out=None):
    if model_out is None:
        model_out = ctx.lean.batch([_drv_model_line(case)])[0]
    cls, nops = case["cls"], case["nops"]
    ctx.count(("drv", json_key(case)), nontrivial=len(case["events"]) > 1, corr=True)
    ctx.tally("drv_class", cls)
    ctx.tally("drv_events", len(case["events"]))
    ctx.sample(case, 3)
    try:
        algo, aux = _drv_build(case)
    except Exception as e:          # noqa: BLE001
        ctx.oracle_fail(case, f"history driver ({cls}): construction raised {type(e).__name__}: {str(e)[:160]}")
        return
    impl = [_drv_summary(case, algo, None)]
    probs = []
    # the independent mirror of the user parameters (the oracle's own book keeping)
    dt, T = case["dt"], case["T"]
    n = oracle_num_steps(T, dt)
    if algo.num_time_steps != n:
        probs.append(f"construction: {algo.num_time_steps} steps, rule gives {n}")
    init_copy = copy.deepcopy(algo.initial_state)
    for ev in case["events"]:
        name = ev[0]
        ctx.tally("drv_event", name)
        exc = None
        before = len(algo.vlog)
        old_bond = copy.deepcopy(getattr(algo, "bond_dims", None))
        try:
            if name == "run":
                algo.run(evaluation_time=ev[1], pgbar=False)
            elif name == "reset":
                algo.reset_to_initial_state()
                algo.vlog = []          # the log counts the steps applied to the CURRENT state
            elif name == "setn":
                algo.set_num_time_steps(ev[1])
            elif name == "setc":
                algo.set_num_time_steps_constant_final_time(ev[1])
            else:
                algo.run_one_time_step()
        except (ValueError, ZeroDivisionError) as e:
            exc = type(e).__name__
        except Exception as e:          # noqa: BLE001
            probs.append(f"{ev}: raised {type(e).__name__}: {str(e)[:120]}")
            break
        impl.append(_drv_summary(case, algo, exc))
        tag = f"after {ev}: "
        if exc is not None:
            ctx.tally("drv_raised", f"{name}:{exc}")
            # a call that raised is not judged; the mirror is re-read from the object
            n, dt, T = algo.num_time_steps, algo.time_step_size, algo.final_time
            continue
        if name == "setn":
            n, T = ev[1], ev[1] * dt
        elif name == "setc":
            n, dt = ev[1], T / ev[1]
        if (algo.num_time_steps, algo.time_step_size, algo.final_time) != (n, dt, T):
            probs.append(tag + f"object reports n={algo.num_time_steps}, dt={algo.time_step_size}, "
                               f"T={algo.final_time}; expected {n}, {dt}, {T}")
            break
        if name in ("setn", "setc") and dt > 0 and T > 0:
            # the arithmetic contract of `derived_consistent_invariant` (Admissible) on this live call
            if oracle_num_steps(T, dt) != n:
                probs.append(tag + f"a fresh construction with T={T!r}, dt={dt!r} computes "
                                   f"{oracle_num_steps(T, dt)} steps, the object holds {n}")
            else:
                ctx.hyp_validated += 1
        if algo._verif_tag() != dt:
            probs.append(tag + f"stored propagator was computed for dt={algo._verif_tag()!r}, current dt={dt!r}")
        if cls == "exact" and dt < 3.0:
            # the tag is not trusted blindly: U = exp(-i dt H) is checked against an eig-based propagator
            w, V = np.linalg.eigh(aux["H"])
            ref = (V * np.exp(-1j * w * dt)) @ V.conj().T
            if np.linalg.norm(np.asarray(algo._time_evolution_operator) - ref) > 1e-12:
                probs.append(tag + f"stored propagator is not exp(-i*{dt}*H)")
        if name == "reset":
            st = algo.state
            same = (st == init_copy) if cls == "count" else (
                np.array_equal(st, init_copy) if cls == "exact" else
                all(np.array_equal(st.tensors[k], init_copy.tensors[k]) for k in init_copy.nodes))
            if not same:
                probs.append(tag + "state is not the initial state")
        if name == "step" and (len(algo.vlog) != before + 1 or algo.vlog[-1] != dt):
            probs.append(tag + f"step used a propagator for {algo.vlog[-1:]} (current dt={dt!r})")
        if name == "run":
            k = ev[1]
            cols = [n] if k == "inf" else list(range(0, n + 1, k))
            res = algo.results
            if res.shape != (nops + 1, len(cols)):
                probs.append(tag + f"table shape {res.shape}, expected {(nops + 1, len(cols))}")
                break
            new = algo.vlog[before:]
            if len(new) != n or any(t != dt for t in new):
                probs.append(tag + f"{len(new)} steps with propagators for {sorted(set(new))}; expected {n} steps "
                                   f"with dt={dt!r}")
            if [c for c, _ in algo.vevals] != list(range(len(cols))) or \
                    [c for _, c in algo.vevals] != [before + s for s in cols]:
                probs.append(tag + f"evaluations (column, steps done) {algo.vevals}; expected columns "
                                   f"0..{len(cols) - 1} after {[before + s for s in cols]} steps")
            for j, st in enumerate(cols):
                if res[-1, j] != st * dt:
                    probs.append(tag + f"time of column {j}: {res[-1, j]!r}, expected {st}*{dt!r}")
            tm = algo.times()
            if tm.shape != (len(cols),) or not np.array_equal(tm, np.array([st * dt for st in cols])):
                probs.append(tag + "times() is not j*k*dt for the current dt")
            bd = getattr(algo, "bond_dims", None)
            if case["rb"]:
                if bd is None or any(len(v) != len(cols) for v in bd.values()) or (len(cols) and not bd):
                    probs.append(tag + f"bond-dimension record has entries of lengths "
                                       f"{None if bd is None else [len(v) for v in bd.values()]}, the table has "
                                       f"{len(cols)} columns (old record: {old_bond})")
            elif bd is not None:
                probs.append(tag + "bond dimensions recorded although record_bond_dim is off")
            if cls == "count":
                for r in range(nops):
                    if not np.array_equal(res[r], np.array([1000 * r + before + s for s in cols])):
                        probs.append(tag + f"row {r}: {res[r]} is not the value after {cols} further steps")
            if cls == "exact":
                # every step multiplies by exp(-i tag H): the state after the logged steps is exp(-i H sum(tags)) psi
                w, V = np.linalg.eigh(aux["H"])
                c0 = V.conj().T @ aux["psi"]
                for j, st in enumerate(cols):
                    tau = sum(algo.vlog[:before + st])
                    v = V @ (np.exp(-1j * w * tau) * c0)
                    for r in range(nops):
                        want = v.conj() @ aux["ops"][r] @ v
                        if abs(res[r, j] - want) > 1e-9:
                            probs.append(tag + f"row {r} col {j}: recorded {res[r, j]:.10g}, <O> at evolved time "
                                               f"{tau!r} is {want:.10g}")
        if probs:
            break
    model = [_drv_canon_model(case, seg) for seg in model_out.split(";")]
    for i, (a, b) in enumerate(zip(impl, model)):
        if a != b:
            what = "construction" if i == 0 else f"event {i} {case['events'][i - 1]}"
            ctx.corr_fail(case, f"history ({cls}) {what}: impl={a} model={b}")
            break
    else:
        if len(impl) != len(model) and not probs:
            ctx.corr_fail(case, f"history ({cls}): {len(impl)} summaries from the code, {len(model)} from the model")
    if probs:
        ctx.oracle_fail(case, f"driver history ({cls}, events {case['events']}): " + "; ".join(probs[:4]))


# ------------------------------------------------------------------ exact evolution of a vectorised density matrix

def _case_open(ctx, case):
    """ExactTimeEvolutionConfig(open=True): the state is vec(rho), the generator any square matrix L on that space,
    the recorded value of an operator O is trace(O rho_t) with vec(rho_t) = exp(-i L t) vec(rho_0)."""
    from pytreenet.time_evolution.exact_time_evolution import ExactTimeEvolution, ExactTimeEvolutionConfig
    g = np.random.default_rng(case["seed"])
    d, steps, k, spec = case["d"], case["steps"], case["k"], case["spec"]
    A = g.standard_normal((d, d)) + 1j * g.standard_normal((d, d))
    rho = A @ A.conj().T
    rho = rho / np.trace(rho)
    L = (g.standard_normal((d * d, d * d)) + 1j * g.standard_normal((d * d, d * d))) / d
    opm = [g.standard_normal((d, d)) + 1j * g.standard_normal((d, d)) for _ in range(3)]
    ops = {"single": opm[0], "list": opm, "dict": {"c": opm[0], "a": opm[1], "b": opm[2]}}[spec]
    nops = 1 if spec == "single" else 3
    dt = 0.05
    T = steps * dt
    vec0 = rho.reshape(-1).copy()
    keep = vec0.copy()
    ctx.count(("open", case["seed"]), nontrivial=True)
    ctx.tally("class", "exact-open")
    try:
        algo = ExactTimeEvolution(vec0, L, dt, T, ops, ExactTimeEvolutionConfig(open=True))
        if case.get("retime"):
            algo.set_num_time_steps_constant_final_time(case["retime"])
            steps, dt = case["retime"], T / case["retime"]
        algo.run(evaluation_time=k, pgbar=False)
    except Exception as e:          # noqa: BLE001
        ctx.oracle_fail(case, f"exact (open): construction/run raised {type(e).__name__}: {str(e)[:200]}")
        return
    probs = []
    cols = [steps] if k == "inf" else list(range(0, steps + 1, k))
    res = algo.results
    if res.shape != (nops + 1, len(cols)):
        probs.append(f"table shape {res.shape} expected {(nops + 1, len(cols))}")
    else:
        w, V = np.linalg.eig(L)
        c0 = np.linalg.solve(V, keep)
        for j, s in enumerate(cols):
            vt = V @ (np.exp(-1j * w * s * dt) * c0)
            for r in range(nops):
                want = np.trace(opm[r] @ vt.reshape(d, d))
                if abs(res[r, j] - want) > 1e-9 * max(np.linalg.norm(opm[r]) * np.linalg.norm(vt), abs(want)):
                    probs.append(f"row {r} col {j}: recorded {res[r, j]:.10g} but trace(O rho) after {s} steps is {want:.10g}")
            if res[-1, j] != s * dt:
                probs.append(f"time col {j}: {res[-1, j]} != {s * dt}")
        vt = V @ (np.exp(-1j * w * steps * dt) * c0)
        if np.linalg.norm(np.asarray(algo.state).reshape(-1) - vt) > 1e-9 * np.linalg.norm(vt):
            probs.append("final state differs from exp(-i L T) vec(rho)")
    if not np.array_equal(vec0, keep) or np.shares_memory(vec0, np.asarray(algo.state)):
        probs.append("caller's state array modified / shared with the working state")
    first = np.array(res, copy=True)
    try:
        algo.reset_to_initial_state()
        algo.run(evaluation_time=k, pgbar=False)
        if first.shape != algo.results.shape or not np.allclose(first, algo.results, rtol=1e-9, atol=0.0):
            probs.append("second run after reset does not reproduce the first record")
    except Exception as e:          # noqa: BLE001
        probs.append(f"run after reset raised {type(e).__name__}: {str(e)[:120]}")
    if probs:
        ctx.oracle_fail(case, f"exact (open, k={k}, {spec}): " + "; ".join(probs[:4]))


# ------------------------------------------------------------------ concrete classes

def _build_problem(case):
    import random
    from pytreenet.operators.tensorproduct import TensorProduct
    rng = random.Random(case["seed"])
    nprng = np.random.default_rng(case["seed"])
    n = case["n"]
    par = gen.random_parent_array(rng, n)
    ttns, info = gen.random_ttns(rng, nprng, par, phys=(2,), bonds=(1, 2, 2))
    names = info["names"]
    phys = {i: info["open"][i][0] for i in range(n)}
    H, Hm = algos.hermitian_ttno(rng, nprng, par, phys, names, n_terms=2)
    order = sorted(ttns.nodes)
    # the caller may hand over a state that is already canonical: at the node the TDVP sweep starts from,
    # or anywhere else (derived data such as the gauge centre and caches must still be rebuilt on reset)
    gauge = case.get("gauge")
    if gauge:
        from pytreenet.util.tensor_splitting import SplitMode
        from pytreenet.time_evolution.time_evo_util.update_path import TDVPUpdatePathFinder
        if gauge == "start":
            centre = TDVPUpdatePathFinder(ttns).find_path()[0]
        else:
            centre = order[case["seed"] % len(order)]
        ttns.canonical_form(centre, mode=SplitMode.KEEP if case["seed"] % 2 else SplitMode.REDUCED)
    dims = dense.phys_dims(ttns, order)
    opmats, tps = [], []
    for _ in range(3):
        sites = rng.sample(order, rng.randint(1, min(2, n)))
        d = {s: gen.rand_tensor(nprng, (2, 2)) for s in sites}
        tps.append(TensorProduct(d))
        opmats.append(dense.embed_ops(d, order, dims))
    return rng, nprng, par, ttns, info, H, Hm, order, dims, tps, opmats


def _make(case, ttns, H, Hm, order, dims, ops, dt, T, rng, nprng):
    from pytreenet.operators.tensorproduct import TensorProduct
    kind = case["algo"]
    default = case.get("cfg") == "default"      # config=None / svd_parameters=None: the documented defaults
    bd = bool(case.get("bonddim"))              # config.record_bond_dim=True
    if kind == "exact":
        from pytreenet.time_evolution.exact_time_evolution import ExactTimeEvolution
        return ExactTimeEvolution(dense.ttns_vector(ttns, order), _exact_generator(case, Hm), dt, T, ops)
    if kind == "tebd":
        from pytreenet.time_evolution.trotter import TrotterSplitting
        # nearest-neighbour Hermitian terms along tree edges
        tps = []
        for nid in order:
            p = ttns.nodes[nid].parent
            if p is not None:
                a = gen.rand_hermitian(nprng, 2)
                b = gen.rand_hermitian(nprng, 2)
                tps.append(TensorProduct({nid: a, p: b}))
        if not (default or bd):
            return algos.make_algo("tebd", ttns, None, dt, T, ops, trotter=TrotterSplitting.from_lists(tps))
        from pytreenet.time_evolution.tebd import TEBD
        from pytreenet.time_evolution.ttn_time_evolution import TTNTimeEvolutionConfig
        return TEBD(ttns, TrotterSplitting.from_lists(tps), dt, T, ops,
                    svd_parameters=None if default else _no_trunc(),
                    config=TTNTimeEvolutionConfig(record_bond_dim=True) if bd else None)
    if not (default or bd):
        return algos.make_algo(kind, ttns, H, dt, T, ops)
    from pytreenet.time_evolution.time_evolution import TimeEvoMode
    mode = TimeEvoMode.FASTEST if default else TimeEvoMode.EXPM
    if kind in ("tdvp1", "tdvp2", "tdvp2site"):
        from pytreenet.time_evolution.tdvp_algorithms.tdvp_algorithm import TDVPConfig
        cfg = TDVPConfig(record_bond_dim=True, time_evo_mode=mode) if bd else None
        cls = algos.tdvp_classes()[kind]
        if kind == "tdvp2site":
            return cls(ttns, H, dt, T, ops, None if default else _no_trunc(), config=cfg)
        return cls(ttns, H, dt, T, ops, config=cfg)
    if kind == "bug":
        from pytreenet.time_evolution.bug import BUG, BUGConfig
        if default:
            return BUG(ttns, H, dt, T, ops, config=BUGConfig(record_bond_dim=True) if bd else None)
        return BUG(ttns, H, dt, T, ops, config=BUGConfig(record_bond_dim=True, time_evo_mode=mode,
                                                          max_bond_dim=float("inf"), rel_tol=float("-inf"),
                                                          total_tol=float("-inf")))
    from pytreenet.time_evolution.fixed_bug import FixedBUG, FixedBUGConfig
    return FixedBUG(ttns, H, dt, T, ops,
                    config=FixedBUGConfig(record_bond_dim=True, time_evo_mode=mode) if bd else None)


def _no_trunc():
    from pytreenet.util.tensor_splitting import SVDParameters
    return SVDParameters(max_bond_dim=float("inf"), rel_tol=float("-inf"), total_tol=float("-inf"))


def _bond_dims(state):
    """Bond dimensions read off the tensor shapes (leg 0 of a non-root tensor is the leg to its parent)."""
    return {frozenset((nd.parent, nid)): int(state.tensors[nid].shape[0])
            for nid, nd in state.nodes.items() if nd.parent is not None}


def _exact_generator(case, Hm):
    """The exact reference evolution takes any square generator: Hermitian, or H0 - i*Gamma (decay)."""
    if case["seed"] % 3 != 0:
        return Hm
    g = np.random.default_rng(case["seed"] + 17)
    A = g.standard_normal(Hm.shape) + 1j * g.standard_normal(Hm.shape)
    return Hm - 0.5j * (A @ A.conj().T) / Hm.shape[0]


def _state_vec(algo, case, order):
    if case["algo"] == "exact":
        return np.asarray(algo.state).reshape(-1)
    return dense.ttns_vector(algo.state, order)


def _check_record(case, algo, twin, k, dt, want_steps, nops, opmats, order, v_init, Hm, probs, tag=""):
    """The record of the run just performed against an independently stepped twin (dense expectation values).
    Returns the bond dimensions of the twin at the evaluated steps (one dict per column)."""
    kind = case["algo"]
    n = algo.num_time_steps
    if n != want_steps:
        probs.append(tag + f"num_time_steps {n} != {want_steps}")
    cols = [n] if k == "inf" else list(range(0, n + 1, k))
    res = algo.results
    bd_cols = []
    if res.shape != (nops + 1, len(cols)):
        probs.append(tag + f"table shape {res.shape} expected {(nops + 1, len(cols))}")
        return None
    cur = 0
    for j, s in enumerate(cols):
        while cur < s:
            twin.run_one_time_step()
            cur += 1
        v = _state_vec(twin, case, order)
        if kind != "exact":
            bd_cols.append(_bond_dims(twin.state))
        for r in range(nops):
            want = algos.expval_dense(v, opmats[r])
            if abs(res[r, j] - want) > 1e-8 * max(1.0, abs(want)):
                probs.append(tag + f"row {r} col {j}: recorded {res[r, j]:.10g} but <O> after {s} steps is {want:.10g}")
        if res[-1, j] != s * dt:
            probs.append(tag + f"time col {j}: {res[-1, j]} != {s * dt}")
        if kind == "exact":
            G = _exact_generator(case, Hm)
            w, V = np.linalg.eig(G)          # generic matrices are diagonalisable
            ref = V @ (np.exp(-1j * w * s * dt) * np.linalg.solve(V, v_init))
            if np.linalg.norm(v - ref) > 1e-9 * max(1.0, np.linalg.norm(ref)):
                probs.append(tag + f"exact evolution after {s} steps differs from exp(-iH t) psi")
    return bd_cols


def _check_bond_record(algo, bd_cols, probs, tag):
    """operator_result('bond_dim') / bond_dim_matrix() / max_bond_dim() against the twin's tensor shapes."""
    try:
        rec = algo.operator_result("bond_dim")
        got = {frozenset(key): [int(x) for x in val] for key, val in rec.items()}
    except Exception as e:          # noqa: BLE001
        probs.append(tag + f"bond-dimension record not readable: {type(e).__name__}: {str(e)[:100]}")
        return
    edges = set(bd_cols[0]) if bd_cols else set()
    want = {e: [c[e] for c in bd_cols] for e in edges}
    if got != want:
        bad = next((e for e in edges if got.get(e) != want[e]), None)
        probs.append(tag + f"bond-dimension record differs from the bond dimensions at the {len(bd_cols)} evaluated "
                           f"steps (bond {sorted(bad) if bad else sorted(map(sorted, set(got) ^ edges))}: recorded "
                           f"{got.get(bad)}, state had {want.get(bad)})")
        return
    if edges:
        try:
            mat, mx = np.asarray(algo.bond_dim_matrix()), np.asarray(algo.max_bond_dim())
        except Exception as e:      # noqa: BLE001
            probs.append(tag + f"bond_dim_matrix / max_bond_dim raised {type(e).__name__}: {str(e)[:100]}")
            return
        if mat.shape != (len(edges), len(bd_cols)) or sorted(map(tuple, mat.tolist())) != sorted(map(tuple, want.values())):
            probs.append(tag + "bond_dim_matrix() is not the table of recorded bond dimensions")
        if mx.tolist() != [max(c.values()) for c in bd_cols]:
            probs.append(tag + "max_bond_dim() is not the largest bond dimension per evaluated step")


def _case_class(ctx, case):
    rng, nprng, par, ttns, info, H, Hm, order, dims, tps, opmats = _build_problem(case)
    kind, steps, k, spec = case["algo"], case["steps"], case["k"], case["spec"]
    dt = 0.05
    T = steps * dt
    if kind == "exact":
        opl = opmats
    else:
        opl = tps
        if case.get("opkind") == "ttno":
            # an operator given as a TTNO (the Hamiltonian itself): its dense matrix is read off its tensors
            opl = [H] + list(tps[1:])
            opmats = [Hm] + list(opmats[1:])
    ops = {"single": opl[0], "list": opl, "dict": {"c": opl[0], "a": opl[1], "b": opl[2]}}[spec]
    nops = 1 if spec == "single" else 3
    bd = bool(case.get("bonddim")) and kind != "exact"
    ctx.count(("class", kind, case["seed"]), nontrivial=True, corr=False)
    ctx.tally("class", kind)
    for key, val in (("config", case.get("cfg") or "explicit"), ("opkind", case.get("opkind", "tp")),
                     ("bonddim_recorded", bd), ("setter_after_reset", bool(case.get("retime2"))),
                     ("class_nodes", case["n"])):
        ctx.tally(key, val)
    ctx.sample({kk: case[kk] for kk in case}, 6)
    snapshot = copy.deepcopy(ttns)
    v_init = dense.ttns_vector(snapshot, order)

    def twin_for(step_size):
        return _make(case, copy.deepcopy(snapshot), H, Hm, order, dims, ops, step_size, T, *(_rng_pair(case)))

    try:
        algo = _make(case, ttns, H, Hm, order, dims, ops, dt, T, rng, nprng)
        if case.get("retime"):
            # the step size is changed through the class's own public setter before the run: "final time T, step dt"
            # are then T and T/m, and everything stated about dt is stated about the step size in force
            m = case["retime"]
            algo.set_num_time_steps_constant_final_time(m)
            steps, dt = m, T / m
            ctx.tally("retimed", kind)
        twin = twin_for(dt)
        algo.run(evaluation_time=k, pgbar=False)
    except Exception as e:          # noqa: BLE001
        ctx.oracle_fail(case, f"{kind}: construction/run raised {type(e).__name__}: {str(e)[:200]}")
        return
    probs = []
    res = algo.results
    bd_cols = _check_record(case, algo, twin, k, dt, steps, nops, opmats, order, v_init, Hm, probs)
    if bd_cols is not None:
        if spec == "dict":
            for key, row in (("c", 0), ("a", 1), ("b", 2)):
                if not np.array_equal(algo.operator_result(key), res[row]):
                    probs.append(f"operator_result({key!r}) is not row {row}")
        if bd:
            _check_bond_record(algo, bd_cols, probs, "first run: ")
    # the caller's state object is never modified
    if kind != "exact":
        if dense.structure(ttns) != dense.structure(snapshot):
            probs.append("caller's state: structure modified")
        elif not np.array_equal(dense.ttns_vector(ttns, order), v_init):
            probs.append("caller's state: contraction modified")
        else:
            for nid in ttns.nodes:
                if not np.array_equal(ttns.tensors[nid], snapshot.tensors[nid]):
                    probs.append(f"caller's state: tensor {nid} modified")
                if nid in algo.state.nodes and np.shares_memory(ttns.tensors[nid], algo.state.tensors[nid]):
                    probs.append(f"caller's tensor {nid} shares memory with the working state")
    # run / reset / run
    first = np.array(res, copy=True)
    try:
        algo.reset_to_initial_state()
        algo.run(evaluation_time=k, pgbar=False)
        second = algo.results
        if first.shape != second.shape or not np.allclose(first, second, rtol=1e-9, atol=1e-10):
            probs.append("second run after reset does not reproduce the first record")
        if bd and bd_cols is not None and "bonddim-after-reset" not in PENDING_FINDINGS:
            _check_bond_record(algo, bd_cols, probs, "second run after reset: ")
    except Exception as e:          # noqa: BLE001
        probs.append(f"run after reset raised {type(e).__name__}: {str(e)[:120]}")
    # run / reset / setter / run: the third record is the one of the new step size, from the initial state
    if case.get("retime2") and not probs:
        m2 = case["retime2"]
        try:
            algo.reset_to_initial_state()
            algo.set_num_time_steps_constant_final_time(m2)
            twin2 = twin_for(T / m2)
            algo.run(evaluation_time=k, pgbar=False)
            _check_record(case, algo, twin2, k, T / m2, m2, nops, opmats, order, v_init, Hm, probs,
                          tag=f"after reset and set_num_time_steps_constant_final_time({m2}): ")
        except Exception as e:      # noqa: BLE001
            probs.append(f"run after reset and step-size setter raised {type(e).__name__}: {str(e)[:120]}")
    if probs:
        ctx.oracle_fail(case, f"{kind} (k={k}, {spec}): " + "; ".join(probs[:4]))


def _rng_pair(case):
    """Re-create the rng state `_make` sees (TEBD draws its Hamiltonian terms there)."""
    import random
    rng = random.Random(case["seed"])
    nprng = np.random.default_rng(case["seed"])
    # replay the draws of _build_problem so that both instances get identical TEBD terms
    n = case["n"]
    par = gen.random_parent_array(rng, n)
    ttns, info = gen.random_ttns(rng, nprng, par, phys=(2,), bonds=(1, 2, 2))
    phys = {i: info["open"][i][0] for i in range(n)}
    algos.hermitian_ttno(rng, nprng, par, phys, info["names"], n_terms=2)
    order = sorted(ttns.nodes)
    for _ in range(3):
        sites = rng.sample(order, rng.randint(1, min(2, n)))
        for s in sites:
            gen.rand_tensor(nprng, (2, 2))
    return rng, nprng


def shrink(case):
    if case["kind"] == "class":
        if case["n"] > 2:
            yield dict(case, n=case["n"] - 1)
        if case["steps"] > 1:
            yield dict(case, steps=case["steps"] - 1)
        if case["spec"] != "single":
            yield dict(case, spec="single")
    elif case["kind"] == "sched":
        if case["n"] > 0:
            yield dict(case, n=case["n"] - 1)
    elif case["kind"] == "drv":
        evs = case["events"]
        for i in range(len(evs)):
            if len(evs) > 1:
                yield dict(case, events=evs[:i] + evs[i + 1:])
        if case["nops"] > 1:
            yield dict(case, nops=1)
        if case["rb"]:
            yield dict(case, rb=False)
