"""C18 — the evolution driver records the right observables at the right times.

Stage B (correspondence with Lean model Ptn.C18): number of steps on the exact rational value of the
double T/dt; the schedule of steps/evaluations/table writes of `TimeEvolution.run`; key lookup.
Stage C (oracle): the recorded table against an independently stepped copy / dense references for
every concrete evolution class; caller's state untouched; run-reset-run; exact evolution = expm.
"""
from __future__ import annotations

import copy
import math
from fractions import Fraction

import numpy as np

from harness import gen, dense, algos

RULE = ("cases: (T,dt) pairs from a grid (exact double quotient sent to the model as a rational); "
        "(n,k) schedules through a counting subclass of TimeEvolution; concrete classes "
        "(exact, TEBD, 3 TDVPs, BUG, FixedBUG) on random 2-4 node systems with run/reset/run. "
        "non-trivial = distinct case whose step count or schedule exercises rounding-up, k>1, 'inf', "
        "dict/list addressing or a concrete class")
PARTIAL = ["object aliasing (deepcopy really separates the caller's state) is decided by the oracle only",
           "accuracy of expm in the exact evolution is by contract (validated against an eig-based propagator, for "
           "Hermitian generators and for H0 - i*Gamma)"]
ASSUMPTIONS = ["math.modf and float division are exact on the double quotient; Python dict keys are distinct"]

GRID_T = [0.05, 0.1, 0.3, 0.5, 0.7, 1.0, 1.1, 1.5, 2.0, 2.3, 3.0, 4.1, 4.2, 1e-3, 0.33, 0.99, 7.0, 10.0]
GRID_DT = [0.01, 0.02, 0.03, 0.05, 0.07, 0.1, 0.11, 0.13, 0.2, 0.25, 0.3, 0.5, 0.9, 1.0, 1e-3, 1.0 / 3, 0.15]


def _counter_class():
    from pytreenet.time_evolution.time_evolution import TimeEvolution

    class Counting(TimeEvolution):
        def __init__(self, *a, **k):
            super().__init__(*a, **k)
            self.log = []

        def run_one_time_step(self, **kw):
            self.state = self.state + 1

        def evaluate_operator(self, operator):
            return 1000 * operator + self.state

        def save_operator_results(self, results, index):
            self.log.append((int(index), int(self.state)))
            super().save_operator_results(results, index)
    return Counting


def oracle_num_steps(T: float, dt: float) -> int:
    q = Fraction(T / dt)
    fl = q.numerator // q.denominator
    return fl if q - fl < Fraction(0.1) else fl + 1


# ------------------------------------------------------------------ cases

def gen_cases(ctx):
    rng = ctx.rng
    cases = []
    # 1. step count: full grid in thorough, sample in quick
    pairs = [(T, dt) for T in GRID_T for dt in GRID_DT]
    extra = ctx.n(300, 6000)
    for _ in range(extra):
        dt = rng.choice([rng.uniform(1e-3, 1.0), rng.choice(GRID_DT)])
        nsteps = rng.randint(1, 60)
        T = rng.choice([nsteps * dt, nsteps * dt + rng.uniform(0, dt), (nsteps + 0.1) * dt,
                        (nsteps + 0.1) * dt * (1 + rng.choice([-1, 1]) * 2 ** -rng.randint(40, 52))])
        pairs.append((T, dt))
    for T, dt in pairs:
        cases.append({"kind": "numsteps", "T": T, "dt": dt})
    # 2. schedules
    ns = list(range(0, 13)) + [17, 24, 30]
    for n in ns:
        for k in [1, 2, 3, 5, 7, max(n, 1), n + 1, "inf"]:
            for spec in ["single", "list", "dict"]:
                cases.append({"kind": "sched", "n": n, "k": k, "spec": spec, "dt": rng.choice(GRID_DT)})
    for T, dt in pairs:
        q = T / dt
        if q < 40:
            for k in (rng.choice([1, 2, 3]), "inf"):
                cases.append({"kind": "sched2", "T": T, "dt": dt, "k": k})
    if ctx.tier == "quick" and ctx.scale == 1:
        rng.shuffle(cases)
        num = [c for c in cases if c["kind"] == "numsteps"][:700]
        sch = [c for c in cases if c["kind"] == "sched"][:250]
        sch2 = [c for c in cases if c["kind"] == "sched2"][:250]
        cases = num + sch + sch2
    # 3. concrete classes
    kinds = ["exact", "tebd", "tdvp1", "tdvp2", "tdvp2site", "bug", "fixedbug"]
    reps = ctx.n(16, 60)
    for r in range(reps):
        for kind in kinds:
            cases.append({"kind": "class", "algo": kind, "seed": rng.randrange(10 ** 9),
                          "n": rng.choice([2, 3, 3, 4]), "steps": rng.choice([2, 3, 4]),
                          "k": rng.choice([1, 2, "inf"]), "spec": rng.choice(["single", "list", "dict"]),
                          "gauge": rng.choice([None, "start", "start", "random"]),
                          "retime": rng.choice([None, None, None, 1, 2, 3, 5])})
    return cases


def run(ctx):
    cases = gen_cases(ctx)
    # corpus first
    lines, idx = [], []
    for i, c in enumerate(cases):
        if c["kind"] == "numsteps":
            q = Fraction(c["T"] / c["dt"])
            lines.append(f"C18 numsteps {q.numerator} {q.denominator}")
            idx.append(i)
        elif c["kind"] == "sched":
            lines.append(f"C18 sched {c['n']} {c['k']}")
            idx.append(i)
    outs = ctx.lean.batch(lines)
    model = {i: o for i, o in zip(idx, outs)}
    for i, c in enumerate(cases):
        if ctx.time_left() < 0:
            break
        run_case(ctx, c, model.get(i))


def run_case(ctx, case, model_out=None):
    kind = case["kind"]
    if kind == "numsteps":
        _case_numsteps(ctx, case, model_out)
    elif kind == "sched":
        _case_sched(ctx, case, model_out)
    elif kind == "sched2":
        _case_sched2(ctx, case)
    else:
        _case_class(ctx, case)


def _case_numsteps(ctx, case, model_out):
    from pytreenet.time_evolution.time_evolution import TimeEvolution
    T, dt = case["T"], case["dt"]
    if model_out is None:
        q = Fraction(T / dt)
        model_out = ctx.lean.batch([f"C18 numsteps {q.numerator} {q.denominator}"])[0]
    try:
        impl = TimeEvolution(0, dt, T, []).num_time_steps
    except Exception as e:          # noqa: BLE001
        ctx.oracle_fail(case, f"driver construction raised {type(e).__name__}: {e}")
        return
    q = T / dt
    frac = q - math.floor(q)
    ctx.count(("numsteps", T, dt), nontrivial=frac != 0.0, corr=True)
    ctx.tally("numsteps_branch", "up" if oracle_num_steps(T, dt) > math.floor(q) else "down")
    ctx.sample(case, 2)
    if str(impl) != model_out:
        ctx.corr_fail(case, f"numsteps: impl={impl} model={model_out} for T/dt={q!r}")
    want = oracle_num_steps(T, dt)
    if impl != want:
        ctx.oracle_fail(case, f"num_time_steps: T={T} dt={dt} gives {impl} steps, rule gives {want}")


def _case_sched(ctx, case, model_out):
    n, k, spec, dt = case["n"], case["k"], case["spec"], case["dt"]
    if model_out is None:
        model_out = ctx.lean.batch([f"C18 sched {n} {k}"])[0]
    Counting = _counter_class()
    ops = {"single": 7, "list": [3, 4, 5], "dict": {"zz": 3, "a": 4, "m": 5}}[spec]
    init = 0
    algo = Counting(init, dt, 1.0, ops)
    algo.set_num_time_steps(n)
    try:
        algo.run(evaluation_time=k, pgbar=False)
    except Exception as e:          # noqa: BLE001
        ctx.oracle_fail(case, f"run raised {type(e).__name__}: {e}")
        return
    ctx.count(("sched", n, k, spec), nontrivial=(k != 1), corr=True)
    ctx.tally("sched_k", "inf" if k == "inf" else ("1" if k == 1 else ">1"))
    ctx.tally("opspec", spec)
    ctx.sample(case, 4)
    res = algo.results
    impl = f"{res.shape[1]};{algo.state};" + ",".join(f"{c}:{s}:{s}" for c, s in algo.log)
    if impl != model_out:
        ctx.corr_fail(case, f"schedule: impl={impl} model={model_out}")
    # oracle: the property itself
    oplist = [ops] if spec == "single" else (ops if spec == "list" else list(ops.values()))
    if k == "inf":
        cols = [n]
    else:
        cols = list(range(0, n + 1, k))
    probs = []
    if res.shape != (len(oplist) + 1, len(cols)):
        probs.append(f"table shape {res.shape} expected {(len(oplist) + 1, len(cols))}")
    else:
        for j, steps in enumerate(cols):
            for r, op in enumerate(oplist):
                if res[r, j] != 1000 * op + steps:
                    probs.append(f"row {r} col {j}: {res[r, j]} expected value after {steps} steps")
            if res[-1, j] != steps * dt:
                probs.append(f"time col {j}: {res[-1, j]} expected {steps * dt}")
        if sorted(c for c, _ in algo.log) != list(range(len(cols))):
            probs.append(f"columns written {[c for c, _ in algo.log]} (each exactly once expected)")
        if algo.state != n:
            probs.append(f"{algo.state} steps performed, expected {n}")
        if spec == "dict":
            for key, op in ops.items():
                if not np.array_equal(algo.operator_result(key), res[list(ops).index(key)]):
                    probs.append(f"operator_result({key!r}) returns the wrong row")
                if not np.array_equal(algo.operator_result(key), np.array([1000 * op + s for s in cols])):
                    probs.append(f"operator_result({key!r}) != values of that operator")
        elif spec == "list":
            for pos, op in enumerate(ops):
                if not np.array_equal(algo.operator_result(pos), np.array([1000 * op + s for s in cols])):
                    probs.append(f"operator_result({pos}) != values of operator at position {pos}")
        else:
            if not np.array_equal(algo.operator_result(0), np.array([1000 * ops + s for s in cols])):
                probs.append("operator_result(0) != values of the single operator")
        if not np.array_equal(algo.times(), np.array([s * dt for s in cols])):
            probs.append("times() != j*k*dt")
        if not np.array_equal(algo.operator_results(), res[:-1]):
            probs.append("operator_results() != operator rows")
        if init != 0 or algo.initial_state != 0:
            probs.append("initial state changed")
    if probs:
        ctx.oracle_fail(case, "driver schedule: " + "; ".join(probs[:4]))


def _case_sched2(ctx, case):
    """The driver constructed from (T, dt) itself (n possibly rounded up): times are j*k*dt, also beyond T."""
    T, dt, k = case["T"], case["dt"], case["k"]
    Counting = _counter_class()
    try:
        algo = Counting(0, dt, T, [5, 6])
        algo.run(evaluation_time=k, pgbar=False)
    except Exception as e:          # noqa: BLE001
        ctx.oracle_fail(case, f"run raised {type(e).__name__}: {e}")
        return
    n = oracle_num_steps(T, dt)
    rounded_up = n * dt > T
    ctx.count(("sched2", T, dt, k), nontrivial=rounded_up)
    ctx.tally("sched2_rounded_up", rounded_up)
    cols = [n] if k == "inf" else list(range(0, n + 1, k))
    res = algo.results
    probs = []
    if res.shape != (3, len(cols)):
        probs.append(f"table shape {res.shape} expected {(3, len(cols))}")
    else:
        for j, steps in enumerate(cols):
            if res[0, j] != 5000 + steps or res[1, j] != 6000 + steps:
                probs.append(f"col {j}: values {res[0, j]}, {res[1, j]} expected state after {steps} steps")
            if res[-1, j] != steps * dt:
                probs.append(f"time col {j}: {res[-1, j]} expected {steps}*dt = {steps * dt} (T = {T})")
        if algo.state != n:
            probs.append(f"{algo.state} steps performed, expected {n}")
    if probs:
        ctx.oracle_fail(case, f"driver with T={T}, dt={dt}, k={k}: " + "; ".join(probs[:3]))


# ------------------------------------------------------------------ concrete classes

def _build_problem(case):
    import random
    from pytreenet.operators.tensorproduct import TensorProduct
    rng = random.Random(case["seed"])
    nprng = np.random.default_rng(case["seed"])
    n = case["n"]
    par = gen.random_parent_array(rng, n)
    ttns, info = gen.random_ttns(rng, nprng, par, phys=(2,), bonds=(1, 2, 2))
    names = info["names"]
    phys = {i: info["open"][i][0] for i in range(n)}
    H, Hm = algos.hermitian_ttno(rng, nprng, par, phys, names, n_terms=2)
    order = sorted(ttns.nodes)
    # the caller may hand over a state that is already canonical: at the node the TDVP sweep starts from,
    # or anywhere else (derived data such as the gauge centre and caches must still be rebuilt on reset)
    gauge = case.get("gauge")
    if gauge:
        from pytreenet.util.tensor_splitting import SplitMode
        from pytreenet.time_evolution.time_evo_util.update_path import TDVPUpdatePathFinder
        if gauge == "start":
            centre = TDVPUpdatePathFinder(ttns).find_path()[0]
        else:
            centre = order[case["seed"] % len(order)]
        ttns.canonical_form(centre, mode=SplitMode.KEEP if case["seed"] % 2 else SplitMode.REDUCED)
    dims = dense.phys_dims(ttns, order)
    opmats, tps = [], []
    for _ in range(3):
        sites = rng.sample(order, rng.randint(1, min(2, n)))
        d = {s: gen.rand_tensor(nprng, (2, 2)) for s in sites}
        tps.append(TensorProduct(d))
        opmats.append(dense.embed_ops(d, order, dims))
    return rng, nprng, par, ttns, info, H, Hm, order, dims, tps, opmats


def _make(case, ttns, H, Hm, order, dims, ops, dt, T, rng, nprng):
    from pytreenet.operators.tensorproduct import TensorProduct
    kind = case["algo"]
    if kind == "exact":
        from pytreenet.time_evolution.exact_time_evolution import ExactTimeEvolution
        return ExactTimeEvolution(dense.ttns_vector(ttns, order), _exact_generator(case, Hm), dt, T, ops)
    if kind == "tebd":
        from pytreenet.time_evolution.trotter import TrotterSplitting
        # nearest-neighbour Hermitian terms along tree edges
        tps = []
        for nid in order:
            p = ttns.nodes[nid].parent
            if p is not None:
                a = gen.rand_hermitian(nprng, 2)
                b = gen.rand_hermitian(nprng, 2)
                tps.append(TensorProduct({nid: a, p: b}))
        return algos.make_algo("tebd", ttns, None, dt, T, ops, trotter=TrotterSplitting.from_lists(tps))
    return algos.make_algo(kind, ttns, H, dt, T, ops)


def _exact_generator(case, Hm):
    """The exact reference evolution takes any square generator: Hermitian, or H0 - i*Gamma (decay)."""
    if case["seed"] % 3 != 0:
        return Hm
    g = np.random.default_rng(case["seed"] + 17)
    A = g.standard_normal(Hm.shape) + 1j * g.standard_normal(Hm.shape)
    return Hm - 0.5j * (A @ A.conj().T) / Hm.shape[0]


def _state_vec(algo, case, order):
    if case["algo"] == "exact":
        return np.asarray(algo.state).reshape(-1)
    return dense.ttns_vector(algo.state, order)


def _case_class(ctx, case):
    rng, nprng, par, ttns, info, H, Hm, order, dims, tps, opmats = _build_problem(case)
    kind, steps, k, spec = case["algo"], case["steps"], case["k"], case["spec"]
    dt = 0.05
    T = steps * dt
    if kind == "exact":
        opl = opmats
    else:
        opl = tps
    ops = {"single": opl[0], "list": opl, "dict": {"c": opl[0], "a": opl[1], "b": opl[2]}}[spec]
    nops = 1 if spec == "single" else 3
    ctx.count(("class", kind, case["seed"]), nontrivial=True, corr=False)
    ctx.tally("class", kind)
    ctx.sample({kk: case[kk] for kk in case}, 6)
    snapshot = copy.deepcopy(ttns)
    v_init = dense.ttns_vector(snapshot, order)
    try:
        algo = _make(case, ttns, H, Hm, order, dims, ops, dt, T, rng, nprng)
        twin = _make(case, copy.deepcopy(snapshot), H, Hm, order, dims, ops, dt, T,
                     *(_rng_pair(case)))
        if case.get("retime"):
            # the step size is changed through the class's own public setter before the run: "final time T, step dt"
            # are then T and T/m, and everything stated about dt is stated about the step size in force
            m = case["retime"]
            algo.set_num_time_steps_constant_final_time(m)
            steps, dt = m, T / m
            twin = _make(case, copy.deepcopy(snapshot), H, Hm, order, dims, ops, dt, T, *(_rng_pair(case)))
            ctx.tally("retimed", kind)
        algo.run(evaluation_time=k, pgbar=False)
    except Exception as e:          # noqa: BLE001
        ctx.oracle_fail(case, f"{kind}: construction/run raised {type(e).__name__}: {str(e)[:200]}")
        return
    probs = []
    n = algo.num_time_steps
    if n != steps:
        probs.append(f"num_time_steps {n} != {steps}")
    cols = [n] if k == "inf" else list(range(0, n + 1, k))
    res = algo.results
    if res.shape != (nops + 1, len(cols)):
        probs.append(f"table shape {res.shape} expected {(nops + 1, len(cols))}")
    else:
        # independently stepped twin; expectation values by dense algebra
        cur = 0
        for j, s in enumerate(cols):
            while cur < s:
                twin.run_one_time_step()
                cur += 1
            v = _state_vec(twin, case, order)
            for r in range(nops):
                want = algos.expval_dense(v, opmats[r])
                if abs(res[r, j] - want) > 1e-8 * max(1.0, abs(want)):
                    probs.append(f"row {r} col {j}: recorded {res[r, j]:.10g} but <O> after {s} steps is {want:.10g}")
            if res[-1, j] != s * dt:
                probs.append(f"time col {j}: {res[-1, j]} != {s * dt}")
            if kind == "exact":
                G = _exact_generator(case, Hm)
                w, V = np.linalg.eig(G)          # generic matrices are diagonalisable
                ref = V @ (np.exp(-1j * w * s * dt) * np.linalg.solve(V, v_init))
                if np.linalg.norm(v - ref) > 1e-9 * max(1.0, np.linalg.norm(ref)):
                    probs.append(f"exact evolution after {s} steps differs from exp(-iH t) psi")
        if spec == "dict":
            for key, row in (("c", 0), ("a", 1), ("b", 2)):
                if not np.array_equal(algo.operator_result(key), res[row]):
                    probs.append(f"operator_result({key!r}) is not row {row}")
    # the caller's state object is never modified
    if kind != "exact":
        if dense.structure(ttns) != dense.structure(snapshot):
            probs.append("caller's state: structure modified")
        elif not np.array_equal(dense.ttns_vector(ttns, order), v_init):
            probs.append("caller's state: contraction modified")
        else:
            for nid in ttns.nodes:
                if not np.array_equal(ttns.tensors[nid], snapshot.tensors[nid]):
                    probs.append(f"caller's state: tensor {nid} modified")
                if nid in algo.state.nodes and np.shares_memory(ttns.tensors[nid], algo.state.tensors[nid]):
                    probs.append(f"caller's tensor {nid} shares memory with the working state")
    # run / reset / run
    first = np.array(res, copy=True)
    try:
        algo.reset_to_initial_state()
        algo.run(evaluation_time=k, pgbar=False)
        second = algo.results
        if first.shape != second.shape or not np.allclose(first, second, rtol=1e-9, atol=1e-10):
            probs.append("second run after reset does not reproduce the first record")
    except Exception as e:          # noqa: BLE001
        probs.append(f"run after reset raised {type(e).__name__}: {str(e)[:120]}")
    if probs:
        ctx.oracle_fail(case, f"{kind} (k={k}, {spec}): " + "; ".join(probs[:4]))


def _rng_pair(case):
    """Re-create the rng state `_make` sees (TEBD draws its Hamiltonian terms there)."""
    import random
    rng = random.Random(case["seed"])
    nprng = np.random.default_rng(case["seed"])
    # replay the draws of _build_problem so that both instances get identical TEBD terms
    n = case["n"]
    par = gen.random_parent_array(rng, n)
    ttns, info = gen.random_ttns(rng, nprng, par, phys=(2,), bonds=(1, 2, 2))
    phys = {i: info["open"][i][0] for i in range(n)}
    algos.hermitian_ttno(rng, nprng, par, phys, info["names"], n_terms=2)
    order = sorted(ttns.nodes)
    for _ in range(3):
        sites = rng.sample(order, rng.randint(1, min(2, n)))
        for s in sites:
            gen.rand_tensor(nprng, (2, 2))
    return rng, nprng


def shrink(case):
    if case["kind"] == "class":
        if case["n"] > 2:
            yield dict(case, n=case["n"] - 1)
        if case["steps"] > 1:
            yield dict(case, steps=case["steps"] - 1)
        if case["spec"] != "single":
            yield dict(case, spec="single")
    elif case["kind"] == "sched":
        if case["n"] > 0:
            yield dict(case, n=case["n"] - 1)
