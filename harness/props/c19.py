"""C19 — special-topology constructors, dense->TTNO decomposition and model builders are faithful.

Stage B (correspondence with the Lean model Ptn.C19):
  * `mps n r p0..p(n-1)`  structure produced by MatrixProductTree.from_tensor_list (dict order, parent,
    child order, per-node leg order as axes of the input tensors, left/right node lists);
  * `grid rows cols`      pair list of `_find_nn_pairs(_grid_from_structure(..))`;
  * `ising <id:parent..>` term list of `ising_model(TreeStructure)`; `isinggrid rows cols` for the 2-D builder;
  * `qrshape` / `fromtensor` leg bookkeeping of `TTNO.from_tensor`;
  * `star` / `starconst` / `fork` / `forkconst` / `binary`: dict order, parent, child order, per-node leg order and
    shapes of the star, fork and binary constructors, including arbitrary (mostly invalid) call sequences that
    library and model must accept or reject alike.
  * `starl` / `forkl`: the same with the optional argument `parent_leg` of add_chain_node / add_main_chain_node /
    add_sub_chain_node on every call; `mpsdirect`: add_root + attach_node_left_end / attach_node_right_end called
    directly in an arbitrary interleaving.
Stage C (oracle): well-formedness, documented identifiers and an independent dense contraction
(einsum over the *specified* tensors / Kronecker sums built from the adjacency) for every constructor.
Every documented optional argument / alternative entry point of the anchored constructors is exercised: explicit
parent legs (tensors whose legs are NOT in the default order), identifier prefixes given / omitted, positional /
keyword / defaulted arguments, TreeStructure / full network / pair list / identifier array inputs (`_extend_cases`).
"""
from __future__ import annotations

import itertools
import json
import os
import random
import warnings
from fractions import Fraction

import numpy as np

from harness import gen, dense
from harness.common import CORPUS_DIR

RULE = ("cases: matrix-product chains of every length 2..8 x every root x open-leg dims {1,2,3} x zero padding of "
        "bonds (state / operator / generic chain classes, both from_tensor_list paths) and constant product states; "
        "integer chains n = 2..6 x every root x padding (kind mpsval: the Lean model evaluates its own binding record "
        "on the library's tensors and the chain record on the inputs, exactly); integer star / fork networks through "
        "add_center_node / add_chain_node / add_main_chain_node / add_sub_chain_node in every accepted call order, "
        "and constant_product_state / constant_ftps with padded bonds (kind specval: the Lean model evaluates gRecord "
        "on the library's tensors and on the tensors handed in; product states = Kronecker product, exactly); "
        "stars (constant product state, and random tensors with random chain interleaving), forks (constant_ftps and "
        "random tensors with random main/sub interleaving), binary trees; TTNO.from_tensor on random trees <= 5 nodes "
        "with every leg assignment class and mode QR/SVD/tSVD, operators random / product / low-rank / zero; Ising and "
        "flipped Ising builders on trees, chains, pair lists and grids, nearest-neighbour / single-site builders and "
        "exact dense builders with random real couplings; every optional argument of these constructors is varied "
        "(explicit parent_leg on first and later chain / main / sub nodes with tensors whose legs are in a shuffled "
        "order, prefixes given or omitted, positional / keyword / defaulted arguments, direct attach_node_left_end / "
        "attach_node_right_end calls in any interleaving, reference tree given as TreeStructure or as a network, "
        "grid given as (prefix, rows, cols) or as an array of arbitrary identifiers, local / total magnetisation, "
        "per-site factor lists and operator names of single_site_operators). non-trivial = a case that is not the default configuration "
        "of its constructor (root not 0, padding, dimension != 2, > 1 chain, non-identity leg assignment, "
        "branching tree, grid with both directions, J or g outside {0, 1})")
PARTIAL = [
    "value level: from_tensor_value (any exact factorisation per pass => the network contracts to the input; the "
    "factorisation contract is a hypothesis, validated numerically per case), mps_chain_value (every root builds the "
    "chain sum_bonds prod_i T_i), pad_bond_value / pad_front_value (padding), star_value / fork_value (every "
    "accepted call sequence: record and value) and constant_product_state_value (delta-form tensors => Kronecker "
    "product) are proved and replayed exactly on integer tensors (mpsval / specval); that constant_product_state / "
    "constant_ftps produce delta-form tensors is checked per input (the model has shapes, not entries); "
    "operator matrices and binary values are decided per input by the dense oracle; leg-level theorems "
    "cover the index logic: chain structure and leg "
    "order (mps_chain_structure), star / fork / binary structure and leg order (star_structure, fork_structure, "
    "binary_structure), the optional argument parent_leg of star and fork (parent_leg_attach: effect of one call "
    "on the parent's leg order; star_parent_leg_structure / fork_parent_leg_structure: any mixture of explicit "
    "and omitted legs builds the same tree as the default calls), grid pair list (nn_pairs_grid), Ising term multisets (ising_terms, ising_pairs_terms), "
    "transposition and leg bookkeeping of from_tensor (qr_shape_perm, from_tensor_legs)",
    "numerical exactness of the QR/SVD factorisations inside TTNO.from_tensor is by contract (contraction compared "
    "with the input to 1e-9 on every case); bond / leg dimensions of chains and of from_tensor are not modelled "
    "(star, fork and binary models do carry the shapes and the dimension check of add_child_to_parent)",
    "star_structure and fork_structure are stated for the call sequences the code accepts; that the particular "
    "sequences of star constant_product_state and constant_ftps ARE accepted for all parameters is not proved "
    "(star_const_structure_partial, ftps_structure_partial are conditional) - completion is checked by the "
    "correspondence and the oracle on the parameter grid; binary_structure includes completion",
    "the exact dense builders have no Lean model: dense oracle only",
    "oracle + correspondence only (no theorem): hand-made chains assembled by direct attach_node_left_end / "
    "attach_node_right_end calls in an order other than left-side-first; a whole-run closed form of the leg "
    "permutations under explicit parent legs; oracle only: identifier prefixes and positional / keyword / defaulted "
    "arguments, binary trees whose physical tensor has two open legs, networks as reference trees, identifier "
    "arrays with arbitrary names, local / total magnetisation, per-site factor lists and operator names",
    "F-C19b (recorded, open): attach_node_right_end on a hand-made chain whose root is the leftmost site uses the "
    "root's first open leg",
]
ASSUMPTIONS = [
    "NumPy einsum/tensordot/kron/pad semantics; dict and list iteration orders of CPython",
    "tSVD mode of from_tensor truncates at relative 1e-10, i.e. below the comparison tolerance 1e-9",
]

TOL = 1e-9

# Finding F-C19b (see notes/C19.md): hand-made chains whose ROOT IS THE LEFTMOST SITE (root tensor `[right, open...]`) extended by a direct call of
# `attach_node_right_end`.  The method hard-codes parent_leg = 1 for the root, i.e. the root's first OPEN leg there.
DIRECT_LEFTMOST_ROOT = True        # F-C19b is recorded (open) in known_findings.json

warnings.filterwarnings("ignore", category=SyntaxWarning)
warnings.filterwarnings("ignore", message="All singular values were truncated")


# =============================================================================== helpers

def _close(a, b, scale=None):
    a = np.asarray(a)
    b = np.asarray(b)
    if a.shape != b.shape:
        return False
    if a.size == 0:
        return True
    s = max(1.0, float(np.abs(b).max())) if scale is None else scale
    return bool(np.abs(a - b).max() <= TOL * s)


def chain_dense(ts):
    """Contract a list of site tensors with axes (left?, right?, open...) in chain order with einsum.
    Result axes: open legs of site 0, of site 1, ... (per site in their order)."""
    n = len(ts)
    acc = None
    BOND, NEW = 50, 51
    for i, t in enumerate(ts):
        t = np.asarray(t)
        has_left, has_right = i > 0, i < n - 1
        nopen = t.ndim - int(has_left) - int(has_right)
        if acc is None:
            k = 0
            sub_t = ([NEW] if has_right else []) + list(range(nopen))
            out = list(range(nopen)) + ([NEW] if has_right else [])
            acc = np.einsum(t, sub_t, out)
        else:
            k = acc.ndim - 1
            sub_a = list(range(k)) + [BOND]
            sub_t = [BOND] + ([NEW] if has_right else []) + list(range(k, k + nopen))
            out = list(range(k + nopen)) + ([NEW] if has_right else [])
            acc = np.einsum(acc, sub_a, t, sub_t, out)
    return acc


def _limit_dims(rng, dims_per_site, limit):
    """Reduce open dimensions to 1 (randomly) until the total dimension is <= limit."""
    flat = [(i, j) for i, ds in enumerate(dims_per_site) for j in range(len(ds))]

    def total():
        p = 1
        for ds in dims_per_site:
            for d in ds:
                p *= d
        return p
    while total() > limit:
        cand = [(i, j) for (i, j) in flat if dims_per_site[i][j] > 1]
        i, j = rng.choice(cand)
        dims_per_site[i][j] -= 1
    return dims_per_site


def _ids_problem(ttn, expected_ids):
    got = set(ttn.nodes.keys())
    exp = set(expected_ids)
    if got != exp:
        return f"identifiers {sorted(got)} expected {sorted(exp)}"
    return None


def _parents_problem(ttn, parent_map):
    for nid, p in parent_map.items():
        if nid not in ttn.nodes:
            return f"node {nid} missing"
        if ttn.nodes[nid].parent != p:
            return f"parent of {nid} is {ttn.nodes[nid].parent}, expected {p}"
    return None


def _labelled_reference(spec, order):
    """spec: {id: (array, [labels])} where open legs carry label ('o', id, k) and each bond label occurs twice.
    Returns the dense array with open legs ordered by `order`, per node by k."""
    arr, labels = dense.contract_labeled([(a, l) for a, l in spec.values()])
    want = sorted([l for l in labels], key=lambda l: (order.index(l[1]), l[2]))
    assert all(l[0] == "o" for l in labels), "reference has a dangling bond"
    perm = [labels.index(l) for l in want]
    return np.transpose(arr, perm) if perm else arr


# =============================================================================== case generation

def gen_cases(ctx):
    rng = ctx.rng
    cases = []
    # ---- (a) matrix-product chains: every length x every root, a few configurations each
    reps = ctx.n(6, 24)
    for n in range(2, 9):
        for r in range(n):
            for rep in range(reps):
                cls = rng.choice(["mps", "mps", "mpo", "mpt"])
                if cls == "mps":
                    opens = [[rng.choice([1, 2, 3])] for _ in range(n)]
                elif cls == "mpo":
                    opens = []
                    for _ in range(n):
                        d = rng.choice([1, 2, 3])
                        opens.append([d, d])
                else:
                    opens = [[rng.choice([1, 2, 3]) for _ in range(rng.choice([0, 1, 1, 2]))] for _ in range(n)]
                opens = _limit_dims(rng, opens, 4000)
                bonds = [rng.choice([1, 2, 2, 3]) for _ in range(n - 1)]
                if rep % 2 == 0:
                    pad = [0] * (n - 1)
                else:
                    pad = [rng.choice([0, 1, 2]) for _ in range(n - 1)]
                    if not any(pad):
                        pad[rng.randrange(n - 1)] = 1
                padpos = [rng.choice(["end", "front"]) for _ in range(n - 1)]
                cases.append({"kind": "mps", "cls": cls, "n": n, "r": r, "opens": opens, "bonds": bonds,
                              "pad": pad, "padpos": padpos, "seed": rng.randrange(10 ** 9),
                              "prefix": rng.choice(["site", "site", "q", "s1_"]),
                              "path": "leftmost" if (r == 0 and rng.random() < 0.5) else "list"})
            # constant product states
            for rep in range(max(1, reps // 2)):
                d = rng.choice([1, 2, 3])
                if d ** n > 7000:
                    d = 2
                v = rng.randrange(d)
                bonds = None if rng.random() < 0.35 else [rng.choice([1, 2, 3]) for _ in range(n - 1)]
                cases.append({"kind": "mpsconst", "n": n, "r": r, "d": d, "v": v, "bonds": bonds,
                              "prefix": rng.choice(["site", "x"])})
    # ---- (a') value level: integer chains, every root (mps_chain_value / pad_bond_value)
    vr = ctx.subrng("mpsval")
    for n in range(2, 7):
        for r in range(n):
            for rep in range(ctx.n(1, 4)):
                opens = [[vr.choice([1, 2, 2, 3]) for _ in range(vr.choice([0, 1, 1, 2]))] for _ in range(n)]
                opens = _limit_dims(vr, opens, 300)
                pad = [0] * (n - 1) if vr.random() < 0.4 else [vr.choice([0, 1, 2]) for _ in range(n - 1)]
                cases.append({"kind": "mpsval", "n": n, "r": r, "opens": opens,
                              "bonds": [vr.choice([1, 2, 2, 3]) for _ in range(n - 1)], "pad": pad,
                              "padpos": [vr.choice(["end", "end", "front"]) for _ in range(n - 1)],
                              "seed": vr.randrange(10 ** 9)})
    # ---- (a'') value level: integer star / fork networks and product states (star_value / fork_value /
    #      constant_product_state_value): stream `specval`
    sr = ctx.subrng("specval")
    for _ in range(ctx.n(14, 120)):
        C = sr.randint(1, 3)
        lens = [sr.randint(1, 3) for _ in range(C)]
        todo, sched, started = list(lens), [], 0
        while any(todo):
            c = sr.choice([c for c in range(C) if todo[c] and c <= started])
            todo[c] -= 1
            sched.append(c)
            if c == started:
                started += 1
        cases.append({"kind": "specval", "shape": "star", "lens": lens, "sched": sched, "seed": sr.randrange(10 ** 9)})
    for _ in range(ctx.n(14, 120)):
        nmain = sr.randint(1, 3)
        sublens = [sr.randint(0, 2) for _ in range(nmain)]
        events, made, subleft = [], 0, list(sublens)
        while made < nmain or any(subleft[:made]):
            cand = ([("m",)] if made < nmain else []) + [("s", i) for i in range(made) if subleft[i]]
            ev = sr.choice(cand)
            if ev[0] == "m":
                made += 1
            else:
                subleft[ev[1]] -= 1
            events.append(list(ev))
        if len(events) < 2:
            events, nmain, sublens = [["m"], ["m"]], 2, [0, 0]
        cases.append({"kind": "specval", "shape": "fork", "nmain": nmain, "sublens": sublens, "events": events,
                      "seed": sr.randrange(10 ** 9)})
    for (L, C, d) in [(1, 1, 2), (2, 2, 2), (3, 2, 2), (2, 3, 2), (1, 4, 3), (3, 1, 3)] + \
            [(sr.randint(1, 3), sr.randint(1, 3), 2) for _ in range(ctx.n(0, 10))]:
        cases.append({"kind": "specval", "shape": "starconst", "L": L, "C": C, "d": d, "v": sr.randrange(d)})
    for (w, h, bd, d) in [(2, 2, 1, 2), (2, 2, 2, 2), (3, 2, 2, 2), (2, 3, 3, 2), (3, 3, 2, 2), (2, 2, 3, 3)] + \
            [(sr.randint(2, 3), sr.randint(2, 3), sr.randint(1, 2), 2) for _ in range(ctx.n(0, 10))]:
        cases.append({"kind": "specval", "shape": "forkconst", "w": w, "h": h, "bd": bd, "d": d,
                      "seed": sr.randrange(10 ** 9)})
    # ---- (b) star
    star_grid = [(L, C) for L in range(1, 5) for C in range(1, 5)]
    for (L, C) in star_grid:
        for d in (2, 3, 4):
            if d ** (1 + L * C) > 70000:
                continue
            vs = list(range(d)) if ctx.tier == "thorough" or ctx.scale > 1 else [rng.randrange(d)]
            for v in vs:
                cases.append({"kind": "starconst", "L": L, "C": C, "d": d, "v": v,
                              "prefix": rng.choice(["site", "site", "ch"])})
    for _ in range(ctx.n(200, 1500)):
        C = rng.randint(1, 4)
        lens = [rng.randint(1, 3) for _ in range(C)]
        # schedule: chain c may start only after chain c-1 started
        todo = [[c] * lens[c] for c in range(C)]
        sched, started = [], 0
        remaining = sum(lens)
        while remaining:
            cand = [c for c in range(C) if todo[c] and c <= started]
            c = rng.choice(cand)
            todo[c].pop()
            sched.append(c)
            if c == started:
                started += 1
            remaining -= 1
        cases.append({"kind": "star", "lens": lens, "sched": sched, "seed": rng.randrange(10 ** 9),
                      "cls": rng.choice(["state", "operator", "network"]),
                      "prefix": rng.choice(["node", "c"]), "center": rng.choice(["central", "mid"]),
                      "legperm": (len(lens) > 1 and rng.random() < 0.4)})
    # arbitrary (mostly invalid) call sequences: library and model must accept / reject alike
    for _ in range(ctx.n(80, 800)):
        dimc = [2] if rng.random() < 0.7 else [1, 2]
        ncl = rng.randint(1, 4)
        cshape = [rng.choice(dimc) for _ in range(ncl)]
        calls, nch = [], 0
        for _ in range(rng.randint(1, 6)):
            c = rng.randint(0, nch) if rng.random() < 0.85 else rng.randint(0, 4)
            if c == nch:
                nch += 1
            calls.append([c, [rng.choice(dimc) for _ in range(rng.choice([1, 2, 2, 3]))]])
        cases.append({"kind": "starany", "cshape": cshape, "calls": calls})
    for _ in range(ctx.n(80, 800)):
        dimc = [2] if rng.random() < 0.7 else [1, 2]
        calls, nm = [["m", [rng.choice(dimc) for _ in range(rng.randint(1, 4))]]] if rng.random() < 0.9 else [], 1
        for _ in range(rng.randint(1, 6)):
            sh = [rng.choice(dimc) for _ in range(rng.choice([1, 2, 3, 3, 4]))]
            if rng.random() < 0.4:
                calls.append(["m", sh])
                nm += 1
            else:
                calls.append(["s", rng.randrange(nm) if rng.random() < 0.85 else rng.randint(0, 4), sh])
        cases.append({"kind": "forkany", "calls": calls})
    # ---- fork
    for w in range(2, 5):
        for h in range(2, 5):
            for bd in (1, 2, 3):
                d = rng.choice([1, 2, 3])
                if d ** (w * h) > 70000:
                    d = 2
                cases.append({"kind": "forkconst", "w": w, "h": h, "bd": bd, "d": d, "seed": rng.randrange(10 ** 9),
                              "prefixes": rng.choice([["main", "sub"], ["m", "s"]])})
    for _ in range(ctx.n(200, 1500)):
        nmain = rng.randint(2, 4)
        sublens = [rng.randint(0, 2) for _ in range(nmain)]
        if not any(sublens):
            sublens[rng.randrange(nmain)] = 1
        events, made, subleft = [], 0, list(sublens)
        while made < nmain or any(subleft[:made]):
            cand = []
            if made < nmain:
                cand.append(("m",))
            cand += [("s", i) for i in range(made) if subleft[i]]
            ev = rng.choice(cand)
            if ev[0] == "m":
                made += 1
            else:
                subleft[ev[1]] -= 1
            events.append(list(ev))
        cases.append({"kind": "fork", "nmain": nmain, "sublens": sublens, "events": events,
                      "seed": rng.randrange(10 ** 9), "cls": rng.choice(["state", "operator", "network"])})
    # ---- binary
    for nphys in range(2, 10):
        for bd in (1, 2, 3):
            d = rng.choice([1, 2, 3])
            if d ** nphys > 30000:
                d = 2
            cases.append({"kind": "binary", "nphys": nphys, "bd": bd, "d": d, "seed": rng.randrange(10 ** 9),
                          "prefixes": rng.choice([["site", "node"], ["p", "v"]])})
    # ---- (c) TTNO.from_tensor
    small_trees = [par for n in range(1, 5) for par in gen.all_ordered_trees(n)]   # 1+1+2+5 = 9 shapes
    modes = ["QR", "SVD", "tSVD"]
    ft = []
    for par in small_trees:
        for mode in modes:
            ft.append((par, mode))
    for _ in range(ctx.n(300, 3000)):
        n = rng.choice([3, 4, 5, 5])
        ft.append((gen.random_parent_array(rng, n), rng.choice(modes)))
    ft = [(par, mode, None) for par, mode in ft]
    if ctx.tier == "thorough" or ctx.scale > 1:
        # every leg assignment of every ordered tree with <= 4 nodes, every mode
        for par in small_trees:
            for pm in itertools.permutations(range(len(par))):
                for mode in modes:
                    ft.append((par, mode, list(pm)))
        for par in gen.all_ordered_trees(5):
            ft.append((par, rng.choice(modes), None))
    for par, mode, fixed_perm in ft:
        n = len(par)
        dims = [rng.choice([1, 2, 2, 3]) for _ in range(n)]
        while int(np.prod(dims)) > 40:
            dims[rng.randrange(n)] = 1
        perm = list(range(n))
        if fixed_perm is not None:
            perm = fixed_perm
        elif rng.random() < 0.85:
            rng.shuffle(perm)
        order = gen.insertion_order(rng, par)
        cases.append({"kind": "fromtensor", "par": list(par), "order": order, "dims": dims, "perm": perm,
                      "mode": mode, "op": rng.choice(["rand", "rand", "prod", "lowrank", "zero", "int"]),
                      "seed": rng.randrange(10 ** 9)})
    # bonds whose operator Schmidt rank exceeds 100 (default caps of truncation parameters must not bite)
    for mode in modes:
        cases.append({"kind": "fromtensor", "par": [-1, 0], "order": [0, 1], "dims": [11, 11],
                      "perm": rng.choice([[0, 1], [1, 0]]), "mode": mode, "op": "rand",
                      "seed": rng.randrange(10 ** 9)})
    cases.append({"kind": "fromtensor", "par": [-1, 0, 1, 2], "order": [0, 1, 2, 3], "dims": [4, 4, 4, 4],
                  "perm": [0, 1, 2, 3], "mode": rng.choice(modes), "op": "rand", "seed": rng.randrange(10 ** 9)})
    # ---- (d) model builders

    def coupling():
        return rng.choice([rng.uniform(-2, 2), rng.uniform(-2, 2), 0.0, 1.0, -1.0, float(rng.randint(-3, 3)),
                           rng.uniform(-1e3, 1e3)])
    for _ in range(ctx.n(300, 2500)):
        shape = rng.choice(["tree", "tree", "chain", "pairs", "grid", "grid", "gridarr"])
        c = {"kind": "model", "shape": shape, "flipped": rng.random() < 0.5, "J": coupling(), "g": coupling(),
             "seed": rng.randrange(10 ** 9)}
        if shape in ("tree", "pairs"):
            n = rng.randint(1 if shape == "tree" else 2, 7)
            c["par"] = gen.random_parent_array(rng, n)
            c["order"] = gen.insertion_order(rng, c["par"])
        elif shape == "chain":
            n = rng.randint(1, 8)
            c["n"] = n
            c["root"] = rng.randrange(n)
        else:
            rows, cols = rng.choice([(1, 1), (1, 2), (2, 1), (1, 3), (3, 1), (2, 2), (2, 3), (3, 2), (1, 5), (4, 1),
                                     (2, 4), (4, 2), (3, 3), (2, 5), (5, 2), (1, 7)])
            c["rows"], c["cols"] = rows, cols
            c["prefix"] = rng.choice(["q", "site", "n1_"])
        cases.append(c)
    if ctx.tier == "thorough" or ctx.scale > 1:
        # every ordered tree with <= 6 nodes once (term list against the model, operator against the sum)
        for n in range(1, 7):
            for par in gen.all_ordered_trees(n):
                cases.append({"kind": "model", "shape": "tree", "flipped": rng.random() < 0.5, "J": coupling(),
                              "g": coupling(), "seed": rng.randrange(10 ** 9), "par": par,
                              "order": gen.insertion_order(rng, par)})
    # all grid sizes with <= 10 cells once (exhaustive over the small space)
    for rows in range(1, 11):
        for cols in range(1, 11):
            if rows * cols <= 10:
                cases.append({"kind": "model", "shape": "grid", "flipped": (rows + cols) % 2 == 0, "J": coupling(),
                              "g": coupling(), "seed": rng.randrange(10 ** 9), "rows": rows, "cols": cols,
                              "prefix": "q"})
    # pure index cases for the pair list (no dense algebra): larger grids
    for _ in range(ctx.n(60, 600)):
        cases.append({"kind": "gridpairs", "rows": rng.randint(1, 12), "cols": rng.randint(1, 12)})
    for _ in range(ctx.n(200, 1500)):
        n = rng.randint(1, 6)
        par = gen.random_parent_array(rng, n)
        cases.append({"kind": "nnham", "par": par, "order": gen.insertion_order(rng, par),
                      "structure": rng.choice(["tree", "pairs"]), "two_ops": rng.random() < 0.5,
                      "factor": rng.choice([None, [1, 1], [-1, 2], [3, 4], [0, 1], [-5, 3]]),
                      "value": rng.uniform(-2, 2), "symbolic": rng.random() < 0.6, "d": rng.choice([2, 2, 3]),
                      "seed": rng.randrange(10 ** 9), "single": rng.random() < 0.4})
    for _ in range(ctx.n(50, 800)):
        cases.append({"kind": "exact", "n": rng.randint(1, 7), "J": coupling(), "g": coupling(),
                      "flipped": rng.random() < 0.5, "d": rng.choice([2, 3]), "seed": rng.randrange(10 ** 9)})
    _extend_cases(ctx, cases)
    return cases


def _extend_cases(ctx, cases):
    """Optional arguments and alternative entry points of the anchored constructors.  Every draw comes from a
    separate stream, so for a given seed the cases of the main stream stay what they were; the new fields are
    read with `.get(..)` defaults by the case functions (corpus / replay cases without them keep their meaning)."""
    xr = ctx.subrng("optional-args")
    for c in cases:
        k = c["kind"]
        if k == "mps":
            c["args"] = xr.choice(["kw", "kw", "pos", "default"])
        elif k == "mpsconst":
            c["args"] = xr.choice(["kw", "pos", "default", "kwall"])
        elif k == "starconst":
            c["args"] = xr.choice(["kw", "pos", "default", "kwall"])
        elif k == "star":
            c["ctor"] = xr.choice(["kw", "kw", "pos", "default"])
            if c["ctor"] == "default":
                c["prefix"], c["center"] = None, None
            if not c.get("legperm") and xr.random() < 0.5:
                c["legmode"] = "all"
        elif k == "forkconst":
            c["args"] = xr.choice(["kw", "pos", "default", "kwall"])
            c["real"] = xr.random() < 0.3
        elif k == "fork":
            c["prefixes"] = xr.choice([None, None, ["m", "s"], ["main_", "sub"]])
            c["ctor"] = xr.choice(["kw", "pos"])
            c["legmode"] = xr.choice(["default", "explicit", "explicit"])
        elif k == "binary":
            c["args"] = xr.choice(["kw", "pos", "default", "kwall"])
            c["phys_opens"] = xr.choice([1, 1, 2])
        elif k == "fromtensor":
            c["ref"] = xr.choice(["structure", "structure", "ttns"])
            c["mode_arg"] = xr.choice(["kw", "pos", "kwall"] + (["omit", "omit"] if c["mode"] == "QR" else []))
            c["ld_shuffle"] = xr.random() < 0.5
        elif k == "model":
            c["call"] = xr.choice(["pos", "pos", "kw", "kw", "default"])
            if c["call"] == "default":
                c["J"] = 1.0                       # the documented default of `factor` / `coupling`
            if c["shape"] in ("tree", "pairs", "chain"):
                c["names"] = xr.choice(["s", "s", "site", "q_"])
                if c["shape"] != "pairs":
                    c["ref"] = xr.choice(["structure", "structure", "ttns"])
            elif c["shape"] == "gridarr":
                c["gridnames"] = xr.choice(["pattern", "arbitrary", "arbitrary"])
        elif k == "nnham":
            if c["single"]:
                c["ssvar"] = xr.choice([None, "factorlist", "names", "nofactor", "names+nofactor"])
        elif k == "exact":
            c["call"] = xr.choice(["pos", "kw"])
    # ---- hand-made chains: add_root + attach_node_left_end(final=..) / attach_node_right_end in any interleaving
    reps = ctx.n(3, 12)
    for n in range(2, 8):
        for r in range(n):
            if r == 0 and not DIRECT_LEFTMOST_ROOT:
                continue
            for rep_ in range(reps):
                cls = xr.choice(["mps", "mps", "mpo", "mpt"])
                if cls == "mps":
                    opens = [[xr.choice([1, 2, 3])] for _ in range(n)]
                elif cls == "mpo":
                    opens = [[d, d] for d in (xr.choice([1, 2, 3]) for _ in range(n))]
                else:
                    # the root keeps at least one open leg: the direct calls address the root's legs by position
                    opens = [[xr.choice([1, 2, 3]) for _ in range(xr.choice([0, 1, 1, 2]))] for _ in range(n)]
                opens = _limit_dims(xr, opens, 4000)
                order = ["L"] * r + ["R"] * (n - 1 - r)
                if rep_ % 2 == 0 or len(set(order)) < 2:
                    xr.shuffle(order)
                else:
                    # right side first: the order from_tensor_list never uses
                    order = ["R"] * (n - 1 - r) + ["L"] * r
                cases.append({"kind": "mpsdirect", "cls": cls, "n": n, "r": r, "opens": opens,
                              "bonds": [xr.choice([1, 2, 2, 3]) for _ in range(n - 1)], "pad": [0] * (n - 1),
                              "padpos": ["end"] * (n - 1), "seed": xr.randrange(10 ** 9),
                              "prefix": xr.choice(["site", "k"]), "order": order,
                              "final": xr.choice(["kw", "pos", "omit"])})
    # ---- arbitrary call sequences with explicit parent legs (mostly invalid ones included)
    for _ in range(ctx.n(80, 800)):
        dimc = [2] if xr.random() < 0.7 else [1, 2]
        cshape = [xr.choice(dimc) for _ in range(xr.randint(1, 4))]
        calls, nch = [], 0
        for _ in range(xr.randint(1, 6)):
            c_ = xr.randint(0, nch) if xr.random() < 0.9 else xr.randint(0, 4)
            if c_ == nch:
                nch += 1
            leg = None if xr.random() < 0.35 else xr.randint(0, 3)
            calls.append([c_, leg, [xr.choice(dimc) for _ in range(xr.choice([1, 2, 2, 3, 3]))]])
        cases.append({"kind": "staranyl", "cshape": cshape, "calls": calls})
    for _ in range(ctx.n(80, 800)):
        dimc = [2] if xr.random() < 0.7 else [1, 2]
        calls, nm = [["m", None, [xr.choice(dimc) for _ in range(xr.randint(1, 4))]]], 1
        for _ in range(xr.randint(1, 6)):
            sh = [xr.choice(dimc) for _ in range(xr.choice([1, 2, 3, 3, 4]))]
            leg = None if xr.random() < 0.35 else xr.randint(0, 3)
            if xr.random() < 0.4:
                calls.append(["m", leg, sh])
                nm += 1
            else:
                calls.append(["s", xr.randrange(nm) if xr.random() < 0.9 else xr.randint(0, 4), leg, sh])
        cases.append({"kind": "forkanyl", "calls": calls})
    # ---- local / total magnetisation (models.py)
    for _ in range(ctx.n(40, 400)):
        n = xr.randint(1, 6)
        par = gen.random_parent_array(xr, n)
        cases.append({"kind": "magn", "par": par, "order": gen.insertion_order(xr, par),
                      "structure": xr.choice(["tree", "list", "ttns"]),
                      "with_factor": xr.choice([True, False, None]), "names": xr.choice(["s", "site", "q_"]),
                      "T": xr.randint(1, 5), "scale": xr.choice([1.0, 1.0, 1e-6, 1e6]),
                      "complex": xr.random() < 0.5, "seed": xr.randrange(10 ** 9)})


# =============================================================================== model lines

def model_lines(case):
    k = case["kind"]
    if k == "mps":
        ps = " ".join(str(len(o)) for o in case["opens"])
        mode = "leftmost" if case["path"] == "leftmost" else "mps"
        if mode == "leftmost":
            return [f"C19 leftmost {case['n']} {ps}"]
        return [f"C19 mps {case['n']} {case['r']} {ps}"]
    if k == "mpsval":
        ps = " ".join(str(len(o)) for o in case["opens"])
        return [f"C19 mpsrec {case['n']} {case['r']} {ps}"]
    if k == "specval":
        sh = case["shape"]
        if sh == "starconst":
            return [f"C19 starconstrec {case['d']} {case['L']} {case['C']}"]
        if sh == "forkconst":
            return [f"C19 forkconstrec {case['d']} {case['w']} {case['h']} {case['bd']}"]
        order, inputs, _ = _specval_spec(case)
        if sh == "star":
            return [f"C19 starrec {_shape_tok(inputs['C'].shape)} "
                    + " ".join(f"{t.split('.')[0]}@-:{_shape_tok(inputs[t].shape)}" for t in order[1:])]
        return ["C19 forkrec " + " ".join(("m" if t[0] == "M" else "s" + t[1:].split(".")[0]) + "@-:"
                                          + _shape_tok(inputs[t].shape) for t in order)]
    if k == "mpsdirect":
        ps = " ".join(str(len(o)) for o in case["opens"])
        return [f"C19 mpsdirect {case['n']} {case['r']} {ps} | " + " ".join(_direct_tokens(case))]
    if k == "mpsconst":
        ps = " ".join("1" for _ in range(case["n"]))
        return [f"C19 mps {case['n']} {case['r']} {ps}"]
    if k == "gridpairs":
        return [f"C19 grid {case['rows']} {case['cols']}"]
    if k == "starconst":
        return [f"C19 starconst {case['d']} {case['L']} {case['C']}"]
    if k == "star":
        spec, sh, _ = _star_spec(case)
        calls = _star_calls(case, spec)
        if _star_legmode(case) == "default":
            return [f"C19 star {_shape_tok(sh['center'])} " + " ".join(f"{c}:{_shape_tok(sh[(c, j)])}"
                                                                      for (c, j, _, _, _) in calls)]
        return [f"C19 starl {_shape_tok(sh['center'])} "
                + " ".join(f"{c}@{'-' if leg is None else leg}:{_shape_tok(sh[(c, j)])}"
                           for (c, j, leg, _, _) in calls)]
    if k == "staranyl":
        return [f"C19 starl {_shape_tok(case['cshape'])} "
                + " ".join(f"{c}@{'-' if leg is None else leg}:{_shape_tok(sh)}" for c, leg, sh in case["calls"])]
    if k == "forkanyl":
        return ["C19 forkl " + " ".join(
            (f"m@{'-' if c[1] is None else c[1]}:" + _shape_tok(c[2])) if c[0] == "m"
            else (f"s{c[1]}@{'-' if c[2] is None else c[2]}:" + _shape_tok(c[3])) for c in case["calls"])]
    if k == "starany":
        return [f"C19 star {_shape_tok(case['cshape'])} " + " ".join(f"{c}:{_shape_tok(sh)}" for c, sh in case["calls"])]
    if k == "forkany":
        return ["C19 fork " + " ".join(("m:" + _shape_tok(c[1])) if c[0] == "m" else (f"s{c[1]}:" + _shape_tok(c[2]))
                                       for c in case["calls"])]
    if k == "forkconst":
        return [f"C19 forkconst {case['d']} {case['w']} {case['h']} {case['bd']}"]
    if k == "fork":
        spec, sh, pm = _fork_spec(case)
        calls = _fork_calls(case, spec, sh["creation"], pm)
        if case.get("legmode", "default") == "default":
            return ["C19 fork " + " ".join(("m" if ev[0] == "m" else f"s{ev[1]}") + ":" + _shape_tok(sh["shape"][nid])
                                           for (ev, nid, _, _) in calls)]
        return ["C19 forkl " + " ".join(("m" if ev[0] == "m" else f"s{ev[1]}") + f"@{'-' if leg is None else leg}:"
                                        + _shape_tok(sh["shape"][nid]) for (ev, nid, leg, _) in calls)]
    if k == "binary":
        if case.get("phys_opens", 1) != 1 and (2 * case["d"]) ** case["nphys"] <= 40000:
            return []       # the model's physical tensor has exactly one open leg: oracle only
        return [f"C19 binary {case['nphys']} {case['bd']} {case['d']}"]
    if k == "model":
        if case["shape"] in ("grid", "gridarr"):
            return [f"C19 grid {case['rows']} {case['cols']}", f"C19 isinggrid {case['rows']} {case['cols']}"]
        if case["shape"] == "tree":
            toks = _tree_tokens(case["par"], case["order"])
            return ["C19 ising " + " ".join(toks)]
        if case["shape"] == "chain":
            par = gen.reroot([-1] + list(range(case["n"] - 1)), case["root"])
            order = _chain_order(case["n"], case["root"])
            return ["C19 ising " + " ".join(_tree_tokens(par, order))]
    if k == "fromtensor":
        toks = _tree_tokens(case["par"], case["order"])
        ld = " ".join(str(case["perm"][i]) for i in range(len(case["par"])))
        return [f"C19 qrshape {' '.join(toks)} | {ld}", f"C19 fromtensor {' '.join(toks)} | {ld}"]
    return []


def _tree_tokens(par, order):
    return [f"{x}:{par[x]}" for x in order]


def _chain_order(n, root):
    # insertion order of a chain rooted at `root`: root, then to the left, then to the right
    return [root] + list(range(root - 1, -1, -1)) + list(range(root + 1, n))


# =============================================================================== run

def run(ctx):
    cases = []
    cdir = os.path.join(CORPUS_DIR, "C19")
    if os.path.isdir(cdir) and ctx.scale == 1:
        for f in sorted(os.listdir(cdir)):
            if f.endswith(".json"):
                payload = json.load(open(os.path.join(cdir, f)))
                cases.append(payload.get("case", payload))
    cases += gen_cases(ctx)
    lines, owner = [], []
    for i, c in enumerate(cases):
        ls = model_lines(c)
        lines += ls
        owner += [i] * len(ls)
    outs = ctx.lean.batch(lines)
    model = {}
    for i, o in zip(owner, outs):
        model.setdefault(i, []).append(o)
    for i, c in enumerate(cases):
        if ctx.time_left() < 0:
            break
        run_case(ctx, c, model.get(i))


def run_case(ctx, case, model_out=None):
    if model_out is None:
        ls = model_lines(case)
        model_out = ctx.lean.batch(ls) if ls else []
    fn = {"mps": _case_mps, "mpsconst": _case_mpsconst, "starconst": _case_starconst, "star": _case_star,
          "forkconst": _case_forkconst, "fork": _case_fork, "binary": _case_binary,
          "starany": _case_any, "forkany": _case_any, "staranyl": _case_any, "forkanyl": _case_any,
          "mpsdirect": _case_mpsdirect, "magn": _case_magn, "mpsval": _case_mpsval, "specval": _case_specval,
          "fromtensor": _case_fromtensor, "model": _case_model, "gridpairs": _case_gridpairs,
          "nnham": _case_nnham, "exact": _case_exact}[case["kind"]]
    fn(ctx, case, model_out)


# =============================================================================== (a) matrix-product chains

def _mps_tensors(case):
    nprng = np.random.default_rng(case["seed"])
    n, bonds, pad, opens = case["n"], case["bonds"], case["pad"], case["opens"]
    base, padded = [], []
    for i in range(n):
        sh = ([bonds[i - 1]] if i > 0 else []) + ([bonds[i]] if i < n - 1 else []) + list(opens[i])
        t = gen.rand_tensor(nprng, sh)
        base.append(t)
        widths = []
        if i > 0:
            e = pad[i - 1]
            widths.append((0, e) if case["padpos"][i - 1] == "end" else (e, 0))
        if i < n - 1:
            e = pad[i]
            widths.append((0, e) if case["padpos"][i] == "end" else (e, 0))
        widths += [(0, 0)] * len(opens[i])
        padded.append(np.pad(t, widths) if widths else t)
    return base, padded


def _parse_mps_model(s):
    """`id:parent:children:legs;...|L:..|R:..` -> (list of (id, parent, [children], [legs]), left, right)."""
    if s == "bad-op" or s == "none":
        return None
    parts = s.split("|")
    nodes = []
    for tok in parts[0].split(";"):
        i, p, ch, legs = tok.split(":")
        nodes.append((int(i), None if p == "-" else int(p), [int(x) for x in ch.split(",") if x != ""],
                      [int(x) for x in legs.split(",") if x != ""]))
    left = [int(x) for x in parts[1][2:].split(",") if x != ""]
    right = [int(x) for x in parts[2][2:].split(",") if x != ""]
    return nodes, left, right


def _mps_common_checks(mpt, n, r, prefix):
    """Oracle part shared by from_tensor_list and constant_product_state: structure of a path rooted at r."""
    probs = list(dense.well_formed(mpt))
    ids = [prefix + str(i) for i in range(n)]
    p = _ids_problem(mpt, ids)
    if p:
        probs.append(p)
        return probs
    if mpt.root_id != prefix + str(r):
        probs.append(f"root is {mpt.root_id}, expected {prefix}{r}")
    pm = {prefix + str(i): (None if i == r else prefix + str(i + 1 if i < r else i - 1)) for i in range(n)}
    p = _parents_problem(mpt, pm)
    if p:
        probs.append(p)
    left = [nd.identifier for nd in mpt.left_nodes]
    right = [nd.identifier for nd in mpt.right_nodes]
    if left != ids[:r]:
        probs.append(f"left_nodes {left} expected {ids[:r]}")
    if right != ids[r + 1:]:
        probs.append(f"right_nodes {right} expected {ids[r + 1:]}")
    return probs


def _case_mps(ctx, case, model_out):
    from pytreenet.special_ttn.mps import MatrixProductTree, MatrixProductState, MatrixProductOperator
    cls = {"mps": MatrixProductState, "mpo": MatrixProductOperator, "mpt": MatrixProductTree}[case["cls"]]
    n, r, prefix = case["n"], case["r"], case["prefix"]
    base, padded = _mps_tensors(case)
    inputs = [t.copy() for t in padded]
    nontriv = (r != 0) or any(case["pad"]) or case["cls"] != "mps" or any(o != [2] for o in case["opens"])
    ctx.count(("mps", n, r, case["cls"], case["seed"]), nontrivial=nontriv, corr=True)
    ctx.tally("mps_n_root", f"{n}:{'first' if r == 0 else ('last' if r == n - 1 else 'mid')}")
    ctx.tally("mps_class", case["cls"] + ("+pad" if any(case["pad"]) else ""))
    ctx.sample(case, 1)
    style = case.get("args", "kw")
    kw = {}
    if style != "default" or prefix != "site":
        kw["node_prefix"] = prefix
    if case["path"] != "leftmost" and (style != "default" or r != 0):
        kw["root_site"] = r
    ctx.tally("mps_args", style + (":" + "+".join(sorted(kw)) if style == "default" else ""))
    try:
        if case["path"] == "leftmost":
            if style == "pos":
                mpt = cls.from_tensor_list_leftmost_node_is_root(inputs, prefix)
            else:
                mpt = cls.from_tensor_list_leftmost_node_is_root(inputs, **kw)
        elif style == "pos":
            mpt = cls.from_tensor_list(inputs, prefix, r)
        else:
            mpt = cls.from_tensor_list(inputs, **kw)
    except Exception as e:  # noqa: BLE001
        ctx.oracle_fail(case, f"mps from_tensor_list n={n} root={r} raised {type(e).__name__}: {str(e)[:160]}")
        return
    # ---- correspondence with the Lean model
    parsed = _parse_mps_model(model_out[0]) if model_out else None
    if parsed is None:
        ctx.corr_fail(case, f"mps n={n} r={r}: model answered {model_out}")
    else:
        nodes, left, right = parsed
        impl_nodes = []
        for nid in mpt.nodes:
            nd = mpt.nodes[nid]
            impl_nodes.append((nid, nd.parent, list(nd.children)))
        mod_nodes = [(prefix + str(i), None if p is None else prefix + str(p), [prefix + str(c) for c in ch])
                     for (i, p, ch, _) in nodes]
        if impl_nodes != mod_nodes:
            ctx.corr_fail(case, f"mps n={n} r={r}: structure impl={impl_nodes} model={mod_nodes}")
        else:
            for (i, _, _, legs) in nodes:
                t = mpt.tensors[prefix + str(i)]
                if sorted(legs) != list(range(padded[i].ndim)) or \
                        not np.array_equal(t, np.transpose(padded[i], legs)):
                    ctx.corr_fail(case, f"mps n={n} r={r}: tensor of site {i} is not the input transposed by "
                                        f"the model's leg order {legs}")
                    break
        il = [nd.identifier for nd in mpt.left_nodes]
        ir = [nd.identifier for nd in mpt.right_nodes]
        if il != [prefix + str(i) for i in left] or ir != [prefix + str(i) for i in right]:
            ctx.corr_fail(case, f"mps n={n} r={r}: left/right lists impl={il}/{ir} model={left}/{right}")
    # ---- oracle
    probs = _mps_common_checks(mpt, n, r, prefix)
    if not probs:
        order = [prefix + str(i) for i in range(n)]
        try:
            got, _ = dense.ttn_dense(mpt, order)
            ref = chain_dense(base)
            if not _close(got, ref):
                probs.append("contraction differs from the chain A_0 A_1 ... A_(n-1) of the given tensors"
                             + (" (zero padding present)" if any(case["pad"]) else ""))
        except Exception as e:  # noqa: BLE001
            probs.append(f"dense contraction impossible: {type(e).__name__}: {str(e)[:100]}")
        for i in range(n):
            if not np.array_equal(inputs[i], padded[i]):
                probs.append(f"input tensor {i} was modified")
    if probs:
        ctx.oracle_fail(case, f"matrix-product chain ({case['cls']}, n={n}, root={r}, path={case['path']}): "
                        + "; ".join(probs[:4]))


# ---- value level: the Lean model evaluates its own binding record on the library's integer tensors

def _mpsval_tensors(case):
    """integer site tensors (axes left?, right?, open...) and their zero-padded versions"""
    rng = random.Random(case["seed"])
    n, bonds, pad, opens = case["n"], case["bonds"], case["pad"], case["opens"]
    base, padded = [], []
    for i in range(n):
        sh = ([bonds[i - 1]] if i > 0 else []) + ([bonds[i]] if i < n - 1 else []) + list(opens[i])
        size = int(np.prod(sh)) if sh else 1
        t = np.array([rng.randint(-3, 3) for _ in range(size)], dtype=np.int64).reshape(sh)
        base.append(t)
        widths = []
        if i > 0:
            e = pad[i - 1]
            widths.append((0, e) if case["padpos"][i - 1] == "end" else (e, 0))
        if i < n - 1:
            e = pad[i]
            widths.append((0, e) if case["padpos"][i] == "end" else (e, 0))
        widths += [(0, 0)] * len(opens[i])
        padded.append(np.pad(t, widths) if widths else t)
    return base, padded


def _parse_mpsrec(s):
    """`nodes id:lab,..;.. | rec a~b .. | chain a~b ..` -> ([(id, [labels])], [(a, b)], [(a, b)])"""
    if s in ("bad-op", "none") or " | " not in s:
        return None
    try:
        pn, pr, pc = s.split(" | ")
        nodes = []
        for tok in pn[len("nodes "):].split(";"):
            i, labs = tok.split(":")
            nodes.append((int(i), [x for x in labs.split(",") if x != ""]))

        def pairs(part, key):
            body = part[len(key) + 1:]
            return [] if body == "-" else [tuple(x.split("~")) for x in body.split()]
        return nodes, pairs(pr, "rec"), pairs(pc, "chain")
    except ValueError:
        return None


def _einrec(num, dims, free, pairs, leaves):
    from harness import einsum_corr
    return einsum_corr.einrec_line(dims, [num[l] for l in free], [(num[a], num[b]) for a, b in pairs],
                                   [([num[l] for l in labs], arr) for labs, arr in leaves])


def _case_mpsval(ctx, case, model_out):
    from pytreenet.special_ttn.mps import MatrixProductTree
    from harness import einsum_corr
    n, r = case["n"], case["r"]
    base, padded = _mpsval_tensors(case)
    inputs = [t.astype(float) for t in padded]
    ctx.count(("mpsval", n, r, case["seed"]), nontrivial=(r != 0 or any(case["pad"])), corr=True)
    ctx.tally("mpsval", f"n{n}:{'first' if r == 0 else ('last' if r == n - 1 else 'mid')}"
                        + ("+pad" if any(case["pad"]) else ""))
    try:
        mpt = MatrixProductTree.from_tensor_list(inputs, root_site=r)
        got, order = mpt.completely_contract_tree(to_copy=True)
    except Exception as e:  # noqa: BLE001
        ctx.oracle_fail(case, f"mpsval from_tensor_list / full contraction n={n} root={r} raised "
                              f"{type(e).__name__}: {str(e)[:160]}")
        return
    parsed = _parse_mpsrec(model_out[0]) if model_out else None
    if parsed is None:
        ctx.corr_fail(case, f"mpsval n={n} r={r}: model answered {model_out}")
        return
    nodes, rec, chain = parsed
    if [f"site{i}" for i, _ in nodes] != list(mpt.nodes.keys()):
        ctx.corr_fail(case, f"mpsval n={n} r={r}: dict order impl={list(mpt.nodes.keys())} model={[i for i, _ in nodes]}")
        return
    # label numbering and dimensions from the LIBRARY's node tensors, legs in the model's (parent, children, open) order
    num, dims, lib_leaves = {}, [], []
    for i, labs in nodes:
        t = np.asarray(mpt.tensors[f"site{i}"])
        if t.ndim != len(labs) or len(set(labs)) != len(labs):
            ctx.corr_fail(case, f"mpsval n={n} r={r}: site {i} has {t.ndim} legs, model lists {labs}")
            return
        if np.abs(t.imag).max(initial=0) != 0 or np.abs(t.real - np.round(t.real)).max(initial=0) != 0:
            ctx.oracle_fail(case, f"mpsval n={n} r={r}: tensor of site {i} is no longer integer")
            return
        for l, d in zip(labs, t.shape):
            num[l] = len(dims)
            dims.append(int(d))
        lib_leaves.append((labs, np.round(t.real).astype(np.int64)))
    free = [f"{i}P{k}" for i in range(n) for k in range(len(case["opens"][i]))]
    in_labs = [([f"{i}L"] if i > 0 else []) + ([f"{i}R"] if i < n - 1 else [])
               + [f"{i}P{k}" for k in range(len(case["opens"][i]))] for i in range(n)]
    if set(num) != {l for ls in in_labs for l in ls}:
        ctx.corr_fail(case, f"mpsval n={n} r={r}: model labels {sorted(num)} are not the input axes")
        return
    udims = list(dims)           # dimensions without the padding
    for i in range(n - 1):
        udims[num[f"{i}R"]] = udims[num[f"{i + 1}L"]] = case["bonds"][i]
    lines = [_einrec(num, dims, free, rec, lib_leaves),                              # model's record, library tensors
             _einrec(num, dims, free, chain, list(zip(in_labs, padded))),           # chain record, input tensors
             _einrec(num, udims, free, chain, list(zip(in_labs, base)))]            # chain record, unpadded tensors
    outs = ctx.lean.batch(lines)
    tabs = [einsum_corr.parse_table(o, "full") for o in outs]
    if any(t is None for t in tabs):
        ctx.corr_fail(case, f"mpsval n={n} r={r}: einrec answered {[o[:40] for o in outs]} (record {rec})")
        return
    # the library's own full contraction, open legs brought to site order
    got = np.asarray(got)
    pos, k = {}, 0
    for nid in order:
        i = int(nid[len("site"):])
        for j in range(len(case["opens"][i])):
            pos[(i, j)] = k
            k += 1
    if k != got.ndim:
        ctx.oracle_fail(case, f"mpsval n={n} r={r}: full contraction has {got.ndim} legs, expected {k}")
        return
    perm = [pos[(i, j)] for i in range(n) for j in range(len(case["opens"][i]))]
    got = np.transpose(got, perm) if perm else got
    flat = [complex(x) for x in got.reshape(-1)]
    if len(flat) != len(tabs[0]) or any(a != b for a, b in zip(flat, tabs[0])):
        ctx.corr_fail(case, f"mpsval n={n} r={r}: the library's full contraction differs from the model's evaluation "
                            f"(netValue) of its binding record {rec} on the library's tensors")
        return
    probs = []
    if tabs[0] != tabs[1]:
        probs.append(f"network built for root {r} (record {rec}) does not evaluate to the chain "
                     f"sum_bonds prod_i T_i[left,right,open] of the tensors handed in (mps_chain_value)")
    if tabs[1] != tabs[2]:
        probs.append("zero padding of the bonds changed the chain value (pad_bond_value)")
    ref = chain_dense(base)                          # independent: NumPy einsum over the unpadded inputs
    if [complex(x) for x in np.asarray(ref).reshape(-1)] != flat:
        probs.append("full contraction differs from the einsum chain of the (unpadded) input tensors")
    for i in range(n):
        if not np.array_equal(inputs[i], padded[i]):
            probs.append(f"input tensor {i} was modified")
    if probs:
        ctx.oracle_fail(case, f"mpsval n={n} root={r}: " + "; ".join(probs[:3]))


# ---- value level, star / fork: the Lean model evaluates `gRecord` on the library's integer tensors

def _specval_spec(case):
    """Integer tensors of a `specval` star / fork case.  Keys are the model's identifier tokens (`C`, `<c>.<j>`,
    `M<i>`, `S<i>.<j>`).  Returns (tokens in call order, {token: int array}, specified bonds [((tok, axis), (tok, axis))]):
    the bond of a node to its parent is its axis 0, the parent's axes are (parent, neighbours in attachment order, open)."""
    rng = random.Random(case["seed"])
    parent, order = {}, []
    if case["shape"] == "star":
        order.append("C")
        parent["C"] = None
        pos = [0] * len(case["lens"])
        # the centre tensor carries the bond to chain c at axis c, whatever the call order
        heads = [f"{c}.0" for c in range(len(case["lens"]))]
        for c in case["sched"]:
            j = pos[c]
            pos[c] += 1
            t = f"{c}.{j}"
            order.append(t)
            parent[t] = "C" if j == 0 else f"{c}.{j - 1}"
    else:
        made, sub = 0, {}
        heads = None
        for ev in case["events"]:
            if ev[0] == "m":
                t = f"M{made}"
                parent[t] = None if made == 0 else f"M{made - 1}"
                made += 1
            else:
                j = sub.get(ev[1], 0)
                sub[ev[1]] = j + 1
                t = f"S{ev[1]}.{j}"
                parent[t] = f"M{ev[1]}" if j == 0 else f"S{ev[1]}.{j - 1}"
            order.append(t)
    attach = {t: [] for t in order}
    for t in order:
        if parent[t] is not None:
            attach[parent[t]].append(t)
    if heads is not None:
        attach["C"] = heads
    bond = {t: rng.choice([1, 2, 2, 3]) for t in order if parent[t] is not None}
    opens = {t: [rng.choice([1, 2, 2, 3]) for _ in range(rng.choice([0, 1, 1, 2]))] for t in order}

    def total():
        x = 1
        for t in order:
            x *= bond.get(t, 1)
            for d in opens[t]:
                x *= d
        return x
    while total() > 3000:            # the model's evaluation is one big sum over all legs
        big = [(0, t, None) for t in bond if bond[t] > 1] + \
              [(1, t, k) for t in order for k, d in enumerate(opens[t]) if d > 1]
        w, t, k = rng.choice(big)
        if w == 0:
            bond[t] -= 1
        else:
            opens[t][k] -= 1
    inputs, pairs = {}, []
    for t in order:
        sh = ([bond[t]] if parent[t] is not None else []) + [bond[c] for c in attach[t]] + opens[t]
        size = int(np.prod(sh)) if sh else 1
        inputs[t] = np.array([rng.randint(-3, 3) for _ in range(size)], dtype=np.int64).reshape(sh)
        k0 = 0 if parent[t] is None else 1
        for a, c in enumerate(attach[t]):
            pairs.append(((t, k0 + a), (c, 0)))
    return order, inputs, pairs


def _parse_grec(s):
    """`nodes id:lab,..;.. | rec a~b ..` -> ([(id, [labels])], [(a, b)])"""
    if s in ("bad-op", "none") or " | " not in s:
        return None
    try:
        pn, pr = s.split(" | ")
        nodes = []
        for tok in pn[len("nodes "):].split(";"):
            i, labs = tok.split(":")
            nodes.append((i, [x for x in labs.split(",") if x != ""]))
        body = pr[len("rec "):]
        return nodes, ([] if body == "-" else [tuple(x.split("~")) for x in body.split()])
    except ValueError:
        return None


def _case_specval(ctx, case, model_out):
    from pytreenet.special_ttn.star import StarTreeTensorNetwork, StarTreeTensorState
    from pytreenet.special_ttn.fttn import ForkTreeTensorNetwork, ForkTreeProductState, constant_ftps
    from harness import einsum_corr
    sh = case["shape"]
    what = f"specval {sh} " + " ".join(f"{k}={case[k]}" for k in case if k not in ("kind", "shape"))
    ctx.tally("specval", sh)
    inputs = spec_pairs = local = None
    try:
        if sh == "star":
            order, inputs, spec_pairs = _specval_spec(case)
            to_lib = lambda t: "center" if t == "C" else "node" + t.replace(".", "_")      # noqa: E731
            ttn = StarTreeTensorNetwork() if case["seed"] % 2 else StarTreeTensorState(central_node_identifier="center")
            ttn.add_center_node(inputs["C"].astype(float))
            for t in order[1:]:
                ttn.add_chain_node(inputs[t].astype(float), int(t.split(".")[0]))
        elif sh == "fork":
            order, inputs, spec_pairs = _specval_spec(case)
            to_lib = _fork_tok
            ttn = ForkTreeTensorNetwork() if case["seed"] % 2 else ForkTreeProductState()
            for t in order:
                if t[0] == "M":
                    ttn.add_main_chain_node(inputs[t].astype(float))
                else:
                    ttn.add_sub_chain_node(inputs[t].astype(float), int(t[1:].split(".")[0]))
        elif sh == "starconst":
            to_lib = lambda t: "central" if t == "C" else "site" + t.replace(".", "_")     # noqa: E731
            ttn = StarTreeTensorState.constant_product_state(case["v"], case["d"], case["L"], case["C"])
            local = np.zeros(case["d"], dtype=np.int64)
            local[case["v"]] = 1
        else:
            to_lib = _fork_tok
            lr = random.Random(case["seed"])
            local = np.array([lr.randint(-3, 3) for _ in range(case["d"])], dtype=np.int64)
            if not local.any():
                local[lr.randrange(case["d"])] = 2
            ttn = constant_ftps(local.astype(float), case["w"], case["h"], bond_dim=case["bd"])
        got, corder = ttn.completely_contract_tree(to_copy=True)
    except Exception as e:  # noqa: BLE001
        ctx.oracle_fail(case, f"{what}: construction / full contraction raised {type(e).__name__}: {str(e)[:160]}")
        return
    parsed = _parse_grec(model_out[0]) if model_out else None
    ctx.count(("specval", what), nontrivial=len(ttn.nodes) >= 3, corr=True)
    if parsed is None:
        ctx.corr_fail(case, f"{what}: the library built a network, the model answered {model_out}")
        return
    nodes, rec = parsed
    if [to_lib(i) for i, _ in nodes] != list(ttn.nodes.keys()):
        ctx.corr_fail(case, f"{what}: dict order impl={list(ttn.nodes.keys())} model={[i for i, _ in nodes]}")
        return
    num, dims, lib_leaves, labs_of = {}, [], [], {}
    for i, labs in nodes:
        t = np.asarray(ttn.tensors[to_lib(i)])
        if t.ndim != len(labs) or len(set(labs)) != len(labs) or set(labs) != {f"{i}#{a}" for a in range(t.ndim)}:
            ctx.corr_fail(case, f"{what}: node {i} has {t.ndim} legs, model lists {labs}")
            return
        if np.abs(t.imag).max(initial=0) != 0 or np.abs(t.real - np.round(t.real)).max(initial=0) != 0:
            ctx.oracle_fail(case, f"{what}: tensor of node {i} is no longer integer")
            return
        for l, d in zip(labs, t.shape):
            num[l] = len(dims)
            dims.append(int(d))
        labs_of[i] = labs
        lib_leaves.append((labs, np.round(t.real).astype(np.int64)))
    bound = {x for pr in rec for x in pr}
    free = [f"{i}#{a}" for i, labs in nodes for a in range(len(labs)) if f"{i}#{a}" not in bound]
    lines = [_einrec(num, dims, free, rec, lib_leaves)]                 # model's record, library tensors
    if inputs is not None:
        in_leaves = [([f"{i}#{a}" for a in range(inputs[i].ndim)], inputs[i]) for i, _ in nodes]
        if any(tuple(dims[num[l]] for l in labs) != arr.shape for labs, arr in in_leaves):
            ctx.corr_fail(case, f"{what}: shapes of the library's tensors are not the input shapes permuted by the model's legs")
            return
        lines.append(_einrec(num, dims, free, rec, in_leaves))          # model's record, tensors handed in
    outs = ctx.lean.batch(lines)
    tabs = [einsum_corr.parse_table(o, "full") for o in outs]
    if any(t is None for t in tabs):
        ctx.corr_fail(case, f"{what}: einrec answered {[o[:40] for o in outs]} (record {rec})")
        return
    # the library's own full contraction; its axes are the open legs of the nodes in contraction order
    got = np.asarray(got)
    inv = {to_lib(i): i for i, _ in nodes}
    axes = []
    for nid in corder:
        nd = ttn.nodes[nid]
        axes += [labs_of[inv[nid]][p] for p in nd.open_legs]
    if len(axes) != got.ndim or sorted(axes) != sorted(free):
        ctx.corr_fail(case, f"{what}: open legs of the full contraction {axes} are not the model's unbound legs {free}")
        return
    got = np.transpose(got, [axes.index(l) for l in free]) if free else got
    flat = [complex(x) for x in got.reshape(-1)]
    if len(flat) != len(tabs[0]) or any(a != b for a, b in zip(flat, tabs[0])):
        ctx.corr_fail(case, f"{what}: the library's full contraction differs from the model's evaluation (netValue) "
                            f"of its binding record {rec} on the library's tensors")
        return
    probs = []
    if inputs is not None:
        if tabs[1] != tabs[0]:
            probs.append(f"the network built (record {rec}) evaluated on the tensors handed in differs from its value "
                         f"on the stored tensors (star_value / fork_value (a))")
        # independent: NumPy einsum over the tensors handed in, bonds from the documented convention
        sym = {}
        for k, (a, b) in enumerate(spec_pairs):
            sym[a] = sym[b] = k
        fl = [(i, a) for i, _ in nodes for a in range(inputs[i].ndim) if (i, a) not in sym]
        for k, l in enumerate(fl):
            sym[l] = len(spec_pairs) + k
        args = []
        for i, _ in nodes:
            args += [inputs[i], [sym[(i, a)] for a in range(inputs[i].ndim)]]
        ref = np.einsum(*args, [sym[l] for l in fl])
        if [f"{i}#{a}" for i, a in fl] != free:
            probs.append(f"unbound legs of the model {free} are not the specified open legs {fl}")
        elif [complex(x) for x in np.asarray(ref).reshape(-1)] != flat:
            probs.append("full contraction differs from the einsum of the tensors handed in over the specified bonds")
    else:
        ref = np.array([1], dtype=np.int64)
        for _ in nodes:
            ref = np.kron(ref, local)
        if len(free) != len(nodes) or [complex(x) for x in ref] != flat:
            probs.append("contraction is not the Kronecker product of the local states "
                         "(constant_product_state_value)")
        ctx.tally("specval_bond", max(dims))
    if probs:
        ctx.oracle_fail(case, f"{what}: " + "; ".join(probs[:3]))


def _case_mpsconst(ctx, case, model_out):
    from pytreenet.special_ttn.mps import MatrixProductState
    n, r, d, v, bonds, prefix = case["n"], case["r"], case["d"], case["v"], case["bonds"], case["prefix"]
    ctx.count(("mpsconst", n, r, d, v, str(bonds)), nontrivial=(r != 0 or bonds is not None or d != 2), corr=True)
    ctx.tally("mpsconst", f"d{d}" + ("+bonds" if bonds else ""))
    style = case.get("args", "kw")
    bl = None if bonds is None else list(bonds)
    ctx.tally("mpsconst_args", style)
    try:
        if style == "pos":
            mps = MatrixProductState.constant_product_state(v, d, n, prefix, r, bl)
        elif style == "kwall":
            mps = MatrixProductState.constant_product_state(bond_dimensions=bl, root_site=r, node_prefix=prefix,
                                                            num_sites=n, dimension=d, state_value=v)
        elif style == "default":
            kw = {}
            if prefix != "site":
                kw["node_prefix"] = prefix
            if r != 0:
                kw["root_site"] = r
            if bl is not None:
                kw["bond_dimensions"] = bl
            mps = MatrixProductState.constant_product_state(v, d, n, **kw)
        else:
            mps = MatrixProductState.constant_product_state(v, d, n, node_prefix=prefix, root_site=r,
                                                            bond_dimensions=bl)
    except Exception as e:  # noqa: BLE001
        ctx.oracle_fail(case, f"mps constant_product_state(v={v}, d={d}, n={n}, root={r}, bonds={bonds}) raised "
                              f"{type(e).__name__}: {str(e)[:160]}")
        return
    parsed = _parse_mps_model(model_out[0]) if model_out else None
    if parsed is None:
        ctx.corr_fail(case, f"mpsconst: model answered {model_out}")
    else:
        impl_nodes = [(nid, mps.nodes[nid].parent, list(mps.nodes[nid].children)) for nid in mps.nodes]
        mod_nodes = [(prefix + str(i), None if p is None else prefix + str(p), [prefix + str(c) for c in ch])
                     for (i, p, ch, _) in parsed[0]]
        if impl_nodes != mod_nodes:
            ctx.corr_fail(case, f"mpsconst n={n} r={r}: structure impl={impl_nodes} model={mod_nodes}")
    probs = _mps_common_checks(mps, n, r, prefix)
    if not probs:
        order = [prefix + str(i) for i in range(n)]
        vec = dense.ttns_vector(mps, order)
        e = np.zeros(d)
        e[v] = 1
        ref = np.array([1.0])
        for _ in range(n):
            ref = np.kron(ref, e)
        if not _close(vec, ref):
            probs.append("contraction is not the product state |v>^n")
        want = [1] * (n - 1) if bonds is None else bonds
        for i in range(n - 1):
            a, b = prefix + str(i), prefix + str(i + 1)
            child = a if mps.nodes[a].parent == b else b
            if mps.tensors[child].shape[0] != want[i]:
                probs.append(f"bond {i}-{i + 1} has dimension {mps.tensors[child].shape[0]}, requested {want[i]}")
        for i in range(n):
            if mps.tensors[prefix + str(i)].shape[-1] != d or mps.nodes[prefix + str(i)].nopen_legs() != 1:
                probs.append(f"site {i} does not have exactly one open leg of dimension {d}")
    if probs:
        ctx.oracle_fail(case, f"mps constant_product_state(v={v}, d={d}, n={n}, root={r}, bonds={bonds}): "
                        + "; ".join(probs[:4]))


def _direct_tokens(case):
    """Protocol tokens of the direct calls: `L` / `Lf` (final=True, the chain's site 0) / `R`."""
    toks, lo = [], case["r"]
    for step in case["order"]:
        if step == "L":
            lo -= 1
            toks.append("Lf" if lo == 0 else "L")
        else:
            toks.append("R")
    return toks


def _case_mpsdirect(ctx, case, model_out):
    """A chain assembled by hand: add_root(site r), then attach_node_left_end(node, tensor, final) and
    attach_node_right_end(node, tensor) called directly, in any interleaving (from_tensor_list only ever
    attaches the whole left side first).  Documented tensor formats: left end `[other virtual leg, parent leg,
    open...]` (site 0: `[parent leg, open...]`, final=True), right end `[parent leg, other virtual leg, open...]`."""
    from pytreenet.special_ttn.mps import MatrixProductTree, MatrixProductState, MatrixProductOperator
    from pytreenet.core.node import Node
    cls = {"mps": MatrixProductState, "mpo": MatrixProductOperator, "mpt": MatrixProductTree}[case["cls"]]
    n, r, prefix, order = case["n"], case["r"], case["prefix"], case["order"]
    base, _ = _mps_tensors(case)
    inputs = [t.copy() for t in base]
    nl = order.index("R") if "R" in order else len(order)
    kind = "library order (left side first)" if "L" not in order[nl:] else \
        ("right side first" if "R" not in order[order.index("L"):] else "interleaved")
    ctx.count(("mpsdirect", n, r, case["cls"], "".join(order), case["seed"]),
              nontrivial=(kind != "library order (left side first)"), corr=bool(model_out))
    ctx.tally("mps_direct_order", kind)
    ctx.tally("mps_direct_final_arg", case["final"])
    if r == 0:
        ctx.tally("mps_direct_root", "leftmost site (F-C19b candidate)")
    what = f"hand-made chain ({case['cls']}, n={n}, root={r}, calls={''.join(order)})"
    try:
        mpt = cls()
        mpt.add_root(Node(identifier=prefix + str(r)), inputs[r])
        lo, hi = r, r
        bare_root_right = False       # inside the first attach_node_right_end of a chain whose root is site 0
        for step in order:
            bare_root_right = (step == "R" and r == 0 and hi == 0)
            if step == "L":
                lo -= 1
                node = Node(identifier=prefix + str(lo))
                if case["final"] == "pos":
                    mpt.attach_node_left_end(node, inputs[lo], lo == 0)
                elif case["final"] == "omit" and lo != 0:
                    mpt.attach_node_left_end(node, inputs[lo])          # final defaults to False
                else:
                    mpt.attach_node_left_end(node, inputs[lo], final=(lo == 0))
            else:
                hi += 1
                mpt.attach_node_right_end(Node(identifier=prefix + str(hi)), inputs[hi])
    except Exception as e:  # noqa: BLE001
        if model_out and model_out[0] not in ("none", "bad-op") and type(e).__name__ != "NotCompatibleException":
            ctx.corr_fail(case, f"{what}: library raised {type(e).__name__} but the model accepts the calls")
        # F-C19b (candidate, see notes): only the first right attachment to a root that is the leftmost site
        ctx.oracle_fail(case, f"{what} raised {type(e).__name__}: {str(e)[:160]}",
                        finding=("F-C19b" if bare_root_right else None))
        return
    parsed = _parse_mps_model(model_out[0]) if model_out else None
    if model_out and parsed is None:
        ctx.corr_fail(case, f"{what}: model answered {model_out}")
    elif parsed is not None:
        nodes, left, right = parsed
        impl_nodes = [(nid, mpt.nodes[nid].parent, list(mpt.nodes[nid].children)) for nid in mpt.nodes]
        mod_nodes = [(prefix + str(i), None if p_ is None else prefix + str(p_), [prefix + str(c) for c in ch])
                     for (i, p_, ch, _) in nodes]
        if impl_nodes != mod_nodes:
            ctx.corr_fail(case, f"{what}: structure impl={impl_nodes} model={mod_nodes}")
        else:
            for (i, _, _, legs) in nodes:
                if sorted(legs) != list(range(base[i].ndim)) or \
                        not np.array_equal(mpt.tensors[prefix + str(i)], np.transpose(base[i], legs)):
                    ctx.corr_fail(case, f"{what}: tensor of site {i} is not the input transposed by the model's "
                                        f"leg order {legs}")
                    break
        il = [nd.identifier for nd in mpt.left_nodes]
        ir = [nd.identifier for nd in mpt.right_nodes]
        if il != [prefix + str(i) for i in left] or ir != [prefix + str(i) for i in right]:
            ctx.corr_fail(case, f"{what}: left/right lists impl={il}/{ir} model={left}/{right}")
    probs = _mps_common_checks(mpt, n, r, prefix)
    if not probs:
        try:
            got, _ = dense.ttn_dense(mpt, [prefix + str(i) for i in range(n)])
            if not _close(got, chain_dense(base)):
                probs.append("contraction differs from the chain A_0 A_1 ... A_(n-1) of the given tensors")
        except Exception as e:  # noqa: BLE001
            probs.append(f"dense contraction impossible: {type(e).__name__}: {str(e)[:100]}")
        for i in range(n):
            if not np.array_equal(inputs[i], base[i]):
                probs.append(f"input tensor {i} was modified")
    if probs:
        finding = None
        if r == 0 and n >= 2 and base[0].ndim >= 2:
            # F-C19b: the root's first OPEN leg (axis 1 of `[right, open...]`) was taken for the bond to site 1
            swapped = np.transpose(base[0], [1, 0] + list(range(2, base[0].ndim)))
            t0 = mpt.tensors[prefix + "0"]
            if t0.shape == swapped.shape and np.array_equal(t0, swapped) and not np.array_equal(t0, base[0]):
                finding = "F-C19b"
        ctx.oracle_fail(case, f"{what}: " + "; ".join(probs[:4]), finding=finding)


# =============================================================================== (b) star / fork / binary

def _shape_tok(shape):
    return ",".join(str(int(x)) for x in shape) if len(shape) else "-"


def _compare_structure(ctx, case, what, ttn, model_line, to_lib, inputs=None):
    """Exact structure correspondence with the Lean model: dict order, parent, child order, per-node leg order
    (through the tensor: library tensor == input transposed by the model's legs) and shapes.
    `to_lib` maps a model identifier token to the library identifier."""
    if model_line is None:
        return
    if model_line in ("none", "bad-op"):
        ctx.corr_fail(case, f"{what}: model answered {model_line} but the library built a network")
        return
    mod = []
    for tok in model_line.split(";"):
        i, p, ch, legs, dims = tok.split(":")
        mod.append((to_lib(i), None if p == "-" else to_lib(p), [to_lib(c) for c in ch.split(",") if c != ""],
                    [int(x) for x in legs.split(",") if x != ""], [int(x) for x in dims.split(",") if x != ""]))
    impl = [(nid, ttn.nodes[nid].parent, list(ttn.nodes[nid].children)) for nid in ttn.nodes]
    if impl != [(a, b, c) for (a, b, c, _, _) in mod]:
        ctx.corr_fail(case, f"{what}: structure impl={impl} model={[(a, b, c) for (a, b, c, _, _) in mod]}")
        return
    for (nid, _, _, legs, dims) in mod:
        t = ttn.tensors[nid]
        if sorted(legs) != list(range(len(dims))) or tuple(t.shape) != tuple(dims[a] for a in legs):
            ctx.corr_fail(case, f"{what}: node {nid} has shape {t.shape}, model legs {legs} of dims {dims}")
            return
        if inputs is not None and nid in inputs and not np.array_equal(t, np.transpose(inputs[nid], legs)):
            ctx.corr_fail(case, f"{what}: tensor of {nid} is not the input transposed by the model's legs {legs}")
            return


def _star_names(case):
    """(prefix, centre identifier); `None` in the case = argument omitted = the documented default of the class."""
    center = case.get("center") or ("center" if case["cls"] == "network" else "central")
    return (case.get("prefix") or "node"), center


def _star_legmode(case):
    """default: every tensor's legs in the default order (centre: chain 0, chain 1, .., open; chain node: parent,
    next, open) and no parent_leg argument; first: centre bond legs shuffled, explicit parent_leg for the first node
    of every chain; all: ALL legs of the centre shuffled (bonds between open legs) and the non-parent legs of every
    chain node shuffled (e.g. parent, open, next), explicit parent_leg wherever the wanted leg is not the default."""
    return case.get("legmode") or ("first" if case.get("legperm") else "default")


def _shuffle_legs(t, labels, perm):
    """The tensor with its legs in the order `perm`.  Bond labels travel with their legs; the open legs are
    numbered again in their NEW order: the library documents that open legs keep their relative order, and both
    the reference and the dense contraction of the result list a node's open legs in that order."""
    olab = sorted([l for l in labels if l[0] == "o"], key=lambda l: l[2])
    it = iter(olab)
    return np.transpose(t, perm), [next(it) if labels[a][0] == "o" else labels[a] for a in perm]


def _attach_plan(calls, spec, root, mode, lrng):
    """`calls`: [(key, child id, parent id)] in call order.  For every call the position of the wanted bond among the
    parent's legs AT THAT MOMENT, from the documented convention (parent leg, child legs in attachment order, open
    legs in their original order): number of neighbours so far + rank among the legs not yet attached.
    Returns [(key, child id, parent_leg or None, rank, style)]."""
    rem, natt, out = {}, {}, []
    for nid, (_, labels) in spec.items():
        rem[nid] = list(labels if nid == root else labels[1:])     # a non-root tensor offers its leg 0 to its parent
        natt[nid] = 0
    for key, nid, par in calls:
        want = spec[nid][1][0]
        rank = rem[par].index(want)
        rem[par].pop(rank)
        nv = (0 if par == root else 1) + natt[par]
        natt[par] += 1
        if mode == "default":
            assert rank == 0
            leg = None
        elif mode == "first":
            leg = nv + rank if par == root else None
        else:
            leg = nv + rank if (rank != 0 or lrng.random() < 0.5) else None
        out.append((key, nid, leg, rank, lrng.choice(["kw", "pos"])))
    return out


def _star_calls(case, spec):
    """[(chain, position, parent_leg or None, rank of the wanted leg among the parent's open legs, style)]"""
    prefix, center = _star_names(case)
    pos, calls = [0] * len(case["lens"]), []
    for c in case["sched"]:
        j = pos[c]
        calls.append(((c, j), f"{prefix}{c}_{j}", center if j == 0 else f"{prefix}{c}_{j - 1}"))
        pos[c] += 1
    plan = _attach_plan(calls, spec, center, _star_legmode(case), random.Random(case["seed"] + 7))
    return [(key[0], key[1], leg, rank, style) for (key, _, leg, rank, style) in plan]

def _star_parent_map(prefix, center, lens):
    pm = {center: None}
    for c, L in enumerate(lens):
        for j in range(L):
            pm[f"{prefix}{c}_{j}"] = center if j == 0 else f"{prefix}{c}_{j - 1}"
    return pm


def _case_starconst(ctx, case, _m):
    from pytreenet.special_ttn.star import StarTreeTensorState
    v, d, L, C, prefix = case["v"], case["d"], case["L"], case["C"], case["prefix"]
    ctx.count(("starconst", v, d, L, C), nontrivial=(d != 2 or C > 1 or L > 1), corr=bool(_m))
    ctx.tally("star_const_dim", d)
    style = case.get("args", "kw")
    ctx.tally("starconst_args", style + (":prefix omitted" if style == "default" and prefix == "site" else ""))
    try:
        if style == "pos":
            st = StarTreeTensorState.constant_product_state(v, d, L, C, prefix)
        elif style == "kwall":
            st = StarTreeTensorState.constant_product_state(node_prefix=prefix, num_chains=C, chain_length=L,
                                                            dimension=d, state_value=v)
        elif style == "default" and prefix == "site":
            st = StarTreeTensorState.constant_product_state(v, d, L, C)
        else:
            st = StarTreeTensorState.constant_product_state(v, d, L, C, node_prefix=prefix)
    except Exception as e:  # noqa: BLE001
        ctx.oracle_fail(case, f"star constant_product_state(v={v}, d={d}, chain_length={L}, num_chains={C}) raised "
                              f"{type(e).__name__}: {str(e)[:160]}")
        return
    if _m:
        _compare_structure(ctx, case, "star constant_product_state", st, _m[0],
                           lambda t: "central" if t == "C" else prefix + t.replace(".", "_"))
    pm = _star_parent_map(prefix, "central", [L] * C)
    probs = list(dense.well_formed(st))
    p = _ids_problem(st, pm.keys()) or _parents_problem(st, pm)
    if p:
        probs.append(p)
    if not probs:
        order = list(pm.keys())
        vec = dense.ttns_vector(st, order)
        e = np.zeros(d)
        e[v] = 1
        ref = np.array([1.0])
        for _ in order:
            ref = np.kron(ref, e)
        if not _close(vec, ref):
            probs.append("contraction is not the product state")
        for nid in order:
            if st.nodes[nid].nopen_legs() != 1 or st.tensors[nid].shape[-1] != d:
                probs.append(f"{nid} does not have one open leg of dimension {d}")
                break
    if probs:
        ctx.oracle_fail(case, f"star constant_product_state(v={v}, d={d}, chain_length={L}, num_chains={C}): "
                        + "; ".join(probs[:4]))


def _open_dims(nprng, cls, limit_state):
    if cls == "state":
        return [int(nprng.choice([1, 2, 2, 3]))]
    if cls == "operator":
        d = int(nprng.choice([1, 2, 2]))
        return [d, d]
    return [int(nprng.choice([1, 2, 3])) for _ in range(int(nprng.choice([0, 1, 1, 2])))]


def _star_spec(case):
    """Specified tensors of a `star` case: centre (bond_0..bond_{C-1}, open...), chain node (parent, next?, open...).
    Returns (spec {id: (array, labels)}, shapes {'center' | (c, j): shape}, ids)."""
    lens = case["lens"]
    prefix, center = _star_names(case)
    mode = _star_legmode(case)
    C = len(lens)
    nprng = np.random.default_rng(case["seed"])
    prng = np.random.default_rng(case["seed"] + 5)          # leg shuffles (separate stream)
    bond = {}
    for c in range(C):
        for j in range(lens[c]):
            bond[(c, j)] = int(nprng.choice([1, 2, 2, 3]))      # bond between (c, j-1) [centre if j = 0] and (c, j)
    total = 1
    spec, ids, shapes = {}, [center], {}
    opens = {center: _open_dims(nprng, case["cls"], 0)}
    for c in range(C):
        for j in range(lens[c]):
            opens[f"{prefix}{c}_{j}"] = _open_dims(nprng, case["cls"], 0)
    for k in opens:
        for d in opens[k]:
            total *= d
    if total > 20000:
        for k in opens:
            opens[k] = [1 for _ in opens[k]]
    border = list(range(C))
    if mode == "first":
        # the chains are attached to explicitly named legs of the centre (argument parent_leg): the centre tensor
        # carries its bond legs in a shuffled order
        border = [int(x) for x in prng.permutation(C)]
    ct = gen.rand_tensor(nprng, [bond[(c, 0)] for c in border] + opens[center])
    clab = [("b", c, 0) for c in border] + [("o", center, k) for k in range(len(opens[center]))]
    if mode == "all":
        ct, clab = _shuffle_legs(ct, clab, [int(x) for x in prng.permutation(ct.ndim)])
    spec[center] = (ct, clab)
    shapes["center"] = list(ct.shape)
    for c in range(C):
        for j in range(lens[c]):
            nid = f"{prefix}{c}_{j}"
            ids.append(nid)
            last = j == lens[c] - 1
            sh = [bond[(c, j)]] + ([] if last else [bond[(c, j + 1)]]) + opens[nid]
            t = gen.rand_tensor(nprng, sh)
            lab = [("b", c, j)] + ([] if last else [("b", c, j + 1)]) + [("o", nid, k) for k in range(len(opens[nid]))]
            if mode == "all" and t.ndim > 2:
                # leg 0 stays the parent leg (add_chain_node always offers leg 0 of the new tensor); the bond to the
                # next chain node sits anywhere among the open legs.  The open legs keep their relative order,
                # which is what the library documents for them.
                t, lab = _shuffle_legs(t, lab, [0] + [1 + int(x) for x in prng.permutation(t.ndim - 1)])
            spec[nid] = (t, lab)
            shapes[(c, j)] = list(t.shape)
    return spec, shapes, ids


def _case_star(ctx, case, model_out):
    from pytreenet.special_ttn.star import StarTreeTensorNetwork, StarTreeTensorState, StarTreeOperator
    cls = {"state": StarTreeTensorState, "operator": StarTreeOperator, "network": StarTreeTensorNetwork}[case["cls"]]
    lens, sched = case["lens"], case["sched"]
    prefix, center = _star_names(case)
    mode = _star_legmode(case)
    C = len(lens)
    ctx.count(("star", case["seed"], mode), nontrivial=(C > 1 or max(lens) > 1), corr=bool(model_out))
    ctx.tally("star_chains", C)
    ctx.tally("star_legmode", mode)
    ctx.tally("star_ctor_args", case.get("ctor", "kw"))
    spec, _, ids = _star_spec(case)
    calls = _star_calls(case, spec)
    try:
        if case.get("ctor") == "default":
            st = cls()                                   # documented defaults: "center" / "central", "node"
        elif case.get("ctor") == "pos":
            st = cls(center, prefix)
        else:
            st = cls(central_node_identifier=center, non_center_prefix=prefix)
        st.add_center_node(spec[center][0].copy())
        for (c, j, leg, rank, style) in calls:
            t = spec[f"{prefix}{c}_{j}"][0].copy()
            if leg is None:
                st.add_chain_node(t, c)
            elif style == "pos":
                st.add_chain_node(t, c, leg)
            else:
                st.add_chain_node(t, c, parent_leg=leg)
            if mode != "default":
                ctx.tally("star_explicit_parent_leg", ("first node" if j == 0 else "later node") + ": "
                          + ("omitted" if leg is None else ("default leg" if rank == 0 else "other leg")))
    except Exception as e:  # noqa: BLE001
        if model_out and model_out[0] != "none":
            ctx.corr_fail(case, f"star: library raised {type(e).__name__} but the model accepts the calls")
        ctx.oracle_fail(case, f"star add_chain_node schedule {sched} (lens {lens}, legs={mode}, "
                              f"parent_leg={[x[2] for x in calls]}) raised {type(e).__name__}: {str(e)[:160]}")
        return
    if model_out:
        _compare_structure(ctx, case, "star", st, model_out[0],
                           lambda t: center if t == "C" else prefix + t.replace(".", "_"),
                           {k: v[0] for k, v in spec.items()})
    pm = _star_parent_map(prefix, center, lens)
    probs = list(dense.well_formed(st))
    p = _ids_problem(st, pm.keys()) or _parents_problem(st, pm)
    if p:
        probs.append(p)
    if not probs:
        got, _ = dense.ttn_dense(st, ids)
        ref = _labelled_reference(spec, ids)
        if not _close(got, ref):
            probs.append("contraction differs from the network of the specified tensors")
    if not probs:
        # the documented bookkeeping of the class
        try:
            if st.num_chains() != C:
                probs.append(f"num_chains() = {st.num_chains()}, expected {C}")
            for c in range(C):
                want = [f"{prefix}{c}_{j}" for j in range(lens[c])]
                if st.chain_length(c) != lens[c] or [nd.identifier for nd in st.chains[c]] != want:
                    probs.append(f"chain {c}: chain_length {st.chain_length(c)}, nodes "
                                 f"{[nd.identifier for nd in st.chains[c]]}, expected {want}")
                if [st.chain_id(c, j) for j in range(lens[c])] != want:
                    probs.append(f"chain_id({c}, j) = {[st.chain_id(c, j) for j in range(lens[c])]}")
            if st.central_node_id != center or st.central_node.identifier != center:
                probs.append(f"central_node_id {st.central_node_id} / central_node {st.central_node.identifier}, "
                             f"expected {center}")
        except Exception as e:  # noqa: BLE001
            probs.append(f"bookkeeping accessors raised {type(e).__name__}: {str(e)[:100]}")
    if probs:
        ctx.oracle_fail(case, f"star from tensors (lens={lens}, schedule={sched}, {case['cls']}, legs={mode}, "
                              f"parent_leg={[x[2] for x in calls]}): " + "; ".join(probs[:4]))


def _case_any(ctx, case, model_out):
    """Arbitrary call sequences of add_chain_node / add_main_chain_node / add_sub_chain_node: the library and
    the model must accept or reject alike; accepted networks must be well-formed and match the model."""
    from pytreenet.special_ttn.star import StarTreeTensorNetwork
    from pytreenet.special_ttn.fttn import ForkTreeTensorNetwork
    star = case["kind"].startswith("starany")
    withleg = case["kind"].endswith("l")            # calls carry a parent_leg (or None) before the shape
    inputs, err = {}, None
    try:
        if star:
            net = StarTreeTensorNetwork()
            t = np.arange(int(np.prod(case["cshape"])), dtype=float).reshape(case["cshape"])
            inputs["center"] = t
            net.add_center_node(t.copy())
            pos = {}
            for call in case["calls"]:
                c, sh = call[0], call[-1]
                t = (np.arange(int(np.prod(sh)), dtype=float) + 1).reshape(sh)
                nid = f"node{c}_{pos.get(c, 0)}"
                if withleg and call[1] is not None:
                    net.add_chain_node(t.copy(), c, parent_leg=call[1])
                else:
                    net.add_chain_node(t.copy(), c)
                inputs[nid] = t
                pos[c] = pos.get(c, 0) + 1
        else:
            net = ForkTreeTensorNetwork()
            nm, pos = 0, {}
            for call in case["calls"]:
                sh = call[-1]
                t = (np.arange(int(np.prod(sh)), dtype=float) + 1).reshape(sh)
                leg = call[-2] if withleg else None
                if call[0] == "m":
                    if leg is None:
                        net.add_main_chain_node(t.copy())
                    else:
                        net.add_main_chain_node(t.copy(), parent_leg=leg)
                    inputs[f"main{nm}"] = t
                    nm += 1
                else:
                    i = call[1]
                    if leg is None:
                        net.add_sub_chain_node(t.copy(), i)
                    else:
                        net.add_sub_chain_node(t.copy(), i, parent_leg=leg)
                    inputs[f"sub{i}_{pos.get(i, 0)}"] = t
                    pos[i] = pos.get(i, 0) + 1
    except Exception as e:  # noqa: BLE001
        err = e
    accepted = err is None
    ctx.count((case["kind"], json.dumps(case, sort_keys=True)), nontrivial=accepted, corr=True)
    ctx.tally(case["kind"], "accepted" if accepted else type(err).__name__)
    m = model_out[0] if model_out else None
    if m is None:
        return
    if not accepted:
        if m != "none":
            ctx.corr_fail(case, f"{case['kind']}: library raised {type(err).__name__}: {str(err)[:80]} but the model "
                                f"accepts: {m[:120]}")
        return
    if m == "none":
        ctx.corr_fail(case, f"{case['kind']}: library accepts {case} but the model rejects")
        return
    if star:
        _compare_structure(ctx, case, "star(any)", net, m,
                           lambda t: "center" if t == "C" else "node" + t.replace(".", "_"), inputs)
    else:
        _compare_structure(ctx, case, "fork(any)", net, m, _fork_tok, inputs)
    probs = dense.well_formed(net)
    if probs:
        ctx.oracle_fail(case, f"{case['kind']}: accepted call sequence gives an ill-formed network: {probs[:3]}")


def _fork_parent_map(pm_prefix, ps_prefix, nmain, sublens):
    pm = {}
    for i in range(nmain):
        pm[f"{pm_prefix}{i}"] = None if i == 0 else f"{pm_prefix}{i - 1}"
        for j in range(sublens[i]):
            pm[f"{ps_prefix}{i}_{j}"] = f"{pm_prefix}{i}" if j == 0 else f"{ps_prefix}{i}_{j - 1}"
    return pm


def _case_forkconst(ctx, case, _m):
    from pytreenet.special_ttn.fttn import constant_ftps
    w, h, bd, d = case["w"], case["h"], case["bd"], case["d"]
    mp, sp = case["prefixes"]
    nprng = np.random.default_rng(case["seed"])
    local = gen.rand_tensor(nprng, (d,))
    if case.get("real"):
        local = np.ascontiguousarray(local.real)
    style = case.get("args", "kw")
    ctx.count(("forkconst", w, h, bd, d), nontrivial=(bd > 1 or w > 2 or h > 2), corr=bool(_m))
    ctx.tally("fork_const_bond", bd)
    ctx.tally("forkconst_args", style + ("/real" if case.get("real") else ""))
    try:
        if style == "pos":
            f = constant_ftps(local.copy(), w, h, bd, mp, sp)
        elif style == "kwall":
            f = constant_ftps(subchain_identifier_prefix=sp, main_identifier_prefix=mp, bond_dim=bd, height=h,
                              width=w, local_state=local.copy())
        elif style == "default":
            kw = {}
            if bd != 1:
                kw["bond_dim"] = bd
            if mp != "main":
                kw["main_identifier_prefix"] = mp
            if sp != "sub":
                kw["subchain_identifier_prefix"] = sp
            f = constant_ftps(local.copy(), w, h, **kw)
        else:
            f = constant_ftps(local.copy(), w, h, bond_dim=bd, main_identifier_prefix=mp,
                              subchain_identifier_prefix=sp)
    except Exception as e:  # noqa: BLE001
        ctx.oracle_fail(case, f"constant_ftps(width={w}, height={h}, bond_dim={bd}, d={d}) raised "
                              f"{type(e).__name__}: {str(e)[:160]}")
        return
    # the code builds a width x height grid: `height` main nodes, each row `width` nodes long (see notes/C19.md:
    # the Args text of the docstring swaps the two words; the property speaks of "w x h nodes")
    if _m:
        _compare_structure(ctx, case, "constant_ftps", f, _m[0], lambda t: _fork_tok(t, mp, sp))
    pm = _fork_parent_map(mp, sp, h, [w - 1] * h)
    probs = list(dense.well_formed(f))
    p = _ids_problem(f, pm.keys()) or _parents_problem(f, pm)
    if p:
        probs.append(p)
    if not probs:
        order = sorted(pm.keys())
        for nid in order:
            nd, t = f.nodes[nid], f.tensors[nid]
            nv = (0 if nd.parent is None else 1) + len(nd.children)
            if t.ndim != nv + 1 or t.shape[-1] != d or any(s != bd for s in t.shape[:-1]):
                probs.append(f"{nid}: shape {t.shape}, expected {nv} bonds of dimension {bd} and one open leg {d}")
                break
        if not probs:
            vec = dense.ttns_vector(f, order)
            ref = np.array([1.0 + 0j])
            for _ in order:
                ref = np.kron(ref, local)
            if not _close(vec, ref):
                probs.append("contraction is not the product of the local state over all nodes")
    if probs:
        ctx.oracle_fail(case, f"constant_ftps(width={w}, height={h}, bond_dim={bd}, d={d}): " + "; ".join(probs[:4]))


def _fork_spec(case):
    """Specified tensors of a `fork` case: every node (parent?, neighbours in attachment order, open...).
    Returns (spec {id: (array, labels)}, {'creation': [ids in call order], 'shape': {id: shape}}, parent map)."""
    nmain, sublens, events = case["nmain"], case["sublens"], case["events"]
    mp, sp = _fork_names(case)
    nprng = np.random.default_rng(case["seed"])
    pm = _fork_parent_map(mp, sp, nmain, sublens)
    attach = {nid: [] for nid in pm}
    made, sub = 0, [0] * nmain
    creation = []
    for ev in events:
        if ev[0] == "m":
            nid = f"{mp}{made}"
            made += 1
        else:
            nid = f"{sp}{ev[1]}_{sub[ev[1]]}"
            sub[ev[1]] += 1
        creation.append(nid)
        if pm[nid] is not None:
            attach[pm[nid]].append(nid)
    bond = {nid: int(nprng.choice([1, 2, 2, 3])) for nid in pm if pm[nid] is not None}   # bond to the parent
    opens = {nid: _open_dims(nprng, case["cls"], 0) for nid in pm}
    total = 1
    for k in opens:
        for d in opens[k]:
            total *= d
    if total > 20000:
        opens = {k: [1 for _ in v] for k, v in opens.items()}
    spec, shape = {}, {}
    for nid in pm:
        sh = ([bond[nid]] if pm[nid] is not None else []) + [bond[c] for c in attach[nid]] + opens[nid]
        lab = ([("b", nid)] if pm[nid] is not None else []) + [("b", c) for c in attach[nid]] \
            + [("o", nid, k) for k in range(len(opens[nid]))]
        spec[nid] = (gen.rand_tensor(nprng, sh), lab)
        shape[nid] = list(sh)
    if case.get("legmode", "default") == "explicit":
        # tensors whose legs are NOT in the default order: the bonds to the next main node / the sub-chain head /
        # the next sub-chain node sit anywhere among the open legs (root: all legs shuffled; other nodes keep
        # leg 0 for their parent, which is the leg add_*_chain_node always offers)
        prng = np.random.default_rng(case["seed"] + 5)
        for nid in pm:
            t, lab = spec[nid]
            k0 = 0 if pm[nid] is None else 1
            if t.ndim - k0 >= 2:
                t, lab = _shuffle_legs(t, lab, list(range(k0)) + [k0 + int(x) for x in prng.permutation(t.ndim - k0)])
                spec[nid] = (t, lab)
                shape[nid] = list(t.shape)
    return spec, {"creation": creation, "shape": shape}, pm


def _fork_names(case):
    """(main prefix, sub prefix); `None` in the case = constructor called without arguments (defaults)."""
    p_ = case.get("prefixes")
    return (p_[0], p_[1]) if p_ else ("main", "sub")


def _fork_calls(case, spec, creation, pm):
    """[(event, node id, parent_leg or None, style)] - the leg is the position of the wanted bond among the
    parent's legs at the moment of the call (see `_attach_plan`)."""
    root = next(nid for nid in pm if pm[nid] is None)
    calls = [(tuple(ev), nid, pm[nid]) for ev, nid in zip(case["events"], creation) if pm[nid] is not None]
    mode = "all" if case.get("legmode", "default") == "explicit" else "default"
    plan = {nid: (leg, rank, style)
            for (_, nid, leg, rank, style) in _attach_plan(calls, spec, root, mode, random.Random(case["seed"] + 7))}
    return [(ev, nid) + ((plan[nid][0], plan[nid][2]) if nid in plan else (None, "kw"))
            for ev, nid in zip(case["events"], creation)]


def _fork_ranks(case, spec, creation, pm):
    root = next(nid for nid in pm if pm[nid] is None)
    calls = [(tuple(ev), nid, pm[nid]) for ev, nid in zip(case["events"], creation) if pm[nid] is not None]
    mode = "all" if case.get("legmode", "default") == "explicit" else "default"
    return {nid: rank for (_, nid, _, rank, _) in _attach_plan(calls, spec, root, mode,
                                                               random.Random(case["seed"] + 7))}


def _fork_tok(t, mp="main", sp="sub"):
    return (mp + t[1:]) if t[0] == "M" else (sp + t[1:].replace(".", "_"))


def _case_fork(ctx, case, model_out):
    from pytreenet.special_ttn.fttn import ForkTreeTensorNetwork, ForkTreeProductState, ForkTreeProductOperator
    cls = {"state": ForkTreeProductState, "operator": ForkTreeProductOperator,
           "network": ForkTreeTensorNetwork}[case["cls"]]
    nmain, sublens, events = case["nmain"], case["sublens"], case["events"]
    mp, sp = _fork_names(case)
    mode = case.get("legmode", "default")
    ctx.count(("fork", case["seed"], mode), nontrivial=True, corr=bool(model_out))
    ctx.tally("fork_main", nmain)
    ctx.tally("fork_legmode", mode)
    ctx.tally("fork_prefixes", "omitted (defaults)" if not case.get("prefixes") else "/".join(case["prefixes"]))
    spec, info, pm = _fork_spec(case)
    creation = info["creation"]
    calls = _fork_calls(case, spec, creation, pm)
    ranks = _fork_ranks(case, spec, creation, pm)
    try:
        if not case.get("prefixes"):
            f = cls()
        elif case.get("ctor") == "pos":
            f = cls(mp, sp)
        else:
            f = cls(main_identifier_prefix=mp, subchain_identifier_prefix=sp)
        for (ev, nid, leg, style) in calls:
            t = spec[nid][0].copy()
            if ev[0] == "m":
                if leg is None:
                    f.add_main_chain_node(t)
                elif style == "pos":
                    f.add_main_chain_node(t, leg)
                else:
                    f.add_main_chain_node(t, parent_leg=leg)
            else:
                if leg is None:
                    f.add_sub_chain_node(t, ev[1])
                elif style == "pos":
                    f.add_sub_chain_node(t, ev[1], leg)
                else:
                    f.add_sub_chain_node(tensor=t, subchain_index=ev[1], parent_leg=leg)
            if mode != "default" and nid in ranks:
                what = "main node" if ev[0] == "m" else ("sub-chain head" if nid.endswith("_0") else "later sub node")
                ctx.tally("fork_explicit_parent_leg", what + ": "
                          + ("omitted" if leg is None else ("default leg" if ranks[nid] == 0 else "other leg")))
    except Exception as e:  # noqa: BLE001
        if model_out and model_out[0] != "none":
            ctx.corr_fail(case, f"fork: library raised {type(e).__name__} but the model accepts the calls")
        ctx.oracle_fail(case, f"fork schedule {events} (legs={mode}, parent_leg={[x[2] for x in calls]}) raised "
                              f"{type(e).__name__}: {str(e)[:160]}")
        return
    if model_out:
        _compare_structure(ctx, case, "fork", f, model_out[0], lambda t: _fork_tok(t, mp, sp),
                           {k: v[0] for k, v in spec.items()})
    probs = list(dense.well_formed(f))
    p = _ids_problem(f, pm.keys()) or _parents_problem(f, pm)
    if p:
        probs.append(p)
    if not probs:
        ids = sorted(pm.keys())
        got, _ = dense.ttn_dense(f, ids)
        ref = _labelled_reference(spec, ids)
        if not _close(got, ref):
            probs.append("contraction differs from the network of the specified tensors")
    if not probs:
        # the documented bookkeeping of the class
        try:
            wm = [f"{mp}{i}" for i in range(nmain)]
            if f.main_length() != nmain or [nd.identifier for nd in f.main_chain] != wm or \
                    [f.main_chain_id(i) for i in range(nmain)] != wm:
                probs.append(f"main chain: main_length {f.main_length()}, nodes "
                             f"{[nd.identifier for nd in f.main_chain]}, expected {wm}")
            for i in range(nmain):
                ws = [f"{sp}{i}_{j}" for j in range(sublens[i])]
                if f.subchain_length(i) != sublens[i] or [nd.identifier for nd in f.sub_chains[i]] != ws or \
                        [f.subchain_id(i, j) for j in range(sublens[i])] != ws:
                    probs.append(f"sub-chain {i}: subchain_length {f.subchain_length(i)}, nodes "
                                 f"{[nd.identifier for nd in f.sub_chains[i]]}, expected {ws}")
        except Exception as e:  # noqa: BLE001
            probs.append(f"bookkeeping accessors raised {type(e).__name__}: {str(e)[:100]}")
    if probs:
        ctx.oracle_fail(case, f"fork from tensors (main={nmain}, sub={sublens}, events={events}, legs={mode}, "
                              f"parent_leg={[x[2] for x in calls]}): " + "; ".join(probs[:4]))


def _case_binary(ctx, case, _m):
    from pytreenet.special_ttn.binary import generate_binary_ttns
    nphys, bd, d = case["nphys"], case["bd"], case["d"]
    pp, vp = case["prefixes"]
    nprng = np.random.default_rng(case["seed"])
    phys = gen.rand_tensor(nprng, (bd, d))
    nop = case.get("phys_opens", 1)
    if nop == 2 and (2 * d) ** nphys > 40000:
        nop = 1
    if nop == 2:
        # a physical tensor with two open legs (bond, d, 2): the docstring only asks for "the tensor for the
        # physical sites"; its leg 0 is the bond
        phys = gen.rand_tensor(nprng, (bd, d, 2))
    style = case.get("args", "kw")
    ctx.count(("binary", nphys, bd, d, nop), nontrivial=(nphys > 2 or bd > 1), corr=bool(_m))
    ctx.tally("binary_nphys", nphys)
    ctx.tally("binary_args", f"{style}/open legs {nop}")
    try:
        if style == "pos":
            b = generate_binary_ttns(nphys, bd, phys.copy(), pp, vp)
        elif style == "kwall":
            b = generate_binary_ttns(virtual_prefix=vp, phys_prefix=pp, phys_tensor=phys.copy(), bond_dim=bd,
                                     num_phys=nphys)
        elif style == "default":
            kw = {}
            if pp != "site":
                kw["phys_prefix"] = pp
            if vp != "node":
                kw["virtual_prefix"] = vp
            b = generate_binary_ttns(nphys, bd, phys.copy(), **kw)
        else:
            b = generate_binary_ttns(nphys, bd, phys.copy(), phys_prefix=pp, virtual_prefix=vp)
    except Exception as e:  # noqa: BLE001
        ctx.oracle_fail(case, f"generate_binary_ttns(num_phys={nphys}, bond_dim={bd}, d={d}) raised "
                              f"{type(e).__name__}: {str(e)[:160]}")
        return
    if _m:
        _compare_structure(ctx, case, "generate_binary_ttns", b, _m[0],
                           lambda t: (vp + t[1:].replace(".", "_")) if t[0] == "V" else (pp + t[1:]))
    probs = list(dense.well_formed(b))
    phys_ids = [f"{pp}{i}" for i in range(nphys)]
    virt = [nid for nid in b.nodes if nid not in phys_ids]
    if not probs:
        if not all(p in b.nodes for p in phys_ids):
            probs.append(f"physical identifiers {sorted(set(b.nodes) - set(virt))} expected {phys_ids}")
        if len(b.nodes) != 2 * nphys - 1:
            probs.append(f"{len(b.nodes)} nodes, a binary tree with {nphys} leaves has {2 * nphys - 1}")
        for nid in virt:
            nd = b.nodes[nid]
            if not nid.startswith(vp) or len(nd.children) != 2:
                probs.append(f"virtual node {nid} has children {nd.children}")
                continue
            try:
                lvl, pos = (int(x) for x in nid[len(vp):].split("_"))
            except ValueError:
                probs.append(f"virtual identifier {nid} is not prefix+level_position")
                continue
            want_parent = None if lvl == 0 else f"{vp}{lvl - 1}_{pos // 2}"
            if (lvl == 0) != (nd.parent is None) or (lvl > 0 and nd.parent != want_parent):
                probs.append(f"virtual node {nid} has parent {nd.parent}, expected {want_parent}")
            t = b.tensors[nid]
            if t.shape[-1] != 1 or any(s != bd for s in t.shape[:-1]):
                probs.append(f"virtual node {nid} has shape {t.shape}")
        for nid in phys_ids:
            if nid in b.nodes and (b.nodes[nid].children or b.tensors[nid].shape != phys.shape):
                probs.append(f"physical node {nid}: children {b.nodes[nid].children}, shape {b.tensors[nid].shape}")
    if not probs:
        order = phys_ids + sorted(virt)
        vec = dense.ttns_vector(b, order)
        ref = np.array([1.0 + 0j])
        for _ in phys_ids:
            ref = np.kron(ref, phys[0].reshape(-1))
        if not _close(vec, ref):
            probs.append("contraction is not the product of the physical tensors' first bond slice")
    if probs:
        ctx.oracle_fail(case, f"generate_binary_ttns(num_phys={nphys}, bond_dim={bd}, d={d}): " + "; ".join(probs[:4]))


# =============================================================================== (c) TTNO.from_tensor

def _reference_tree(par, order, names):
    from pytreenet.core.tree_structure import TreeStructure
    from pytreenet.core.graph_node import GraphNode
    ts = TreeStructure()
    for x in order:
        g = GraphNode(identifier=names[x])
        if par[x] < 0:
            ts.add_root(g)
        else:
            ts.add_child_to_parent(g, names[par[x]])
    return ts


def _reference_ttn(par, order, names, state=True):
    """The same reference tree as a full network (TreeTensorNetworkState is a TreeStructure too): bonds of
    dimension 1, one open leg of dimension 2 per node, children attached in `order`."""
    from pytreenet.ttns import TreeTensorNetworkState
    from pytreenet.core.ttn import TreeTensorNetwork
    from pytreenet.core.node import Node
    nkids = {i: sum(1 for c in order if par[c] == i) for i in range(len(par))}
    net = TreeTensorNetworkState() if state else TreeTensorNetwork()
    for x in order:
        t = np.zeros([1] * ((0 if par[x] < 0 else 1) + nkids[x]) + [2], dtype=complex)
        t[..., 0] = 1
        if par[x] < 0:
            net.add_root(Node(identifier=names[x]), t)
        else:
            pn = net.nodes[names[par[x]]]
            net.add_child_to_parent(Node(identifier=names[x]), t, 0, names[par[x]],
                                    (0 if pn.parent is None else 1) + len(pn.children))
    return net


def _case_fromtensor(ctx, case, model_out):
    from pytreenet.ttno.ttno_class import TTNO, Decomposition
    par, order, dims, perm, mode = case["par"], case["order"], case["dims"], case["perm"], case["mode"]
    n = len(par)
    nprng = np.random.default_rng(case["seed"])
    names = {i: f"n{i}" for i in range(n)}
    ch = gen.children_of(par)
    maxkids = max(len([c for c in order if par[c] == i]) for i in range(n))
    ctx.count(("fromtensor", case["seed"], mode), nontrivial=(n > 1 and (perm != list(range(n)) or maxkids > 1)),
              corr=bool(model_out))
    ctx.tally("fromtensor_mode", mode)
    ctx.tally("fromtensor_shape", f"n{n}:maxkids{maxkids}")
    ctx.tally("fromtensor_op", case["op"])
    ldims = [0] * n
    for i in range(n):
        ldims[perm[i]] = dims[i]
    D = int(np.prod(ldims))
    kind = case["op"]
    if kind == "rand":
        T = gen.rand_tensor(nprng, ldims + ldims)
    elif kind == "int":
        T = gen.rand_tensor(nprng, ldims + ldims, small_int=True)
    elif kind == "zero":
        T = np.zeros(ldims + ldims, dtype=complex)
    else:
        k = 1 if kind == "prod" else 2
        M = sum(dense.kron_all([gen.rand_tensor(nprng, (d, d)) for d in ldims]) for _ in range(k))
        T = np.asarray(M).reshape(ldims + ldims)
    leg_dict = {names[i]: perm[i] for i in range(n)}
    if case.get("ld_shuffle"):
        # the dictionary's insertion order is no part of the contract
        items = list(leg_dict.items())
        random.Random(case["seed"] + 1).shuffle(items)
        leg_dict = dict(items)
    marg = case.get("mode_arg", "pos")
    ctx.tally("fromtensor_args", f"reference {case.get('ref', 'structure')}/mode {marg}"
              + ("/leg_dict shuffled" if case.get("ld_shuffle") else ""))
    try:
        ts = _reference_ttn(par, order, names) if case.get("ref") == "ttns" else _reference_tree(par, order, names)
        T_in = T.copy()
        if marg == "omit" and mode == "QR":
            ttno = TTNO.from_tensor(ts, T_in, dict(leg_dict))           # documented default: QR
        elif marg == "kw":
            ttno = TTNO.from_tensor(ts, T_in, dict(leg_dict), mode=Decomposition[mode])
        elif marg == "kwall":
            ttno = TTNO.from_tensor(mode=Decomposition[mode], leg_dict=dict(leg_dict), tensor=T_in,
                                    reference_tree=ts)
        else:
            ttno = TTNO.from_tensor(ts, T_in, dict(leg_dict), Decomposition[mode])
    except Exception as e:  # noqa: BLE001
        ctx.oracle_fail(case, f"TTNO.from_tensor(par={par}, dims={dims}, legs={perm}, mode={mode}, op={kind}) raised "
                              f"{type(e).__name__}: {str(e)[:160]}")
        return
    # ---- correspondence: transposition before splitting, final per-node legs
    if model_out:
        half = n
        new_ld = {names[i]: [perm[i], half + perm[i]] for i in range(n)}
        try:
            shp = TTNO._get_qr_decomposition_shape(ts, new_ld, [], ts.root_id)
            impl = ",".join(str(x) for x in shp)
        except Exception as e:  # noqa: BLE001
            impl = f"raised {type(e).__name__}"
        if impl != model_out[0]:
            ctx.corr_fail(case, f"from_tensor transposition: impl={impl} model={model_out[0]}")
        # model's final structure `id:parent:children:out,in;...` in dict order
        impl_nodes = ";".join(
            f"{nid[1:]}:{'-' if ttno.nodes[nid].parent is None else ttno.nodes[nid].parent[1:]}:"
            f"{','.join(c[1:] for c in ttno.nodes[nid].children)}" for nid in ttno.nodes)
        mod_nodes = ";".join(":".join(tok.split(":")[:3]) for tok in model_out[1].split(";")) \
            if model_out[1] not in ("bad-op", "none") else model_out[1]
        if impl_nodes != mod_nodes:
            ctx.corr_fail(case, f"from_tensor structure: impl={impl_nodes} model={model_out[1]}")
        else:
            for tok in model_out[1].split(";"):
                nid, mp, mch, legs = tok.split(":")
                legs = legs.split(",")
                virt = ([f"b{mp}.{nid}"] if mp != "-" else []) + [f"b{nid}.{c}" for c in mch.split(",") if c != ""]
                if legs[:-2] != virt or not all(x.isdigit() for x in legs[-2:]):
                    ctx.corr_fail(case, f"from_tensor: model legs {legs} of node {nid} are not (parent bond, "
                                        f"children bonds, out, in)")
                    break
                o, i_ = int(legs[-2]), int(legs[-1])
                if (o, i_) != (perm[int(nid)], half + perm[int(nid)]):
                    ctx.corr_fail(case, f"from_tensor: model assigns open legs {legs} to node {nid}")
                t = ttno.tensors["n" + nid]
                if t.shape[-2:] != (T.shape[o], T.shape[i_]):
                    ctx.corr_fail(case, f"from_tensor: node {nid} open dims {t.shape[-2:]} but model legs {legs} "
                                        f"have dims {(T.shape[o], T.shape[i_])}")
    # ---- oracle
    probs = list(dense.well_formed(ttno))
    if not probs:
        if ttno.root_id != ts.root_id:
            probs.append(f"root {ttno.root_id} != reference root {ts.root_id}")
        for nid in ts.nodes:
            if nid not in ttno.nodes:
                probs.append(f"node {nid} missing")
            elif ttno.nodes[nid].parent != ts.nodes[nid].parent or \
                    sorted(ttno.nodes[nid].children) != sorted(ts.nodes[nid].children):
                probs.append(f"node {nid}: parent/children {ttno.nodes[nid].parent}/{ttno.nodes[nid].children} "
                             f"differ from the reference tree")
        if set(ttno.nodes) != set(ts.nodes):
            probs.append(f"identifiers {sorted(ttno.nodes)} != reference {sorted(ts.nodes)}")
    if not probs:
        for nid in ttno.nodes:
            if ttno.nodes[nid].nopen_legs() != 2:
                probs.append(f"node {nid} has {ttno.nodes[nid].nopen_legs()} open legs")
    if not probs:
        ids = sorted(leg_dict, key=lambda k: leg_dict[k])
        M = dense.ttno_matrix(ttno, ids)
        ref = T.reshape(D, D)
        # truncated mode discards singular values below 1e-10 * sigma_max: scale by the operator norm there
        scale = max(1.0, float(np.abs(ref).max()) if ref.size else 1.0)
        if mode == "tSVD":
            scale = max(scale, float(np.linalg.norm(ref)))
        if not _close(M, ref, scale=scale):
            probs.append(f"contraction differs from the input operator by {np.abs(M - ref).max():.3g}")
        ctx.hyp_validated += 1
    if not np.array_equal(T_in, T):
        probs.append("the input tensor was modified")
    if probs:
        ctx.oracle_fail(case, f"TTNO.from_tensor(par={par}, order={order}, dims={dims}, legs={perm}, mode={mode}, "
                              f"op={kind}): " + "; ".join(probs[:4]))


# =============================================================================== (d) model builders

PAULI = {"X": np.array([[0, 1], [1, 0]], dtype=complex), "Z": np.array([[1, 0], [0, -1]], dtype=complex)}


def ham_dense(ham, order, dims):
    """Dense value of a symbolic Hamiltonian: sum_t fraction * mapping[symbol] * kron(operators), evaluated
    here (never through Hamiltonian.to_matrix)."""
    D = int(np.prod(dims)) if len(dims) else 1
    tot = np.zeros((D, D), dtype=complex)
    for frac, sym, tp in ham.terms:
        coeff = (Fraction(frac).numerator / Fraction(frac).denominator) * complex(ham.coeffs_mapping[sym])
        ops = {}
        for site, op in dict(tp).items():
            if site not in order:
                raise KeyError(f"term acts on unknown site {site}")
            ops[site] = np.asarray(ham.conversion_dictionary[op]) if isinstance(op, str) else np.asarray(op)
        tot = tot + coeff * dense.embed_ops(ops, order, dims)
    return tot


def ising_reference(order, edges, J, g, A, B):
    """-J sum_<ij> A_i A_j - g sum_i B_i from an adjacency list (pairs of identifiers)."""
    dims = [A.shape[0]] * len(order)
    D = int(np.prod(dims)) if order else 1
    tot = np.zeros((D, D), dtype=complex)
    for (a, b) in edges:
        tot = tot - J * dense.embed_ops({a: A, b: A}, order, dims)
    for s in order:
        tot = tot - g * dense.embed_ops({s: B}, order, dims)
    return tot


def _term_strings(ham, index_of, nn_name, ext_name):
    out = []
    for frac, sym, tp in ham.terms:
        s = {"ext_magn": "g", "coupling": "J"}.get(sym, sym)
        ops = "-".join(f"{index_of[site]}{'A' if op == nn_name else ('B' if op == ext_name else '?')}"
                       for site, op in dict(tp).items())
        out.append(f"{Fraction(frac)},{s},{ops}")
    return out


def _canon_terms(terms):
    """Canonical form of a term list `coeff,symbol,siteOp-siteOp`: the property fixes WHICH terms exist (one field
    term per node, one coupling term per edge), not their position in the list nor the order of the two factors
    inside a coupling term.  Sorted multiset (multiplicities kept) of terms with sorted factors."""
    out = []
    for t in terms:
        coeff, sym, ops = t.split(",", 2)
        out.append((coeff, sym, tuple(sorted(ops.split("-")))))
    return sorted(out)


def _case_gridpairs(ctx, case, model_out):
    from pytreenet.operators.models import _find_nn_pairs, _grid_from_structure
    rows, cols = case["rows"], case["cols"]
    ctx.count(("gridpairs", rows, cols), nontrivial=(rows > 1 and cols > 1), corr=True)
    ctx.tally("grid_size", f"{min(rows, 4)}+x{min(cols, 4)}+")
    try:
        pairs = _find_nn_pairs(_grid_from_structure("q", rows, cols))
    except Exception as e:  # noqa: BLE001
        ctx.oracle_fail(case, f"_find_nn_pairs on a {rows}x{cols} grid raised {type(e).__name__}: {str(e)[:120]}")
        return
    _check_pairs(ctx, case, pairs, "q", rows, cols, model_out[0] if model_out else None)


def _check_pairs(ctx, case, pairs, prefix, rows, cols, model_line):
    impl = ",".join(f"{a[len(prefix):]}-{b[len(prefix):]}" for a, b in pairs)
    def canon(line):
        # the property fixes WHICH pairs are listed (each adjacent pair once), not their order in the list nor the
        # orientation inside a pair: both sides are compared as sorted lists of sorted pairs (multiplicity kept)
        return sorted(tuple(sorted(t.split("-"))) for t in line.split(",") if t)
    if model_line is not None and canon(impl) != canon(model_line):
        ctx.corr_fail(case, f"grid {rows}x{cols}: pair list impl={impl[:200]} model={model_line[:200]}")
    # oracle: every adjacent pair exactly once (as an unordered pair), nothing else
    want = set()
    for i in range(rows):
        for j in range(cols):
            for (k, l) in ((i + 1, j), (i, j + 1)):
                if k < rows and l < cols:
                    want.add(frozenset([f"{prefix}{i}_{j}", f"{prefix}{k}_{l}"]))
    got = [frozenset(p) for p in pairs]
    probs = []
    if len(got) != len(set(got)):
        probs.append("a neighbour pair occurs twice")
    if set(got) != want:
        miss = [sorted(x) for x in want - set(got)][:3]
        extra = [sorted(x) for x in set(got) - want][:3]
        probs.append(f"missing pairs {miss}, extra pairs {extra}")
    if probs:
        ctx.oracle_fail(case, f"nearest-neighbour pairs of a {rows}x{cols} grid: " + "; ".join(probs))


def _case_model(ctx, case, model_out):
    from pytreenet.operators import models
    shape, flipped, J, g = case["shape"], case["flipped"], case["J"], case["g"]
    nn_name, ext_name = ("Z", "X") if flipped else ("X", "Z")
    A, B = PAULI[nn_name], PAULI[ext_name]
    rng = random.Random(case["seed"])
    model_out = model_out or []
    triv = (J in (0.0, 1.0) and g in (0.0, 1.0))
    ctx.tally("model_shape", shape + ("/flipped" if flipped else ""))
    # ---- build the argument and the independent adjacency
    nm = case.get("names", "s")
    as_net = case.get("ref") == "ttns"
    if shape in ("tree", "pairs"):
        par, order = case["par"], case["order"]
        n = len(par)
        names = {i: f"{nm}{i}" for i in range(n)}
        sites = [names[i] for i in range(n)]
        edges = [(names[p], names[i]) for i, p in enumerate(par) if p >= 0]
        if shape == "tree":
            arg = _reference_ttn(par, order, names) if as_net else _reference_tree(par, order, names)
        else:
            arg = [(a, b) if rng.random() < 0.5 else (b, a) for (a, b) in edges]
            rng.shuffle(arg)
        key = (shape, tuple(par), tuple(order))
        nontriv = n > 2 and not triv
    elif shape == "chain":
        n = case["n"]
        names = {i: f"{nm}{i}" for i in range(n)}
        sites = [names[i] for i in range(n)]
        edges = [(names[i], names[i + 1]) for i in range(n - 1)]
        par = gen.reroot([-1] + list(range(n - 1)), case["root"])
        arg = (_reference_ttn if as_net else _reference_tree)(par, _chain_order(n, case["root"]), names)
        key = (shape, n, case["root"])
        nontriv = n > 2 and not triv
    else:
        rows, cols, prefix = case["rows"], case["cols"], case["prefix"]
        cell = {(i, j): f"{prefix}{i}_{j}" for i in range(rows) for j in range(cols)}
        if shape == "gridarr" and case.get("gridnames") == "arbitrary":
            # an identifier array need not follow the prefix pattern: arbitrary distinct names
            nums = list(range(rows * cols))
            random.Random(case["seed"] + 3).shuffle(nums)
            cell = {(i, j): f"v{nums[i * cols + j]}" for i in range(rows) for j in range(cols)}
        sites = [cell[(i, j)] for i in range(rows) for j in range(cols)]
        edges = []
        for i in range(rows):
            for j in range(cols):
                if i + 1 < rows:
                    edges.append((cell[(i, j)], cell[(i + 1, j)]))
                if j + 1 < cols:
                    edges.append((cell[(i, j)], cell[(i, j + 1)]))
        if shape == "grid":
            arg = (prefix, rows, cols)
        else:
            arg = np.zeros((rows, cols), dtype=object)
            for i in range(rows):
                for j in range(cols):
                    arg[i, j] = cell[(i, j)]
        key = (shape, rows, cols)
        nontriv = rows > 1 and cols > 1 and not triv
    ctx.count(("model",) + key + (flipped, J, g), nontrivial=nontriv, corr=bool(model_out))
    ctx.sample(case, 4)
    grid = shape in ("grid", "gridarr")
    try:
        if grid:
            fn = models.flipped_ising_model_2D if flipped else models.ising_model_2D
        else:
            fn = models.flipped_ising_model if flipped else models.ising_model
        call = case.get("call", "pos")
        ctx.tally("model_call", call + ("/network as reference" if as_net else "")
                  + ("/arbitrary identifiers" if case.get("gridnames") == "arbitrary" else ""))
        if call == "default":
            assert J == 1.0
            ham = fn(arg, g)                        # third argument omitted: documented default 1.0
        elif call == "kw" and grid:
            ham = fn(coupling=J, ext_magn=g, grid=arg)
        elif call == "kw":
            ham = fn(factor=J, ext_magn=g, ref_tree=arg)
        else:
            ham = fn(arg, g, J)
    except Exception as e:  # noqa: BLE001
        ctx.oracle_fail(case, f"{'flipped ' if flipped else ''}Ising builder ({shape}) raised {type(e).__name__}: "
                              f"{str(e)[:160]}")
        return
    # ---- correspondence
    if grid:
        idx = {cell[(i, j)]: f"{i}_{j}" for i in range(rows) for j in range(cols)}
    else:
        idx = {s: s[len(nm):] for s in sites}
    try:
        impl_terms = _term_strings(ham, idx, nn_name, ext_name)
    except KeyError as e:
        impl_terms = None
        ctx.oracle_fail(case, f"Ising builder ({shape}): a term acts on the unknown site {e}")
        return
    if grid and model_out:
        try:
            pairs = models._find_nn_pairs(models._grid_from_structure(case["prefix"], rows, cols))
            _check_pairs(ctx, case, pairs, case["prefix"], rows, cols, model_out[0])
        except Exception as e:  # noqa: BLE001
            ctx.oracle_fail(case, f"_find_nn_pairs raised {type(e).__name__}")
        mod = model_out[1].split(";") if model_out[1] else []
        # neither the order of the terms in the list, nor of the neighbour pairs, nor of the two factors of a
        # coupling term is part of the property (and the single-site part comes from a Python set): multisets
        if _canon_terms(mod) != _canon_terms(impl_terms):
            ctx.corr_fail(case, f"2-D Ising terms {rows}x{cols}: impl={impl_terms} model={mod}")
    elif shape in ("tree", "chain") and model_out:
        mod = model_out[0].split(";") if model_out[0] else []
        if _canon_terms(mod) != _canon_terms(impl_terms):
            ctx.corr_fail(case, f"Ising terms ({shape}): impl={impl_terms} model={mod}")
    # ---- oracle
    order = sorted(sites)
    dims = [2] * len(order)
    try:
        got = ham_dense(ham, order, dims)
    except Exception as e:  # noqa: BLE001
        ctx.oracle_fail(case, f"Ising builder ({shape}): symbolic Hamiltonian cannot be evaluated: "
                              f"{type(e).__name__}: {str(e)[:120]}")
        return
    ref = ising_reference(order, edges, J, g, A, B)
    scale = max(1.0, abs(J), abs(g))
    if not _close(got, ref, scale=scale):
        finding = None          # (F-C19a - 1x1 grid without its field term - was repaired in b96dc53: a violation again)
        ctx.oracle_fail(case, f"{'flipped ' if flipped else ''}Ising builder on {shape} "
                              f"{key[1:]} with J={J!r}, g={g!r}: operator differs from -J sum A_i A_j - g sum B_i "
                              f"by {np.abs(got - ref).max():.3g} ({len(ham.terms)} terms)", finding=finding)
        return
    for name, mat in (("X", PAULI["X"]), ("Z", PAULI["Z"])):
        if name in ham.conversion_dictionary and not np.array_equal(ham.conversion_dictionary[name], mat):
            ctx.oracle_fail(case, f"conversion dictionary entry {name} is not the Pauli matrix")
    # exact dense counterpart on chains
    if shape == "chain":
        from pytreenet.operators.exact_operators import exact_ising_hamiltonian, flipped_exact_ising_hamiltonian
        try:
            ex = (flipped_exact_ising_hamiltonian if flipped else exact_ising_hamiltonian)(J, g, case["n"])
            if not _close(ex, ref, scale=scale):
                ctx.oracle_fail(case, f"exact {'flipped ' if flipped else ''}Ising chain n={case['n']} J={J!r} g={g!r} "
                                      f"differs from -J sum A_i A_(i+1) - g sum B_i by {np.abs(ex - ref).max():.3g}")
        except Exception as e:  # noqa: BLE001
            ctx.oracle_fail(case, f"exact Ising chain n={case['n']} raised {type(e).__name__}: {str(e)[:120]}")


def _case_nnham(ctx, case, _m):
    """create_nearest_neighbour_hamiltonian / create_single_site_hamiltonian / single_site_operators."""
    from pytreenet.operators.sim_operators import (create_nearest_neighbour_hamiltonian,
                                                   create_single_site_hamiltonian, single_site_operators)
    par, order, d = case["par"], case["order"], case["d"]
    n = len(par)
    nprng = np.random.default_rng(case["seed"])
    rng = random.Random(case["seed"])
    names = {i: f"s{i}" for i in range(n)}
    sites = sorted(names.values())
    dims = [d] * n
    opA, opB = gen.rand_tensor(nprng, (d, d)), gen.rand_tensor(nprng, (d, d))
    factor = None if case["factor"] is None else (Fraction(*case["factor"]), "c")
    value = case["value"]
    fval = 1.0 if factor is None else float(factor[0]) * value
    mapping = None if factor is None else {"c": value}
    ctx.count(("nnham", case["seed"]), nontrivial=(factor is not None and n > 1))
    ctx.tally("nnham", ("single" if case["single"] else "nn") + ":" + case["structure"])
    tree = _reference_tree(par, order, names)
    dict_order = [names[x] for x in order]
    if case["symbolic"]:
        a_arg, b_arg, conv = "A", "B", {"A": opA, "B": opB}
    else:
        a_arg, b_arg, conv = opA, opB, None
    try:
        if case["single"]:
            struct = tree if case["structure"] == "tree" else list(dict_order)
            ham = create_single_site_hamiltonian(struct, a_arg, factor=factor, conversion_dict=conv,
                                                 coeffs_mapping=mapping)
            ref = sum((fval * dense.embed_ops({s: opA}, sites, dims) for s in sites),
                      np.zeros((d ** n, d ** n), dtype=complex))
            what = "single-site sum"
            # the dictionary form
            ops = single_site_operators(a_arg, struct, factor=factor)
            if factor is not None and factor[0] == 0:
                if ops != {}:
                    ctx.oracle_fail(case, "single_site_operators with zero factor is not empty")
            elif list(ops.keys()) != dict_order:
                ctx.oracle_fail(case, f"single_site_operators keys {list(ops.keys())} expected {dict_order}")
            else:
                for s, (fr, sym, tp) in ops.items():
                    bad_tp = (dict(tp) != {s: a_arg}) if isinstance(a_arg, str) else (list(dict(tp).keys()) != [s])
                    if bad_tp:
                        ctx.oracle_fail(case, f"single_site_operators[{s}] acts on {dict(tp)}")
                        break
                    exp = (Fraction(1), "1") if factor is None else factor
                    if (fr, sym) != exp:
                        ctx.oracle_fail(case, f"single_site_operators[{s}] has factor {(fr, sym)} expected {exp}")
                        break
            var = case.get("ssvar")
            if var:
                # the remaining documented arguments: a factor PER SITE (same order as the identifiers),
                # operator_names (keys of the result), with_factor=False (bare tensor products)
                ctx.tally("single_site_operators_variant", var)
                kw, keys = {}, list(dict_order)
                facs = [(Fraction(1), "1")] * n
                if var == "factorlist":
                    facs = [(Fraction(k_ + 1, 2), f"c{k_}") for k_ in range(n)]
                    kw["factor"] = list(facs)
                if "names" in var:
                    keys = [f"op{k_}" for k_ in range(n)]
                    kw["operator_names"] = list(keys)
                if "nofactor" in var:
                    kw["with_factor"] = False
                ops2 = single_site_operators(a_arg, struct, **kw)
                if list(ops2.keys()) != keys:
                    ctx.oracle_fail(case, f"single_site_operators({var}) keys {list(ops2.keys())} expected {keys}")
                else:
                    for k_, key_ in enumerate(keys):
                        val = ops2[key_]
                        tp = val if "nofactor" in var else val[2]
                        site = dict_order[k_]
                        ok = list(dict(tp).keys()) == [site] and (
                            dict(tp)[site] == a_arg if isinstance(a_arg, str)
                            else np.array_equal(dict(tp)[site], opA))
                        if "nofactor" not in var:
                            ok = ok and isinstance(val, tuple) and (val[0], val[1]) == facs[k_]
                        elif isinstance(val, tuple):
                            ok = False
                        if not ok:
                            ctx.oracle_fail(case, f"single_site_operators({var})[{key_}] = {val!r:.120}, expected "
                                                  f"{'' if 'nofactor' in var else str(facs[k_]) + ' x '}the operator "
                                                  f"on site {site}")
                            break
        else:
            edges = [(names[p], names[i]) for i, p in enumerate(par) if p >= 0]
            if case["structure"] == "tree":
                struct = tree
                oriented = edges                      # documented: first element parent, second child
            else:
                oriented = [(a, b) if rng.random() < 0.5 else (b, a) for (a, b) in edges]
                rng.shuffle(oriented)
                struct = list(oriented)
            two = case["two_ops"]
            ham = create_nearest_neighbour_hamiltonian(struct, a_arg, factor=factor,
                                                       local_operator2=(b_arg if two else None),
                                                       conversion_dict=conv, coeffs_mapping=mapping)
            ref = np.zeros((d ** n, d ** n), dtype=complex)
            for (i_, j_) in oriented:
                ref = ref + fval * dense.embed_ops({i_: opA, j_: (opB if two else opA)}, sites, dims)
            what = "nearest-neighbour sum"
        got = ham_dense(ham, sites, dims)
    except Exception as e:  # noqa: BLE001
        ctx.oracle_fail(case, f"nn/single-site builder raised {type(e).__name__}: {str(e)[:160]}")
        return
    if not _close(got, ref):
        ctx.oracle_fail(case, f"{what} ({case['structure']}, factor={case['factor']}, value={value!r}, par={par}): "
                              f"differs from the documented sum by {np.abs(got - ref).max():.3g}")


def _case_exact(ctx, case, _m):
    from pytreenet.operators import exact_operators as eo
    n, J, g, flipped, d = case["n"], case["J"], case["g"], case["flipped"], case["d"]
    nprng = np.random.default_rng(case["seed"])
    ctx.count(("exact", n, J, g, flipped), nontrivial=(n > 2))
    ctx.tally("exact_n", n)
    A, B = (PAULI["Z"], PAULI["X"]) if flipped else (PAULI["X"], PAULI["Z"])
    sites = [f"s{i}" for i in range(n)]
    probs = []
    try:
        efn = eo.flipped_exact_ising_hamiltonian if flipped else eo.exact_ising_hamiltonian
        ctx.tally("exact_call", case.get("call", "pos"))
        ex = efn(num_sites=n, g=g, coupling_strength=J) if case.get("call") == "kw" else efn(J, g, n)
        ref = ising_reference(sites, [(sites[i], sites[i + 1]) for i in range(n - 1)], J, g, A, B)
        if not _close(ex, ref, scale=max(1.0, abs(J), abs(g))):
            probs.append(f"exact Ising chain differs from -J sum A_i A_(i+1) - g sum B_i by {np.abs(ex - ref).max():.3g}")
        if d ** n <= 3000:
            op = gen.rand_tensor(nprng, (d, d))
            k = int(nprng.integers(0, n))
            single = eo.exact_single_site_operator(op, k, n)
            if not _close(single, dense.embed_ops({sites[k]: op}, sites, [d] * n)):
                probs.append(f"exact_single_site_operator(site {k} of {n}) is not 1 x .. x O x .. x 1")
            loc = eo.exact_local_operators(list(sites), op)
            if list(loc.keys()) != sites:
                probs.append("exact_local_operators keys")
            else:
                for i, s in enumerate(sites):
                    if not _close(loc[s], dense.embed_ops({s: op}, sites, [d] * n)):
                        probs.append(f"exact_local_operators[{s}] wrong")
                        break
        if 2 ** n <= 3000:
            mag = eo.exact_local_magnetisation(list(sites))
            for s in sites:
                if not _close(mag[s], dense.embed_ops({s: PAULI["Z"]}, sites, [2] * n)):
                    probs.append(f"exact_local_magnetisation[{s}] wrong")
                    break
    except Exception as e:  # noqa: BLE001
        probs.append(f"raised {type(e).__name__}: {str(e)[:120]}")
    if probs:
        ctx.oracle_fail(case, f"exact builders (n={n}, J={J!r}, g={g!r}, flipped={flipped}): " + "; ".join(probs[:3]))


def _case_magn(ctx, case, _m):
    """models.local_magnetisation(structure, with_factor) and models.total_magnetisation(list of arrays)."""
    from pytreenet.operators.models import local_magnetisation, total_magnetisation
    par, order, nm = case["par"], case["order"], case["names"]
    n = len(par)
    names = {i: f"{nm}{i}" for i in range(n)}
    ids = [names[x] for x in order]
    rng = random.Random(case["seed"])
    nprng = np.random.default_rng(case["seed"])
    wf = case["with_factor"]
    ctx.count(("magn", case["seed"]), nontrivial=(n > 1))
    ctx.tally("magnetisation", f"{case['structure']}/with_factor={'omitted' if wf is None else wf}")
    if case["structure"] == "tree":
        struct = _reference_tree(par, order, names)
    elif case["structure"] == "ttns":
        struct = _reference_ttn(par, order, names)
    else:
        ids = list(ids)
        rng.shuffle(ids)
        struct = list(ids)
    probs = []
    try:
        res = local_magnetisation(struct) if wf is None else \
            (local_magnetisation(struct, wf) if rng.random() < 0.5 else local_magnetisation(struct, with_factor=wf))
        if set(res.keys()) != set(ids) or len(res) != n:
            probs.append(f"local_magnetisation keys {list(res.keys())} expected {ids}")
        else:
            for s in ids:
                val = res[s]
                tp = val if wf is False else (val[2] if isinstance(val, tuple) and len(val) == 3 else None)
                if tp is None or isinstance(tp, tuple) or list(dict(tp).keys()) != [s] or \
                        not np.array_equal(np.asarray(dict(tp)[s]), PAULI["Z"]):
                    probs.append(f"local_magnetisation[{s}] is not Z on site {s}")
                    break
                if wf is not False and (val[0], val[1]) != (Fraction(1), "1"):
                    probs.append(f"local_magnetisation[{s}] has factor {(val[0], val[1])}, documented: 1")
                    break
        T, sc = case["T"], case["scale"]
        arrs = []
        for _ in range(n):
            a = nprng.normal(size=T) * sc
            arrs.append(a + 1j * nprng.normal(size=T) * sc if case["complex"] else a)
        given = [a.copy() for a in arrs]
        tot = total_magnetisation(given)
        ref = [sum(arrs[i][t] for i in range(n)) / n for t in range(T)]
        tot = np.asarray(tot)
        if tot.shape != (T,) or not bool(np.abs(tot - np.asarray(ref)).max() <= TOL * max(abs(x) for a in arrs
                                                                                               for x in a)):
            probs.append(f"total_magnetisation differs from (1/L) sum_i m_i (L={n}, T={T}, scale={sc})")
        if any(not np.array_equal(a, b) for a, b in zip(given, arrs)):
            probs.append("total_magnetisation modified its input")
        try:
            total_magnetisation([])
            probs.append("total_magnetisation([]) did not raise the documented ValueError")
        except ValueError:
            pass
    except Exception as e:  # noqa: BLE001
        probs.append(f"raised {type(e).__name__}: {str(e)[:120]}")
    if probs:
        ctx.oracle_fail(case, f"magnetisation helpers ({case['structure']}, n={n}, with_factor={wf}): "
                        + "; ".join(probs[:3]))


# =============================================================================== shrinking

def shrink(case):
    k = case["kind"]
    if k == "mps":
        n, r = case["n"], case["r"]
        if any(case["pad"]):
            yield dict(case, pad=[0] * (n - 1))
        if n > 2:
            # drop the last site (keep root) or the first site (shift root)
            if r < n - 1:
                yield dict(case, n=n - 1, opens=case["opens"][:-1], bonds=case["bonds"][:-1], pad=case["pad"][:-1],
                           padpos=case["padpos"][:-1])
            if r > 0:
                yield dict(case, n=n - 1, r=r - 1, opens=case["opens"][1:], bonds=case["bonds"][1:],
                           pad=case["pad"][1:], padpos=case["padpos"][1:])
        if any(b > 1 for b in case["bonds"]):
            yield dict(case, bonds=[1] * (n - 1))
        if case["cls"] != "mps":
            yield dict(case, cls="mps", opens=[[2] for _ in range(n)])
    elif k == "mpsdirect":
        n, r, order = case["n"], case["r"], case["order"]
        if n > 2:
            # drop the site attached last
            if order[-1] == "R":
                yield dict(case, n=n - 1, opens=case["opens"][:-1], bonds=case["bonds"][:-1], pad=case["pad"][:-1],
                           padpos=case["padpos"][:-1], order=order[:-1])
            elif r > 0:
                yield dict(case, n=n - 1, r=r - 1, opens=case["opens"][1:], bonds=case["bonds"][1:],
                           pad=case["pad"][1:], padpos=case["padpos"][1:], order=order[:-1])
        if any(b > 1 for b in case["bonds"]):
            yield dict(case, bonds=[1] * (n - 1))
        if case["cls"] != "mps":
            yield dict(case, cls="mps", opens=[[2] for _ in range(n)])
    elif k == "star":
        lens, sched = list(case["lens"]), list(case["sched"])
        if len(sched) > 1:
            c = sched[-1]
            if lens[c] > 1 or c == len(lens) - 1:
                lens[c] -= 1
                if lens[c] == 0:
                    lens.pop()
                yield dict(case, lens=lens, sched=sched[:-1])
        if case["cls"] != "state":
            yield dict(case, cls="state")
    elif k == "fork":
        events, sublens, nmain = [list(e) for e in case["events"]], list(case["sublens"]), case["nmain"]
        if len(events) > 1:
            ev = events[-1]
            if ev[0] == "m":
                yield dict(case, nmain=nmain - 1, sublens=sublens[:-1], events=events[:-1])
            else:
                sublens[ev[1]] -= 1
                yield dict(case, sublens=sublens, events=events[:-1])
        if case["cls"] != "state":
            yield dict(case, cls="state")
    elif k in ("staranyl", "forkanyl", "starany", "forkany"):
        if len(case["calls"]) > 1:
            yield dict(case, calls=case["calls"][:-1])
    elif k == "magn":
        n = len(case["par"])
        if n > 1:
            yield dict(case, par=case["par"][:-1], order=[x for x in case["order"] if x != n - 1])
    elif k == "mpsconst":
        if case["n"] > 2:
            yield dict(case, n=case["n"] - 1, r=min(case["r"], case["n"] - 2),
                       bonds=None if case["bonds"] is None else case["bonds"][:-1])
        if case["bonds"] is not None:
            yield dict(case, bonds=None)
    elif k == "starconst":
        if case["C"] > 1:
            yield dict(case, C=case["C"] - 1)
        if case["L"] > 1:
            yield dict(case, L=case["L"] - 1)
    elif k == "forkconst":
        if case["w"] > 2:
            yield dict(case, w=case["w"] - 1)
        if case["h"] > 2:
            yield dict(case, h=case["h"] - 1)
        if case["bd"] > 1:
            yield dict(case, bd=case["bd"] - 1)
    elif k == "binary":
        if case["nphys"] > 2:
            yield dict(case, nphys=case["nphys"] - 1)
        if case["bd"] > 1:
            yield dict(case, bd=1)
    elif k == "fromtensor":
        par = case["par"]
        n = len(par)
        if case["op"] != "int":
            yield dict(case, op="int")
        if any(d > 2 for d in case["dims"]):
            yield dict(case, dims=[min(d, 2) for d in case["dims"]])
        if n > 1:
            # remove the last leaf (highest index is always a leaf: parent[i] < i)
            leaf = n - 1
            perm = [p for i, p in enumerate(case["perm"]) if i != leaf]
            rank = sorted(perm)
            perm = [rank.index(p) for p in perm]
            yield dict(case, par=par[:-1], order=[x for x in case["order"] if x != leaf],
                       dims=case["dims"][:-1], perm=perm)
        if case["perm"] != list(range(n)):
            yield dict(case, perm=list(range(n)))
    elif k == "model":
        if case["shape"] in ("grid", "gridarr"):
            if case["rows"] > 1:
                yield dict(case, rows=case["rows"] - 1)
            if case["cols"] > 1:
                yield dict(case, cols=case["cols"] - 1)
        elif case["shape"] == "chain":
            if case["n"] > 1:
                yield dict(case, n=case["n"] - 1, root=min(case["root"], case["n"] - 2))
        else:
            n = len(case["par"])
            if n > (1 if case["shape"] == "tree" else 2):
                yield dict(case, par=case["par"][:-1], order=[x for x in case["order"] if x != n - 1])
        for key in ("J", "g"):
            if case[key] not in (0.0, 1.0):
                yield dict(case, **{key: 1.0})
                yield dict(case, **{key: 0.0})
    elif k == "gridpairs":
        if case["rows"] > 1:
            yield dict(case, rows=case["rows"] - 1)
        if case["cols"] > 1:
            yield dict(case, cols=case["cols"] - 1)
    elif k == "nnham":
        n = len(case["par"])
        if n > 1:
            yield dict(case, par=case["par"][:-1], order=[x for x in case["order"] if x != n - 1])
    elif k == "exact":
        if case["n"] > 1:
            yield dict(case, n=case["n"] - 1)
