"""C01 - Hamiltonian -> TTNO conversion is exact for every tree, term set and method.

Stage B (correspondence with the Lean model Ptn.C01): the model ports identity padding,
`SingleTermDiagram.from_single_term` and the uncompressed sum (`StateDiagram.from_hamiltonian_base`)
and returns (a) the diagram it builds, (b) its denotation `sdDenote` as a canonical formal sum.  The
harness compares (a) with the library's BASE diagram (uuid identifiers renamed in order of
appearance) and (b) with the formal sum read off the library's diagram by an independent
enumeration of consistent hyperedge choices.

Stage C (oracle): for every method
  * exact, symbol-level: formal sum of the library's state diagram == the Hamiltonian's own terms
    after identity padding (equal label assignments and symbols merged, Fractions added);
  * numeric: dense sum_k c_k (x)_sites A_k (kron over sorted node ids) == dense contraction of the
    TTNO (harness.dense, never a library contraction), relative 1e-9;
  * structure: identifiers, parent/child relations of the reference tree; physical dimensions from
    the operator table; `as_matrix()` agrees with the dense contraction in its own returned order.
"""
from __future__ import annotations

import json
import os
import random
from fractions import Fraction
from typing import Any, Dict, List, Optional, Tuple

import numpy as np

from harness import gen, dense
from harness import common

RULE = ("cases: random rooted trees (1..6 nodes quick, ..8 thorough; random child order; open dimensions "
        "from {none,1,2,3}) x random symbolic Hamiltonians (1..8 terms, supports 1..N, labels shared between "
        "sites of equal dimension, explicit identity labels, Fraction prefactors incl. negative, symbols shared "
        "or distinct) x 4 methods; three streams: 'clean' (pairwise distinct label assignments), 'prop' (equal "
        "assignments with different coefficients), 'dup' (fully identical terms), 'zero' (some prefactor 0), 'lowrank' / 'planted' (coefficient matrix of prescribed low rank across an edge, C12's generators).  non-trivial = distinct "
        "(tree, Hamiltonian, method) with >= 2 terms and >= 2 nodes")
PARTIAL = [
    "combine_subtrees / cut_and_optimise / _reconnect_hyperedges / _copy_node (SGE, BIPARTITE) are not modelled line "
    "by line.  Proved about the model: merge_equal_subtrees_preserves / combine_base_preserves (re-attaching + erasing "
    "equal subtrees preserves sdDenote, no distinctness needed), cut_factor / cut_cover / cut_preserves (bilinear "
    "identity behind a cut: Gamma = L*Gamma'*R and routing through a vertex cover with |Cu|+|Cv| vertices), "
    "gamma_read_exact (the assignment Gamma[u][v] = coeff is exact iff no label pair repeats) and the two-node "
    "composition sge_two_node_exact_partial.  NOT proved: that the pointer surgery of _create_combined_u_v_lists / "
    "_reconnect_hyperedges / _copy_node realises these virtual nodes, the V-node hashing on trees with > 2 nodes "
    "(where F-C01d lives) and the BFS driver; decided per input by the exact formal-sum comparison of the library's "
    "state diagram with the padded Hamiltonian, by a stage probe (combine_subtrees must never change the denotation) "
    "and by the dense oracle",
    "the marking walk add_single_term (TREE) is not modelled; decided per input",
    "from_state_diagram is modelled (fillTTNO) and fill_contract_eq_denote / base_ttno_exact are proved about the "
    "model; the tie to the code is the correspondence `C01 fill` (shapes and non-zero positions exactly, values to "
    "1e-12, for the diagrams of all four methods).  Not modelled: NumPy itself (array allocation, in-place `+=` on "
    "complex blocks, astype) and Node/TTN bookkeeping of add_root / add_child_to_parent (leg order is compared)",
    "known defects F-C01a (TREE), F-C01b / F-C01c (SGE, BIPARTITE) and F-C01d (SGE): the full-strength statement is "
    "false of the code for those methods; theorem base_exact covers the uncompressed method only",
]
ASSUMPTIONS = ["labels of a conversion dictionary denote square matrices of the site's dimension; 'I<d>' denotes the "
               "d x d identity; coeffs_mapping['1'] == 1"]

METHOD_NAMES = ["SGE", "BIPARTITE", "TREE", "BASE"]
TOL = 1e-9


def _methods():
    from pytreenet.ttno.state_diagram import TTNOFinder
    return {"SGE": TTNOFinder.SGE, "BIPARTITE": TTNOFinder.BIPARTITE,
            "TREE": TTNOFinder.TREE, "BASE": TTNOFinder.BASE}


# ------------------------------------------------------------------ input model (pure data)

def site_dims(case) -> List[int]:
    """Dimension of the operator space of every node (no open leg -> 1)."""
    return [d if d > 0 else 1 for d in case["dims"]]


def padded_assignment(case, term) -> Tuple[str, ...]:
    """Label of every node (index order) after identity padding - written independently of the library."""
    pd = site_dims(case)
    ops = term[3]
    return tuple(ops.get(f"n{i}", f"I{pd[i]}") for i in range(len(pd)))


def expected_formal(case) -> Dict[Tuple[Tuple[str, ...], Tuple[str, ...]], Fraction]:
    """The Hamiltonian's own formal sum: (assignment, monomial) -> rational coefficient, zeros dropped."""
    out: Dict[Any, Fraction] = {}
    for t in case["terms"]:
        key = (padded_assignment(case, t), () if t[2] == "1" else (t[2],))
        out[key] = out.get(key, Fraction(0)) + Fraction(t[0], t[1])
    return {k: v for k, v in out.items() if v != 0}


def classify(case) -> Dict[str, bool]:
    """Facts about the INPUT that decide whether a failure belongs to a recorded defect."""
    terms = case["terms"]
    assigns = [padded_assignment(case, t) for t in terms]
    coeffs = [(Fraction(t[0], t[1]), t[2]) for t in terms]
    full = list(zip(assigns, coeffs))
    return {
        "dup_assign": len(set(assigns)) < len(assigns),
        "dup_full": len(set(full)) < len(full),
        "nonunit": any(c != (Fraction(1), "1") for c in coeffs),
        "coeffs_differ": len(set(coeffs)) > 1,
        "zero": any(c[0] == 0 for c in coeffs),
        # some label assignment is carried by two fully identical terms and by a third term with another coefficient
        "dup_full_plus_third": any(
            len(cs) > len(set(cs)) and len(set(cs)) >= 2
            for cs in [[c for a2, c in full if a2 == a] for a in set(assigns)]),
    }


def partial_coefficient_loss(got, want) -> bool:
    """F-C01d shape: the diagram has the Hamiltonian's support and every deviating coefficient lost part of its
    value: 0 < got/want < 1 (two equal contributions collapsed into one, e.g. 1 instead of 2)."""
    if got is None:
        return False
    dev = False
    for k in set(got) | set(want):
        g, w = got.get(k, Fraction(0)), want.get(k, Fraction(0))
        if g == w:
            continue
        if w == 0 or g == 0:
            return False
        r = g / w
        if not (0 < r < 1):
            return False
        dev = True
    return dev


def spurious_summands_only(got, want) -> bool:
    """Second observed shape of F-C01d: every summand of the Hamiltonian is present with the right coefficient and
    the diagram carries additional summands (label assignments that do not occur in the Hamiltonian at all)."""
    if got is None:
        return False
    if any(got.get(k, Fraction(0)) != w for k, w in want.items()):
        return False
    return any(k not in want for k in got)


def fc01d_deviation(got, want) -> bool:
    """Every deviating (assignment, monomial) key is a partial loss (0 < got/want < 1) or a spurious summand
    (absent from the Hamiltonian); at least one key deviates.  Missing summands, overshoot or sign changes are not
    the recorded defect."""
    if got is None:
        return False
    dev = False
    for k in set(got) | set(want):
        g, w = got.get(k, Fraction(0)), want.get(k, Fraction(0))
        if g == w:
            continue
        if w == 0:
            dev = True              # spurious summand
            continue
        if g == 0 or not (0 < g / w < 1):
            return False
        dev = True
    return dev


def fc01d_input(case) -> bool:
    """Input part of the F-C01d signature: distinct padded assignments, no zero prefactor, at least two different
    coefficient symbols (counting '1'), at least three nodes (two cuts)."""
    c = classify(case)
    return (not c["dup_assign"]) and (not c["zero"]) and len({t[2] for t in case["terms"]}) >= 2 \
        and len(case["par"]) >= 3


def known_signature(case, method: str, outcome: str) -> Optional[str]:
    """Finding id a failure of `method` on this input belongs to, or None.

    outcome: 'wrong' (an operator was returned but it is not the Hamiltonian) or 'exception'/'structure'.
    Signatures (see notes/C01.md for the experiments behind them):
      F-C01a  TREE, wrong operator, and (two terms carry different coefficients, or two terms have the same
              label assignment after padding).  [all-equal coefficients without repeated assignment are exact]
      F-C01b  SGE/BIPARTITE, wrong operator, and two terms are fully identical (same padded assignment, same
              Fraction, same symbol) and the diagram differs from the Hamiltonian only by a loss of multiplicity
              of such terms (`multiplicity_loss_only`, applied by the caller); or IndexError and some assignment is
              carried by two fully identical terms plus a third with another coefficient.
              [equal assignments with different coefficients are exact]
      F-C01c  SGE/BIPARTITE, some term has prefactor 0 (any manifestation, see the comment below).
      F-C01d  SGE only, distinct assignments, no zero prefactor, >= 2 different symbols, >= 3 nodes, and the diagram
              deviates from the Hamiltonian only by coefficients with 0 < got/want < 1 (`partial_coefficient_loss`)
              or only by additional summands whose assignment does not occur in the Hamiltonian
              (`spurious_summands_only`).
    """
    c = classify(case)
    if method == "TREE":
        if outcome == "wrong" and (c["coeffs_differ"] or c["dup_assign"]):
            return "F-C01a"
        return None
    if method in ("SGE", "BIPARTITE"):
        if c["zero"]:
            # zero prefactor -> Gamma entry 0 is read as "no edge" / used as a pivot: the hyperedges of that term are
            # left without a vertex or the elimination divides by zero.  Observed manifestations (1500 inputs):
            # ValueError, IndexError, ZeroDivisionError, a bond of dimension 0, a malformed diagram, a wrong operator.
            return "F-C01c"
        if outcome == "exception:IndexError" and c["dup_full_plus_third"]:
            return "F-C01b"          # second manifestation of the same defect (empty V_set entry)
        if outcome == "wrong" and c["dup_full"]:
            return "F-C01b"
    if method == "SGE" and outcome == "wrong-partial-loss" and fc01d_input(case):
        return "F-C01d"
    return None


# ------------------------------------------------------------------ generation

LABELS_PER_DIM = 3
SYMS = ["g0", "g1", "g2"]


def _rand_frac(rng) -> Tuple[int, int]:
    r = rng.random()
    if r < 0.35:
        return (1, 1)
    if r < 0.5:
        return (-1, 1)
    num = rng.choice([1, 2, 3, 5, 7, -1, -2, -3, 4, 6])
    den = rng.choice([1, 1, 2, 3, 4, 5])
    return (num, den)


def _rand_coeff(rng, style: str) -> Tuple[int, int, str]:
    if style == "unit":
        return (1, 1, "1")
    num, den = _rand_frac(rng)
    sym = rng.choice(["1", "1"] + SYMS) if style == "mixed" else "1"
    return (num, den, sym)


def _rand_ops(rng, n: int, pd: List[int], ident_p: float) -> Dict[str, str]:
    k = rng.choice([1, 1, 2, 2, 2, 3, rng.randint(1, n), n])
    k = max(1, min(k, n))
    sites = rng.sample(range(n), k)
    ops = {}
    for s in sites:
        d = pd[s]
        if rng.random() < ident_p:
            ops[f"n{s}"] = f"I{d}"
        else:
            ops[f"n{s}"] = f"X{d}_{rng.randrange(LABELS_PER_DIM)}"
    return ops


def gen_hamiltonian_case(rng: random.Random, stream: str, max_nodes: int, max_dim: int) -> Dict[str, Any]:
    n = rng.choice([1, 2, 2, 3, 3, 4, 4, 5, 5, 6, 6, 7, 8][: 3 + 2 * max(0, max_nodes - 2)] or [1])
    n = min(n, max_nodes)
    par = gen.random_parent_array(rng, n)
    order = gen.insertion_order(rng, par)
    dims = [rng.choice([2, 2, 2, 3, 1, 1, 0]) for _ in range(n)]
    # cap the dense dimension
    while int(np.prod([d if d > 0 else 1 for d in dims])) > max_dim:
        i = rng.randrange(n)
        dims[i] = {3: 2, 2: 1, 1: 1, 0: 0}[dims[i]]
    case = {"kind": "ham", "stream": stream, "par": par, "order": order, "dims": dims}
    pd = site_dims(case)
    nterms = rng.choice([1, 2, 2, 3, 3, 4, 4, 5, 6, 7, 8])
    coeff_style = rng.choice(["unit", "unit", "frac", "mixed", "mixed", "common"])
    common_c = _rand_coeff(rng, "mixed")
    ident_p = rng.choice([0.0, 0.0, 0.1, 0.25])
    terms: List[List[Any]] = []

    def coeff():
        return common_c if coeff_style == "common" else _rand_coeff(rng, coeff_style)

    tries = 0
    while len(terms) < nterms and tries < 200:
        tries += 1
        r = rng.random()
        if terms and r < 0.35:
            # variation of an earlier term: change / add / drop one site (shares subtrees -> merges)
            base = dict(rng.choice(terms)[3])
            s = rng.randrange(n)
            key = f"n{s}"
            choice = rng.random()
            if choice < 0.6 or key not in base:
                base[key] = f"X{pd[s]}_{rng.randrange(LABELS_PER_DIM)}"
            elif len(base) > 1:
                del base[key]
            ops = base
        else:
            ops = _rand_ops(rng, n, pd, ident_p)
        c = coeff()
        cand = [c[0], c[1], c[2], ops]
        assign = padded_assignment(case, cand)
        same_assign = [t for t in terms if padded_assignment(case, t) == assign]
        if stream == "clean" and same_assign:
            continue
        if stream == "prop" and any((Fraction(t[0], t[1]), t[2]) == (Fraction(c[0], c[1]), c[2]) for t in same_assign):
            continue
        terms.append(cand)
    if stream == "prop" and len(terms) >= 1:
        # force at least one repeated assignment with a different coefficient
        for _ in range(rng.choice([1, 1, 2])):
            t = rng.choice(terms)
            for _try in range(20):
                c = _rand_coeff(rng, "mixed")
                assign = padded_assignment(case, t)
                if all((Fraction(u[0], u[1]), u[2]) != (Fraction(c[0], c[1]), c[2])
                       for u in terms if padded_assignment(case, u) == assign):
                    terms.insert(rng.randrange(len(terms) + 1), [c[0], c[1], c[2], _respell(rng, case, t[3])])
                    break
    if stream == "dup" and len(terms) >= 1:
        for _ in range(rng.choice([1, 1, 2])):
            t = rng.choice(terms)
            terms.insert(rng.randrange(len(terms) + 1), [t[0], t[1], t[2], _respell(rng, case, t[3])])
    case["terms"] = terms
    case["vseed"] = rng.randrange(10 ** 9)
    return case


def _respell(rng, case, ops: Dict[str, str]) -> Dict[str, str]:
    """The same padded assignment, possibly written with explicit identities added or dropped."""
    pd = site_dims(case)
    out = dict(ops)
    for i in range(len(pd)):
        key = f"n{i}"
        ident = f"I{pd[i]}"
        if key not in out and rng.random() < 0.2:
            out[key] = ident
        elif out.get(key) == ident and len(out) > 1 and rng.random() < 0.5:
            del out[key]
    return out


# ------------------------------------------------------------------ building the library objects

_PREP_CACHE: Dict[str, Any] = {}


def case_key(case, with_method=False) -> str:
    c = {k: v for k, v in case.items() if with_method or k != "method"}
    return json.dumps(c, sort_keys=True)


def build_reference(case):
    """Reference TTNS through the public add_root/add_child_to_parent API (children in attach order)."""
    from pytreenet.ttns.ttns import TreeTensorNetworkState
    par, order, dims = case["par"], case["order"], case["dims"]
    rng = random.Random(case["vseed"] ^ 0x5bd1)
    nprng = np.random.default_rng(case["vseed"] ^ 0x5bd1)
    bond = {(p, i): rng.choice([1, 2]) for i, p in enumerate(par) if p >= 0}
    open_dims = {i: ([dims[i]] if dims[i] > 0 else []) for i in range(len(par))}
    ttn, _canon, attach, names = gen.build_network(TreeTensorNetworkState, par, bond, open_dims, rng, nprng,
                                                   order=list(order))
    return ttn, attach


def numeric_tables(case):
    """label -> matrix, symbol -> complex; generic (non-Hermitian, non-symmetric, complex)."""
    nprng = np.random.default_rng(case["vseed"])
    labels = sorted({l for t in case["terms"] for l in t[3].values()})
    conv: Dict[str, np.ndarray] = {}
    for l in labels:
        if l.startswith("I"):
            continue
        d = int(l[1:].split("_")[0])
        conv[l] = gen.rand_tensor(nprng, (d, d))
    for d in (1, 2, 3):
        conv[f"I{d}"] = np.eye(d, dtype=complex)
    cm: Dict[str, complex] = {"1": 1}
    for s in sorted({t[2] for t in case["terms"]} - {"1"}):
        cm[s] = complex(nprng.standard_normal(), nprng.standard_normal())
    return conv, cm


def build_hamiltonian(case, conv, cm):
    from pytreenet.operators.hamiltonian import Hamiltonian
    from pytreenet.operators.tensorproduct import TensorProduct
    terms = [(Fraction(t[0], t[1]), t[2], TensorProduct(dict(t[3]))) for t in case["terms"]]
    return Hamiltonian(terms, {k: v.copy() for k, v in conv.items()}, dict(cm))


def dense_reference(case, conv, cm):
    n = len(case["par"])
    ids = [f"n{i}" for i in range(n)]
    order = sorted(ids)
    pd = site_dims(case)
    dims = [pd[int(i[1:])] for i in order]
    D = int(np.prod(dims))
    M = np.zeros((D, D), dtype=complex)
    scale = 0.0
    for t in case["terms"]:
        ops = {k: conv[v] for k, v in t[3].items()}
        term = dense.embed_ops(ops, order, dims)
        c = complex(Fraction(t[0], t[1])) * cm[t[2]]
        M = M + c * term
        scale += abs(c) * np.linalg.norm(term)
    return M, order, dims, max(scale, 1e-300)


def prepare(case):
    key = case_key(case)
    hit = _PREP_CACHE.get("key")
    if hit == key:
        return _PREP_CACHE["val"]
    conv, cm = numeric_tables(case)
    M, order, dims, scale = dense_reference(case, conv, cm)
    val = {"conv": conv, "cm": cm, "M": M, "order": order, "dims": dims, "scale": scale}
    _PREP_CACHE["key"] = key
    _PREP_CACHE["val"] = val
    return val


def structure_problems(case, ref, ttno) -> List[str]:
    """Identifiers, parent/child relations of the reference tree; well-formed; physical dimensions from the table."""
    probs = []
    n = len(case["par"])
    want_struct = dense.structure(ref)
    got_struct = dense.structure(ttno)
    if got_struct != want_struct:
        probs.append(f"structure differs from the reference tree: {got_struct} vs {want_struct}")
        return probs
    wf = dense.well_formed(ttno)
    if wf:
        probs.append("TTNO not well-formed: " + "; ".join(wf[:3]))
    pd = site_dims(case)
    for i in range(n):
        nid = f"n{i}"
        t = ttno.tensors[nid]
        nv = ttno.nodes[nid].nneighbours()
        if t.ndim != nv + 2 or tuple(t.shape[nv:]) != (pd[i], pd[i]):
            probs.append(f"node {nid}: tensor shape {t.shape}, expected {nv} virtual legs + ({pd[i]},{pd[i]})")
    return probs


# ------------------------------------------------------------------ reading a library state diagram

def diagram_problems(sd, ref) -> List[str]:
    """Well-formedness used by the tensor filling: one vertex per incident edge, member of that edge's collection."""
    probs = []
    for nid, node in ref.nodes.items():
        if nid not in sd.hyperedge_colls:
            probs.append(f"no hyperedge collection for node {nid}")
            continue
        neigh = ([node.parent] if node.parent is not None else []) + list(node.children)
        for he in sd.hyperedge_colls[nid].contained_hyperedges:
            if he.corr_node_id != nid:
                probs.append(f"hyperedge of node {he.corr_node_id} stored under {nid}")
            seen = []
            for v in he.vertices:
                other = [x for x in v.corr_edge if x != nid]
                if len(other) != 1 or nid not in v.corr_edge:
                    probs.append(f"hyperedge at {nid} holds a vertex of edge {v.corr_edge}")
                    continue
                seen.append(other[0])
                coll = None
                for k in ((nid, other[0]), (other[0], nid)):
                    if k in sd.vertex_colls:
                        coll = sd.vertex_colls[k]
                if coll is None or not any(v is w for w in coll.contained_vertices):
                    probs.append(f"hyperedge at {nid}: vertex toward {other[0]} is not in that edge's collection")
            if sorted(seen) != sorted(neigh):
                probs.append(f"hyperedge at {nid} has vertices toward {sorted(seen)} but neighbours {sorted(neigh)}")
    return probs


def _poly_mul(a: Dict[Any, Fraction], b: Dict[Any, Fraction]) -> Dict[Any, Fraction]:
    out: Dict[Any, Fraction] = {}
    for (as1, m1), c1 in a.items():
        for (as2, m2), c2 in b.items():
            key = (tuple(sorted(as1 + as2)), tuple(sorted(m1 + m2)))
            out[key] = out.get(key, Fraction(0)) + c1 * c2
    return out


def diagram_formal_sum(sd, ref, limit: int = 20000):
    """Sum over all choices of one hyperedge per node that agree on every vertex (tree DP, exact)."""
    memo: Dict[int, Dict[Any, Fraction]] = {}

    def vertex_toward(he, other):
        for v in he.vertices:
            if other in v.corr_edge and he.corr_node_id in v.corr_edge:
                return v
        return None

    def G(he):
        if id(he) in memo:
            return memo[id(he)]
        nid = he.corr_node_id
        lam = Fraction(he.lambda_coeff)
        mono = () if he.gamma_coeff == "1" else (he.gamma_coeff,)
        acc = {(((nid, he.label),), mono): lam}
        for child in ref.nodes[nid].children:
            v = vertex_toward(he, child)
            tot: Dict[Any, Fraction] = {}
            for h2 in sd.hyperedge_colls[child].contained_hyperedges:
                if vertex_toward(h2, nid) is v and v is not None:
                    for k, c in G(h2).items():
                        tot[k] = tot.get(k, Fraction(0)) + c
            acc = _poly_mul(acc, tot)
            if len(acc) > limit:
                raise OverflowError("formal sum too large")
        memo[id(he)] = acc
        return acc

    total: Dict[Any, Fraction] = {}
    for he in sd.hyperedge_colls[ref.root_id].contained_hyperedges:
        for k, c in G(he).items():
            total[k] = total.get(k, Fraction(0)) + c
    n = len(ref.nodes)
    out: Dict[Any, Fraction] = {}
    for (assign, mono), c in total.items():
        if c == 0:
            continue
        d = dict(assign)
        key = (tuple(d[f"n{i}"] for i in range(n)), mono)
        out[key] = c
    return out


def fmt_formal(fs) -> str:
    items = []
    for (assign, mono), c in sorted(fs.items(), key=lambda kv: (kv[0][0], kv[0][1])):
        items.append(f"{c}*{'.'.join(mono) if mono else '1'}:" + ",".join(assign))
    return " + ".join(items) if items else "0"


def formal_diff(got, want, limit=3) -> str:
    msgs = []
    for k in sorted(set(got) | set(want)):
        g, w = got.get(k, Fraction(0)), want.get(k, Fraction(0))
        if g != w:
            msgs.append(f"{','.join(k[0])} [{'.'.join(k[1]) or '1'}]: diagram {g}, Hamiltonian {w}")
    return "; ".join(msgs[:limit]) + (f" (+{len(msgs) - limit} more)" if len(msgs) > limit else "")


def multiplicity_loss_only(case, got, want) -> bool:
    """F-C01b shape: the diagram differs from the Hamiltonian only on (assignment, monomial) keys that are hit by
    >= 2 fully identical terms, and there it holds k*coefficient for some 1 <= k < multiplicity."""
    mult: Dict[Any, Dict[Fraction, int]] = {}
    for t in case["terms"]:
        key = (padded_assignment(case, t), () if t[2] == "1" else (t[2],))
        f = Fraction(t[0], t[1])
        mult.setdefault(key, {})
        mult[key][f] = mult[key].get(f, 0) + 1
    for k in set(got) | set(want):
        g, w = got.get(k, Fraction(0)), want.get(k, Fraction(0))
        if g == w:
            continue
        if k not in mult:
            return False
        # w = sum f*m_f ; g must be sum f*k_f with 1 <= k_f <= m_f and some k_f < m_f
        fr = list(mult[k].items())
        ok = False

        def rec(i, acc, lost):
            nonlocal ok
            if ok:
                return
            if i == len(fr):
                if acc == g and lost:
                    ok = True
                return
            f, m = fr[i]
            for kk in range(1, m + 1):
                rec(i + 1, acc + f * kk, lost or kk < m)
        rec(0, Fraction(0), False)
        if not ok:
            return False
    return True


def canonical_diagram(sd, ref) -> str:
    """Per node (index order) `<i>=<label>|<num>/<den>|<gamma>|<vertex positions toward (parent, children in
    reference order) joined by '.'>` hyperedges joined by ',', nodes joined by ';', then ';' and the edges
    `<parent>-<child>:<number of vertices>` (child index order) joined by ','.  Vertex = position in its collection."""
    n = len(ref.nodes)
    parts = []
    for i in range(n):
        nid = f"n{i}"
        node = ref.nodes[nid]
        neigh = ([node.parent] if node.parent is not None else []) + list(node.children)
        hes = []
        for he in sd.hyperedge_colls[nid].contained_hyperedges:
            pos = []
            for nb in neigh:
                coll = sd.vertex_colls.get((nid, nb)) or sd.vertex_colls.get((nb, nid))
                v = [x for x in he.vertices if nb in x.corr_edge]
                idx = [k for k, w in enumerate(coll.contained_vertices) if v and w is v[0]]
                pos.append(str(idx[0]) if idx else "?")
            lam = Fraction(he.lambda_coeff)
            hes.append(f"{he.label}|{lam.numerator}/{lam.denominator}|{he.gamma_coeff}|{'.'.join(pos)}")
        parts.append(f"{i}=" + ",".join(hes))
    edges = []
    for i in range(n):
        nid = f"n{i}"
        p = ref.nodes[nid].parent
        if p is not None:
            coll = sd.vertex_colls.get((p, nid)) or sd.vertex_colls.get((nid, p))
            edges.append(f"{p[1:]}-{i}:{len(coll.contained_vertices)}")
    return ";".join(parts) + ";" + ",".join(edges)


def gauge_free_diagram(case, diag: str) -> str:
    """Rename the vertices of every edge in order of first appearance (nodes in index order, hyperedges in list
    order): the order of an edge's vertex collection is a permutation of the bond index, not behaviour."""
    n = len(case["par"])
    attach: Dict[int, List[int]] = {i: [] for i in range(n)}
    for x in case["order"]:
        if case["par"][x] >= 0:
            attach[case["par"][x]].append(x)
    parts = diag.split(";")
    if len(parts) != n + 1:
        return diag
    ren: Dict[int, Dict[str, int]] = {i: {} for i in range(n)}      # edge (keyed by child) -> old position -> new
    out = []
    for i in range(n):
        head, _, body = parts[i].partition("=")
        edges = ([i] if case["par"][i] >= 0 else []) + attach[i]
        hes = []
        for he in (body.split(",") if body else []):
            f = he.split("|")
            if len(f) != 4:
                return diag
            pos = f[3].split(".") if f[3] else []
            if len(pos) != len(edges):
                return diag
            new = []
            for e, q in zip(edges, pos):
                new.append(str(ren[e].setdefault(q, len(ren[e]))))
            hes.append("|".join(f[:3] + [".".join(new)]))
        out.append(head + "=" + ",".join(hes))
    return ";".join(out) + ";" + parts[n]


def probe_stages(ctx, case, ref, hp, meth) -> None:
    """Wrap `combine_subtrees` / `cut_and_optimise` from outside and read the diagram's exact formal sum before and
    after every call.  Theorem merge_equal_subtrees_preserves says that re-attaching equal subtrees can never change
    the denotation (also for repeated terms): a change at a combine step is a model/implementation disagreement.
    Changes at a cut step are only tallied (they are what the final comparison judges)."""
    import pytreenet.ttno.state_diagram as sdm
    SDc = sdm.StateDiagram
    orig_cut, orig_comb = SDc.cut_and_optimise, SDc.combine_subtrees
    events: List[Tuple[str, Any, Any]] = []

    def read(sd):
        try:
            if diagram_problems(sd, ref):
                return None
            return diagram_formal_sum(sd, ref, limit=4000)
        except Exception:       # noqa: BLE001
            return None

    def comb(self, hes, parent):
        before = read(self)
        orig_comb(self, hes, parent)
        events.append(("combine", before, read(self)))

    def cut(self, local_vs, current_node, parent):
        before = read(self)
        orig_cut(self, local_vs, current_node, parent)
        events.append(("cut", before, read(self)))

    SDc.combine_subtrees, SDc.cut_and_optimise = comb, cut
    try:
        try:
            SDc.from_hamiltonian(hp, ref, meth)
        except Exception:       # noqa: BLE001  (judged by the oracle, not here)
            pass
    finally:
        SDc.combine_subtrees, SDc.cut_and_optimise = orig_comb, orig_cut
    for kind, before, after in events:
        if before is None or after is None:
            ctx.tally("stage_probe", f"{kind}:unreadable")
            continue
        same = before == after
        ctx.tally("stage_probe", f"{kind}:{'same' if same else 'changed'}")
        if kind == "combine" and not same:
            ctx.corr_fail(case, "combine_subtrees changed the denotation of the diagram: "
                          + formal_diff(after, before))
            break


# ------------------------------------------------------------------ from_state_diagram vs the Lean model `fillTTNO`

_FILL_DEFER = False
_FILL_QUEUE: List[Dict[str, Any]] = []


def fill_request(case, sd, ref, hp, meth) -> Optional[Dict[str, Any]]:
    """Run the library's `from_state_diagram` on `sd` and prepare the model request for the same diagram."""
    from pytreenet.ttno.ttno_class import TreeTensorNetworkOperator
    n = len(ref.nodes)
    diag = canonical_diagram(sd, ref)
    if "?" in diag:
        return None
    conv = hp.conversion_dictionary
    labels = sorted({he.label for he in sd.get_all_hyperedges()})
    table = " ".join(f"{l}:{conv[l].shape[0]}" for l in labels if l in conv)
    line = f"C01 fill {lean_tree_tokens(case)} {diag} {table}".rstrip()
    item: Dict[str, Any] = {"case": case, "line": line, "conv": conv, "cm": hp.coeffs_mapping}
    try:
        ttno2 = TreeTensorNetworkOperator.from_state_diagram(sd, conv, hp.coeffs_mapping, meth)
    except Exception as e:      # noqa: BLE001
        item["raised"] = f"{type(e).__name__}: {str(e)[:80]}"
        return item
    tensors = {}
    for i in range(n):
        nid = f"n{i}"
        node_ref = ref.nodes[nid]
        want = ([node_ref.parent] if node_ref.parent is not None else []) + list(node_ref.children)
        node = ttno2.nodes[nid]
        have = ([node.parent] if node.parent is not None else []) + list(node.children)
        t = np.asarray(ttno2.tensors[nid])
        if sorted(want) != sorted(have) or t.ndim != len(have) + 2:
            item["raised"] = f"structure: node {nid} has neighbours {have}, reference {want}"
            return item
        perm = [have.index(x) for x in want] + [len(have), len(have) + 1]
        tensors[i] = np.transpose(t, perm)
    item["tensors"] = tensors
    return item


def compare_fill(item, model: str) -> Optional[str]:
    """None if the library's tensors are what the model's `fillTTNO` says (shapes and non-zero positions exactly,
    values to 1e-12), else a description."""
    import itertools
    if model == "bad-op":
        return "model could not parse the diagram: " + item["line"][:200]
    if model == "raise":
        return None if "raised" in item else "model: from_state_diagram raises on this diagram, the library returned a TTNO"
    if "raised" in item:
        return f"library from_state_diagram failed ({item['raised']}), model returns a TTNO"
    conv, cm, tensors = item["conv"], item["cm"], item["tensors"]
    for part in model.split(";"):
        f = part.split(":", 2)
        if len(f) != 3 or f[1] == "?":
            return f"model output malformed: {part[:80]}"
        i = int(f[0])
        shape = [int(x) for x in f[1].split("x")]
        bonds, phys = shape[:-1], shape[-1]
        t = tensors[i]
        if list(t.shape) != bonds + [phys, phys]:
            return f"node n{i}: tensor shape {t.shape}, model {bonds + [phys, phys]}"
        cells: Dict[Tuple[int, ...], np.ndarray] = {}
        if f[2]:
            for cell in f[2].split(","):
                pos_s, _, items = cell.partition("=")
                pos = tuple(int(x) for x in pos_s.split(".")) if pos_s else ()
                acc = np.zeros((phys, phys), dtype=complex)
                for it in items.split("+"):
                    q, gam, lab = it.split("*", 2)
                    acc = acc + complex(Fraction(q)) * cm[gam] * conv[lab]
                cells[pos] = acc
        for pos in itertools.product(*[range(b) for b in bonds]):
            block = t[pos]
            if pos in cells:
                if not np.all(np.abs(block - cells[pos]) <= 1e-12 * max(1.0, float(np.max(np.abs(cells[pos]))))):
                    return f"node n{i}, position {pos}: library entry differs from the model's sum of contributions"
            elif np.any(block != 0):
                return f"node n{i}, position {pos}: library entry non-zero, model has no contribution there"
    return None


def flush_fill_checks(ctx) -> None:
    global _FILL_QUEUE
    queue, _FILL_QUEUE = _FILL_QUEUE, []
    if not queue:
        return
    try:
        outs = ctx.lean.batch([q["line"] for q in queue])
    except Exception as e:      # noqa: BLE001
        raise common.HarnessError(f"model driver (fill): {e}")
    for q, out in zip(queue, outs):
        msg = compare_fill(q, out)
        ctx.tally("fill_check", "agree" if msg is None else "DISAGREE")
        if msg is not None:
            ctx.corr_fail(q["case"], "from_state_diagram vs model fillTTNO: " + msg)


# ------------------------------------------------------------------ Lean protocol

def lean_tree_tokens(case) -> str:
    """`<n> <parent of 0..n-1> <children of node 0..n-1 in reference order, '-' if none> <dims>`"""
    n = len(case["par"])
    attach: Dict[int, List[int]] = {i: [] for i in range(n)}
    for x in case["order"]:
        if case["par"][x] >= 0:
            attach[case["par"][x]].append(x)
    toks = [str(n)]
    toks += [str(p) for p in case["par"]]
    toks += [(".".join(str(c) for c in attach[i]) or "-") for i in range(n)]
    toks += [str(d) for d in site_dims(case)]
    return " ".join(toks)


def lean_term_tokens(case) -> str:
    """`<T>` then per term `<num> <den> <sym> <k> (site label)*k`"""
    toks = [str(len(case["terms"]))]
    for t in case["terms"]:
        toks += [str(t[0]), str(t[1]), t[2], str(len(t[3]))]
        for k, v in t[3].items():
            toks += [k[1:], v]
    return " ".join(toks)


def lean_lines(case) -> List[str]:
    body = lean_tree_tokens(case) + " " + lean_term_tokens(case)
    return [f"C01 denote {body}", f"C01 diagram {body}", f"C01 ham {body}"]


def fmt_formal_protocol(fs) -> str:
    """Canonical one-token-per-summand form shared with the Lean driver:
    `num/den*sym:label,label,...` sorted by (labels, sym); `0` if empty.  (Only linear forms occur for BASE.)"""
    items = []
    for (assign, mono), c in sorted(fs.items(), key=lambda kv: (list(kv[0][0]), ".".join(kv[0][1]) or "1")):
        sym = ".".join(mono) if mono else "1"
        items.append(f"{c.numerator}/{c.denominator}*{sym}:" + ",".join(assign))
    return " ".join(items) if items else "0"


# ------------------------------------------------------------------ run

def run(ctx):
    rng = ctx.rng
    cases: List[Dict[str, Any]] = []
    cdir = os.path.join(common.CORPUS_DIR, "C01")
    if os.path.isdir(cdir):
        for f in sorted(os.listdir(cdir)):
            if f.endswith(".json"):
                payload = common.unjson(json.load(open(os.path.join(cdir, f))))
                cases.append(payload.get("case", payload))
    max_nodes = 6 if ctx.tier == "quick" else 8
    max_dim = 72 if ctx.tier == "quick" else 216
    n_ham = ctx.n(2200, 13000)
    streams = ["clean"] * 5 + ["prop"] * 2 + ["dup"] * 2
    for k in range(n_ham):
        stream = streams[k % len(streams)]
        cases.append(gen_hamiltonian_case(rng, stream, max_nodes, max_dim))
    # zero prefactors (recorded defect F-C01c for SGE/BIPARTITE; BASE must stay exact)
    for k in range(max(4, n_ham // 12)):
        c = gen_hamiltonian_case(rng, ["clean", "clean", "prop", "dup"][k % 4], max_nodes, max_dim)
        for _ in range(rng.choice([1, 1, 2])):
            t = rng.choice(c["terms"])
            t[0] = 0
        c["stream"] = "zero"
        cases.append(c)
    # adversarial low-rank Hamiltonians (generator of C12; distinct assignments, symbols per row / column):
    # the inputs on which the recorded defect F-C01d was found (about one hit in 200000)
    from harness.props import c12 as _c12
    for k in range(n_ham // 5):
        c = _c12.gen_lowrank_case(rng, min(max_nodes, 5), max_dim)
        c["kind"] = "ham"
        cases.append(c)
    # planted symbolic low-rank Hamiltonians (per-entry symbols; second shape of F-C01d was found here)
    for k in range(n_ham // 6):
        c = _c12.gen_planted_case(rng, 4, max_dim)
        c["kind"] = "ham"
        cases.append(c)
    # hand-made corner cases (always)
    cases.extend(fixed_cases())
    # Lean answers in one batch (BASE model: denotation, diagram, padded Hamiltonian)
    model: Dict[str, List[str]] = {}
    base_cases = [c for c in cases if c.get("kind", "ham") == "ham" and "method" not in c]
    lines: List[str] = []
    for c in base_cases:
        lines.extend(lean_lines(c))
    try:
        outs = ctx.lean.batch(lines) if lines else []
    except Exception as e:      # noqa: BLE001
        raise common.HarnessError(f"model driver: {e}")
    for i, c in enumerate(base_cases):
        model[case_key(c)] = outs[3 * i: 3 * i + 3]
    global _FILL_DEFER
    _FILL_DEFER = True
    try:
        for c in cases:
            if ctx.time_left() < 0:
                break
            if "method" in c:
                run_case(ctx, c)
            else:
                for m in METHOD_NAMES:
                    run_case(ctx, dict(c, method=m), model.get(case_key(c)))
            if len(_FILL_QUEUE) >= 4000:
                flush_fill_checks(ctx)
        flush_fill_checks(ctx)
    finally:
        _FILL_DEFER = False


def fixed_cases() -> List[Dict[str, Any]]:
    def T(num, den, sym, **kw):
        return [num, den, sym, {f"n{k[1:]}": v for k, v in kw.items()}]
    out = []
    # single node tree
    out.append({"kind": "ham", "stream": "clean", "par": [-1], "order": [0], "dims": [2],
                "terms": [T(2, 3, "g0", s0="X2_0"), T(1, 1, "1", s0="X2_1")], "vseed": 11})
    # two hyperedges at the same tensor position (same vertices, different labels)
    out.append({"kind": "ham", "stream": "clean", "par": [-1, 0], "order": [0, 1], "dims": [2, 2],
                "terms": [T(1, 1, "1", s0="X2_0", s1="X2_1"), T(1, 1, "1", s0="X2_2", s1="X2_1")], "vseed": 12})
    # same label, same position, different coefficients (must add up)
    out.append({"kind": "ham", "stream": "prop", "par": [-1, 0], "order": [0, 1], "dims": [2, 2],
                "terms": [T(2, 1, "1", s0="X2_0", s1="X2_1"), T(3, 1, "g0", s0="X2_0", s1="X2_1")], "vseed": 13})
    # child order of the reference differs from index order; dimension-1 and non-physical nodes
    out.append({"kind": "ham", "stream": "clean", "par": [-1, 0, 0, 0, 1], "order": [0, 3, 1, 2, 4],
                "dims": [0, 2, 1, 3, 2],
                "terms": [T(1, 1, "1", s1="X2_0", s3="X3_0"), T(1, 2, "g1", s2="X1_0", s4="X2_1"),
                          T(-1, 1, "1", s3="X3_1", s4="X2_0"), T(1, 1, "1", s1="X2_0", s4="X2_0")], "vseed": 14})
    # duplicate through an explicit identity
    out.append({"kind": "ham", "stream": "dup", "par": [-1, 0, 1], "order": [0, 1, 2], "dims": [2, 2, 2],
                "terms": [T(1, 1, "1", s0="X2_0"), T(1, 1, "1", s0="X2_0", s2="I2"), T(1, 1, "1", s1="X2_1")],
                "vseed": 15})
    return out


def run_case(ctx, case, model_out: Optional[List[str]] = None):
    from pytreenet.ttno.ttno_class import TreeTensorNetworkOperator
    from pytreenet.ttno.state_diagram import StateDiagram
    method = case["method"]
    meth = _methods()[method]
    base = {k: v for k, v in case.items() if k != "method"}
    n = len(case["par"])
    cls = classify(case)
    prep = prepare(base)
    conv, cm, M, order, dims, scale = (prep[k] for k in ("conv", "cm", "M", "order", "dims", "scale"))
    nontrivial = n >= 2 and len(case["terms"]) >= 2
    ctx.count(case_key(case, True), nontrivial=nontrivial, corr=(method == "BASE"))
    ctx.tally("method", method)
    ctx.tally("stream", case.get("stream", "?"))
    if method == "BASE":
        ctx.tally("nodes", n)
        ctx.tally("terms", len(case["terms"]))
        ctx.tally("dense_dim", int(np.prod(dims)))
        ctx.tally("coeff_kinds", ("nonunit" if cls["nonunit"] else "unit") + ("+dupassign" if cls["dup_assign"] else "")
                  + ("+dupfull" if cls["dup_full"] else ""))
        ctx.sample(base, 3)

    def fail(outcome: str, detail: str):
        ctx.oracle_fail(case, f"{method}: {detail}", finding=known_signature(case, method, outcome))

    want_formal = expected_formal(base)

    # ---- the judged call
    try:
        ref, attach = build_reference(base)
        ham = build_hamiltonian(base, conv, cm)
        ttno = TreeTensorNetworkOperator.from_hamiltonian(ham, ref, meth)
    except Exception as e:      # noqa: BLE001
        fail(f"exception:{type(e).__name__}", f"from_hamiltonian raised {type(e).__name__}: {str(e)[:160]}")
        ctx.tally("outcome", f"{method}:exception")
        return

    # ---- structure
    probs = structure_problems(base, ref, ttno)
    if probs:
        fail("structure", "; ".join(probs[:3]))
        ctx.tally("outcome", f"{method}:structure")
        return

    # ---- numeric oracle
    wrong = []
    try:
        got = dense.ttno_matrix(ttno, order)
        err = np.linalg.norm(got - M) / scale
    except Exception as e:      # noqa: BLE001  (tensors that do not fit together)
        err = float("inf")
        wrong.append(f"TTNO cannot be contracted: {type(e).__name__}: {str(e)[:120]}")
    if not err <= TOL:
        wrong.append(f"dense contraction differs from sum_k c_k (x) A_k: relative error {err:.3e}")
    # as_matrix consistency (returned order)
    try:
        am, am_order = ttno.as_matrix()
        if sorted(am_order) != order:
            wrong.append(f"as_matrix order {am_order} is not a permutation of the node ids")
        else:
            nn = len(order)
            perm = [order.index(x) for x in am_order]
            ref_t = M.reshape(dims + dims).transpose(perm + [nn + p for p in perm]).reshape(M.shape)
            e2 = np.linalg.norm(np.asarray(am) - ref_t) / scale
            if not e2 <= TOL:
                wrong.append(f"as_matrix() differs from the Hamiltonian in its returned order: relative error {e2:.3e}")
    except Exception as e:      # noqa: BLE001
        wrong.append(f"as_matrix raised {type(e).__name__}: {str(e)[:120]}")

    # ---- exact formal sum of the library's diagram
    got_formal = None
    sd = None
    try:
        hp = ham.pad_with_identities(ref)
        # padding itself, exactly
        for t, (_f, _c, tp) in zip(base["terms"], hp.terms):
            lib_assign = tuple(tp.get(f"n{i}") for i in range(n))
            if lib_assign != padded_assignment(base, t) or len(tp) != n:
                wrong.append(f"pad_with_identities gives {dict(tp)} for term {t[3]}")
                break
        sd = StateDiagram.from_hamiltonian(hp, ref, meth)
        if method in ("SGE", "BIPARTITE") and case["vseed"] % 5 == 0 and not cls["zero"]:
            probe_stages(ctx, case, ref, hp, meth)
        dp = diagram_problems(sd, ref)
        if dp:
            wrong.append("state diagram malformed: " + "; ".join(dp[:2]))
        else:
            fq = fill_request(case, sd, ref, hp, meth)
            if fq is not None:
                _FILL_QUEUE.append(fq)
                if not _FILL_DEFER:
                    flush_fill_checks(ctx)
            got_formal = diagram_formal_sum(sd, ref)
            if got_formal != want_formal:
                wrong.append("state diagram denotes a different operator: " + formal_diff(got_formal, want_formal))
            # bond dimensions of the TTNO = number of vertices per edge
            for (p, c), bd in ttno.bond_dims().items():
                coll = sd.vertex_colls.get((p, c)) or sd.vertex_colls.get((c, p))
                if bd != len(coll.contained_vertices):
                    wrong.append(f"bond {p}-{c}: dimension {bd} but {len(coll.contained_vertices)} vertices")
                    break
    except Exception as e:      # noqa: BLE001
        wrong.append(f"state diagram construction/reading raised {type(e).__name__}: {str(e)[:120]}")

    if wrong:
        outcome = "wrong"
        # tighten F-C01b: only a loss of multiplicity of identical terms is the recorded defect
        if method in ("SGE", "BIPARTITE") and got_formal is not None and \
                not multiplicity_loss_only(base, got_formal, want_formal):
            outcome = "wrong-other"
        if method in ("SGE", "BIPARTITE") and got_formal is None:
            outcome = "wrong-other"
        if method == "SGE" and outcome == "wrong-other" and not cls["dup_full"] and \
                fc01d_deviation(got_formal, want_formal):
            outcome = "wrong-partial-loss"
        fail(outcome, "; ".join(wrong[:3]))
        ctx.tally("outcome", f"{method}:{outcome}")
    else:
        ctx.tally("outcome", f"{method}:exact")

    # ---- correspondence with the Lean model (BASE only)
    if method == "BASE" and sd is not None and got_formal is not None:
        if model_out is None:
            try:
                model_out = ctx.lean.batch(lean_lines(base))
            except Exception as e:      # noqa: BLE001
                raise common.HarnessError(f"model driver: {e}")
        m_denote, m_diag, m_ham = model_out
        impl_denote = fmt_formal_protocol(got_formal)
        if m_denote != impl_denote:
            ctx.corr_fail(case, f"sdDenote(model base diagram) = {m_denote[:300]} but library diagram denotes {impl_denote[:300]}")
        impl_diag = gauge_free_diagram(base, canonical_diagram(sd, ref))
        m_diag = gauge_free_diagram(base, m_diag)
        if m_diag != impl_diag:
            ctx.corr_fail(case, f"base diagram: model {m_diag[:300]} library {impl_diag[:300]}")
        want_ham = fmt_formal_protocol(want_formal)
        if m_ham != want_ham:
            ctx.corr_fail(case, f"padded Hamiltonian: model {m_ham[:300]} harness {want_ham[:300]}")


# ------------------------------------------------------------------ shrinking

def shrink(case):
    terms = case["terms"]
    # drop a term
    if len(terms) > 1:
        for i in range(len(terms)):
            yield dict(case, terms=terms[:i] + terms[i + 1:])
    # remove a leaf node that no term touches (or drop it from the terms)
    n = len(case["par"])
    par = case["par"]
    if n > 1:
        leaves = [i for i in range(n) if i not in par]
        for leaf in reversed(leaves):
            if leaf == 0:
                continue
            remap = {i: (i if i < leaf else i - 1) for i in range(n) if i != leaf}
            new_terms = []
            ok = True
            for t in terms:
                ops = {f"n{remap[int(k[1:])]}": v for k, v in t[3].items() if int(k[1:]) != leaf}
                if not ops:
                    ok = False
                    break
                new_terms.append([t[0], t[1], t[2], ops])
            if not ok:
                continue
            new_par = [(-1 if par[i] < 0 else remap[par[i]]) for i in range(n) if i != leaf]
            new_order = [remap[x] for x in case["order"] if x != leaf]
            new_dims = [case["dims"][i] for i in range(n) if i != leaf]
            yield dict(case, par=new_par, order=new_order, dims=new_dims, terms=new_terms)
    # simplify coefficients
    for i, t in enumerate(terms):
        if (t[0], t[1], t[2]) != (1, 1, "1"):
            yield dict(case, terms=terms[:i] + [[1, 1, "1", t[3]]] + terms[i + 1:])
    # drop a site from a term
    for i, t in enumerate(terms):
        if len(t[3]) > 1:
            for k in list(t[3]):
                ops = {a: b for a, b in t[3].items() if a != k}
                yield dict(case, terms=terms[:i] + [[t[0], t[1], t[2], ops]] + terms[i + 1:])
    # natural child order
    if case["order"] != list(range(n)):
        yield dict(case, order=list(range(n)))
